#!/usr/bin/env python3
"""Sensitivity battery: apply each catalogued source mutation to a scratch copy
of the repository (outside /repo and /verif), extract facts and run the check;
the rule named in the catalogue must fire.  Scratch copies are removed
immediately.  Usage: run.py [--only C10,C11] [--id m1,m2] [-j N] [--json out]"""
import argparse
import concurrent.futures as cf
import json
import os
import shutil
import subprocess
import sys
import tempfile

VERIF = os.path.dirname(os.path.dirname(os.path.abspath(__file__)))
REPO = os.environ.get("FPV_REPO", "/repo")


def apply_mut(root, m):
    p = os.path.join(root, m["file"])
    with open(p, encoding="utf-8") as fh:
        s = fh.read()
    cnt = s.count(m["old"])
    nth = m.get("nth")
    if cnt == 0:
        return "pattern not found"
    if nth is None and cnt != 1:
        return "pattern occurs %d times (give nth)" % cnt
    if nth is None:
        s = s.replace(m["old"], m["new"], 1)
    else:
        idx = -1
        for _ in range(nth + 1):
            idx = s.find(m["old"], idx + 1)
            if idx < 0:
                return "nth occurrence not found"
        s = s[:idx] + m["new"] + s[idx + len(m["old"]):]
    with open(p, "w", encoding="utf-8") as fh:
        fh.write(s)
    return None


def run_one(m, worker):
    scratch = tempfile.mkdtemp(prefix="fpv_mut_", dir=os.environ.get("TMPDIR", "/tmp"))
    try:
        dst = os.path.join(scratch, "repo")
        shutil.copytree(REPO, dst, ignore=shutil.ignore_patterns("target", ".git", "*.raw", "test-data"))
        if m.get("patch"):
            pr = subprocess.run(["patch", "-p1", "-s", "-d", dst, "-i", os.path.join(VERIF, "selftest", "patches", m["patch"])], stdout=subprocess.PIPE, stderr=subprocess.STDOUT, text=True)
            if pr.returncode != 0:
                return dict(id=m["id"], status="skipped", why="patch failed: " + pr.stdout[-200:])
            muts = []
        else:
            muts = m.get("edits") or [m]
        for e in muts:
            err = apply_mut(dst, e)
            if err:
                return dict(id=m["id"], status="skipped", why=err)
        res = {}
        for pid in m["properties"]:
            p = subprocess.run([os.path.join(VERIF, "check"), pid, "--repo", dst, "--tier", "quick"],
                               stdout=subprocess.PIPE, stderr=subprocess.STDOUT, text=True,
                               env=dict(os.environ, FPV_EVIDENCE_DIR=os.path.join(scratch, "ev"), FPV_WORKER=str(worker), FPV_EXTRACT_SLOTS=os.environ.get("FPV_EXTRACT_SLOTS", "8")))
            out = p.stdout
            fired = "VIOLATION property=%s" % pid in out
            rule_ok = True
            if m.get("expect"):
                rule_ok = any(x in out for x in ([m["expect"]] if isinstance(m["expect"], str) else m["expect"]))
            compile_fail = "fact extraction failed" in out
            res[pid] = dict(fired=fired, rule=rule_ok, rc=p.returncode, compile_fail=compile_fail,
                            lines=[l for l in out.split("\n") if "rule=" in l][:6])
        det = all(r["fired"] and r["rule"] for r in res.values())
        if m.get("negative"):
            anyf = any(r["fired"] for r in res.values())
            return dict(id=m["id"], status="FALSE-ALARM" if anyf else "silent-ok", res=res, negative=True)
        return dict(id=m["id"], status="detected" if det else ("compile_fail" if any(r["compile_fail"] for r in res.values()) else "MISSED"), res=res)
    finally:
        shutil.rmtree(scratch, ignore_errors=True)


def main():
    ap = argparse.ArgumentParser()
    ap.add_argument("--only")
    ap.add_argument("--id")
    ap.add_argument("-j", type=int, default=6)
    ap.add_argument("--json")
    ap.add_argument("--catalogue", default=os.path.join(VERIF, "selftest", "mutants.json"))
    a = ap.parse_args()
    with open(a.catalogue) as fh:
        cat = json.load(fh)["mutants"]
    if a.only:
        want = set(a.only.split(","))
        cat = [m for m in cat if want & set(m["properties"])]
    if a.id:
        want = set(a.id.split(","))
        cat = [m for m in cat if m["id"] in want]
    results = []
    with cf.ThreadPoolExecutor(max_workers=a.j) as ex:
        futs = {ex.submit(run_one, m, i % a.j): m for i, m in enumerate(cat)}
        for fu in cf.as_completed(futs):
            r = fu.result()
            results.append(r)
            extra = ""
            if r["status"] not in ("detected", "silent-ok"):
                extra = " " + json.dumps(r.get("res", r.get("why")))[:400]
            print("%-10s %s%s" % (r["status"], r["id"], extra), flush=True)
    det = sum(1 for r in results if r["status"] == "detected")
    pos = [r for r in results if r["status"] != "skipped" and not r.get("negative")]
    neg = [r for r in results if r.get("negative")]
    print("sensitivity: detected %d/%d (skipped %d); negative controls silent %d/%d" % (
        det, len(pos), len([r for r in results if r["status"] == "skipped"]), sum(1 for r in neg if r["status"] == "silent-ok"), len(neg)))
    if a.json:
        with open(a.json, "w") as fh:
            json.dump(results, fh, indent=1)


if __name__ == "__main__":
    main()
