#!/bin/bash
# usage: extract.sh <repo_dir> <out_dir> <target_dir> [dev|rel]
set -e
REPO=$1; OUT=$2; TGT=$3; CFG=${4:-dev}
mkdir -p "$OUT" "$TGT"
rm -f "$OUT"/*.json
SYSROOT=$(rustc +nightly --print sysroot)
EXTRA=""
if [ "$CFG" = "rel" ]; then EXTRA="-C overflow-checks=off -C debug-assertions=off"; fi
# force re-run of the wrapper for workspace members
rm -rf "$TGT"/debug/.fingerprint/fastpasta-* "$TGT"/debug/.fingerprint/alice_protocol_reader-* 2>/dev/null || true
cd "$REPO"
FPFACTS_OUT="$OUT" FPFACTS_NONCE="${FPFACTS_NONCE:-none}" CARGO_NET_OFFLINE=true \
LD_LIBRARY_PATH="$SYSROOT/lib" \
RUSTFLAGS="-Zmir-opt-level=0 -Zno-steal-thir -Awarnings $EXTRA" \
RUSTC_WORKSPACE_WRAPPER=/verif/driver/target/debug/fpfacts \
CARGO_TARGET_DIR="$TGT" cargo +nightly check --offline --workspace -q 2>&1
