import sys, struct
src=open('/repo/tests/test-data/10_rdh.raw','rb').read()
rdh=bytearray(src[:64])
# RDH v7: byte 8-9 offset_new_packet, 10-11 memory_size
N=int(sys.argv[1]); size=int(sys.argv[2])
struct.pack_into('<HH', rdh, 8, size, size)
blk=bytes(rdh)+bytes(size-64)
out=sys.stdout.buffer
chunk=blk*64
full, rem = divmod(N,64)
for _ in range(full): out.write(chunk)
out.write(blk*rem)
