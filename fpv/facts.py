"""Fact extraction (runs the rustc_private driver over /repo) and loading."""
import fcntl
import glob
import hashlib
import json
import os
import shutil
import subprocess
import sys
import time

VERIF = os.path.dirname(os.path.dirname(os.path.abspath(__file__)))
WORK = os.path.join(VERIF, ".work")
DRIVER = os.path.join(VERIF, "driver", "target", "debug", "fpfacts")
REPO = os.environ.get("FPV_REPO", "/repo")


def tree_hash(repo):
    h = hashlib.sha256()
    for root, dirs, files in os.walk(repo):
        dirs[:] = sorted(d for d in dirs if d not in ("target", ".git"))
        for f in sorted(files):
            p = os.path.join(root, f)
            if os.path.islink(p):
                continue
            rel = os.path.relpath(p, repo)
            # binary test data does not influence the analysed program
            if rel.startswith("tests/test-data") or rel.endswith(".raw"):
                continue
            h.update(rel.encode())
            h.update(b"\0")
            try:
                with open(p, "rb") as fh:
                    h.update(fh.read())
            except OSError:
                pass
            h.update(b"\0")
    # the driver itself is part of the key
    try:
        st = os.stat(DRIVER)
        h.update(("%d-%d" % (st.st_size, int(st.st_mtime))).encode())
    except OSError:
        pass
    return h.hexdigest()[:24]


def ensure_driver():
    if os.path.exists(DRIVER):
        return
    subprocess.run(["cargo", "build", "--offline", "-q"], cwd=os.path.join(VERIF, "driver"), check=True)


def extract(repo=REPO, cfg="dev", no_cache=False):
    """Return directory with fresh fact files for `repo` in configuration cfg."""
    ensure_driver()
    os.makedirs(WORK, exist_ok=True)
    key = tree_hash(repo)
    out = os.path.join(WORK, "facts", "%s-%s" % (key, cfg))
    os.makedirs(os.path.join(WORK, "facts"), exist_ok=True)
    # one extraction per (tree, configuration) at a time …
    lock = open(out + ".lock", "w")
    fcntl.flock(lock, fcntl.LOCK_EX)
    slot_lock = None
    try:
        if not no_cache and os.path.exists(os.path.join(out, "OK")):
            try:
                os.utime(out)       # recently used: not a candidate for pruning by a parallel run
            except OSError:
                pass
            return out, True
        if os.path.exists(out):
            shutil.rmtree(out)
        os.makedirs(out)
        # … and one cargo run per target directory at a time: slot 0 is the usual directory, further slots (used by the
        # self-test tools, FPV_EXTRACT_SLOTS > 1, to analyse many scratch copies in parallel) are warm copies of it
        nslots = max(1, int(os.environ.get("FPV_EXTRACT_SLOTS", "1")))
        tgt = None
        while tgt is None:
            for k_ in range(nslots):
                lk = open(os.path.join(WORK, "extract_%s_%d.lock" % (cfg, k_)), "w")
                try:
                    fcntl.flock(lk, fcntl.LOCK_EX | (fcntl.LOCK_NB if nslots > 1 else 0))
                except OSError:
                    lk.close()
                    continue
                slot_lock = lk
                base = os.path.join(WORK, "target_%s" % cfg)
                tgt = base + ("_s%d" % k_ if k_ else "")
                if k_ and not os.path.exists(tgt) and os.path.exists(base):
                    subprocess.run(["cp", "-a", base, tgt], check=False)
                break
            else:
                time.sleep(0.3)
        nonce = "%s-%d" % (key, int(time.time() * 1000))
        env = dict(os.environ)
        env["FPFACTS_NONCE"] = nonce
        t0 = time.time()
        p = subprocess.run([os.path.join(VERIF, "extract.sh"), repo, out, tgt, cfg], env=env,
                           stdout=subprocess.PIPE, stderr=subprocess.STDOUT, text=True)
        if p.returncode != 0:
            sys.stderr.write(p.stdout[-6000:])
            raise SystemExit("fact extraction failed (cargo check did not succeed on %s)" % repo)
        files = glob.glob(os.path.join(out, "*.json"))
        crates = set()
        for f in files:
            with open(f) as fh:
                head = fh.read(4096)
            if nonce not in head:
                raise SystemExit("stale fact file %s (nonce mismatch)" % f)
            crates.add(os.path.basename(f).rsplit("-", 1)[0])
        if crates != {"fastpasta", "alice_protocol_reader"} or len(files) < 3:
            raise SystemExit("fact files missing: got %s" % sorted(files))
        with open(os.path.join(out, "OK"), "w") as fh:
            fh.write("%s %.1fs\n" % (nonce, time.time() - t0))
        # prune old caches (keep the 6 most recent and whatever was extracted in the last 45 minutes: parallel runs over
        # many scratch copies would otherwise evict each other's facts between two checks of the same copy)
        def _mt(d):
            try:
                return os.path.getmtime(d)
            except OSError:
                return 0.0      # removed meanwhile by a parallel run's pruning
        try:
            alld = sorted((d for d in glob.glob(os.path.join(WORK, "facts", "*")) if os.path.isdir(d)), key=_mt)
            for d in alld[:-6]:
                if d != out and time.time() - _mt(d) > 45 * 60:
                    shutil.rmtree(d, ignore_errors=True)
        except OSError:
            pass
        return out, False
    finally:
        if slot_lock is not None:
            fcntl.flock(slot_lock, fcntl.LOCK_UN)
            slot_lock.close()
        fcntl.flock(lock, fcntl.LOCK_UN)
        lock.close()


class Facts:
    def __init__(self, directory, repo=REPO, cfg="dev"):
        self.dir = directory
        self.repo = repo
        self.cfg = cfg
        self.fns = {}
        self.consts = {}
        self.adts = {}
        self.impls = []
        self.traits = {}
        self.meta = []
        for f in sorted(glob.glob(os.path.join(directory, "*.json"))):
            with open(f) as fh:
                d = json.load(fh)
            self.meta.append({k: d[k] for k in ("crate", "crate_types", "endian", "overflow_checks", "debug_assertions", "pointer_bytes")})
            for k, v in d["fns"].items():
                v["path"] = k
                v["crate"] = d["crate"]
                self.fns[k] = v
            self.consts.update(d["consts"])
            self.adts.update(d["adts"])
            self.impls.extend(d["impls"])
            self.traits.update(d["traits"])
        self.endian = self.meta[0]["endian"] if self.meta else None
        self._src = {}

    # ---- source text (only for literal recovery / reporting) ----
    def src_lines(self, relfile):
        if relfile not in self._src:
            try:
                with open(os.path.join(self.repo, relfile), encoding="utf-8", errors="replace") as fh:
                    self._src[relfile] = fh.read().split("\n")
            except OSError:
                self._src[relfile] = []
        return self._src[relfile]

    def fn(self, path):
        return self.fns.get(path)

    def find_fns(self, suffix=None, contains=None, name=None):
        out = []
        for k, v in self.fns.items():
            if suffix and not k.endswith(suffix):
                continue
            if contains and contains not in k:
                continue
            if name and v.get("name") != name:
                continue
            out.append(k)
        return out

    def one_fn(self, suffix):
        c = [k for k in self.fns if k.endswith(suffix)]
        return c[0] if len(c) == 1 else None


def load(cfg="dev", repo=REPO, no_cache=False):
    d, cached = extract(repo, cfg, no_cache)
    f = Facts(d, repo, cfg)
    f.cached = cached
    return f


def where(span):
    if not span:
        return "?"
    return "%s:%s" % (span.get("f"), span.get("l"))
