"""Error-emission sites and format! call recovery (shared by C02, C07, C16, C04)."""
import re

from .mir import callee_of, origin_calls, show_origin, op_place

ERROR_ADTS = ("fastpasta::stats::StatType", "alice_protocol_reader::stats::InputStatType")
STR_LIT = re.compile(r'"((?:[^"\\]|\\.)*)"', re.S)
CODE = re.compile(r"\[E(\d{2,4})\]")


def macro_source(facts, sp):
    """source text of the macro invocation a span belongs to"""
    if not sp:
        return ""
    lines = facts.src_lines(sp["f"])
    l1, l2 = sp["l"], sp.get("l2", sp["l"])
    return "\n".join(lines[l1 - 1:l2])


def first_literal(text):
    m = STR_LIT.search(text)
    if not m:
        return None
    # string continuation: backslash-newline eats following whitespace
    return re.sub(r"\\\n\s*", "", m.group(1))


def format_sites(facts, body):
    """format_args! expansions in a body: list of dict(bb, template, args=[(kind, origin)], sp)"""
    out = []
    for bb, t, cal, c in body.calls():
        if not cal or not cal.startswith("core::fmt::Arguments::<'a>::new"):
            continue
        sp = t["sp"]
        src = macro_source(facts, sp)
        tmpl = first_literal(src)
        args = []
        if len(t["args"]) > 1:
            o = body.origin(t["args"][1])
            # &[Argument; N] → agg array of calls Argument::new_*(&x)
            arr = o
            while isinstance(arr, tuple) and arr and arr[0] == "ref":
                arr = arr[1]
            if isinstance(arr, tuple) and arr and arr[0] == "agg":
                for a in arr[2]:
                    if a[0] == "call" and a[1] and a[1].startswith("core::fmt::rt::Argument::<'_>::new_"):
                        kind = a[1].rsplit("new_", 1)[1]
                        x = a[2][0]
                        while isinstance(x, tuple) and x and x[0] == "ref":
                            x = x[1]
                        args.append((kind, x))
                    else:
                        args.append(("?", a))
        out.append({"bb": bb, "template": tmpl, "args": args, "sp": sp, "mac": sp.get("mac", [])})
    return out


def error_sites(facts, cg, within):
    """constructions of StatType::Error/Fatal and InputStatType::Error/Fatal:
    list of dict(fn, bb, adt, variant, payload_origin, sp)"""
    out = []
    for path in sorted(within):
        fn = facts.fns.get(path)
        if not fn or not fn.get("mir") or fn.get("derived"):
            continue
        b = cg.body(path)
        for i, j, s in b.stmts():
            if s["k"] == "assign" and s["rv"]["k"] == "agg" and s["rv"].get("adt") in ERROR_ADTS and s["rv"].get("vname") in ("Error", "Fatal"):
                out.append({"fn": path, "bb": i, "adt": s["rv"]["adt"], "variant": s["rv"]["vname"],
                            "payload": b.origin(s["rv"]["ops"][0]), "sp": s["sp"], "body": b})
    return out


_CONV = ("::into", "::from", "::to_string", "::to_owned", "::into_boxed_str", "::as_str", "::as_ref", "::clone", "::borrow", "::deref", "::into_string")


def handed_in_param(o):
    """index of the parameter when the origin is a message handed in by the caller as it is (`msg`, `&msg`, `msg.into()`,
    `msg.to_string()` …), else None.  A projection out of a parameter (the payload of a matched enum) is not one."""
    while isinstance(o, tuple) and o:
        if o[0] == "ref":
            o = o[1]
        elif o[0] == "call" and o[1] and o[1].endswith(_CONV) and len(o[2]) == 1:
            o = o[2][0]
        else:
            break
    if isinstance(o, tuple) and o and o[0] == "param" and all(x == "*" for x in o[2]):
        return o[1]
    return None


def message_sites(facts, cg, within, depth=3):
    """error_sites, where a site inside a reporting helper that merely wraps the message its caller hands in is
    replaced by the helper's call sites (the payload is then the caller's argument) — so the rules speak about where the
    message is built, however many helpers pass it on"""
    out = []
    todo = [(s, depth) for s in error_sites(facts, cg, within)]
    while todo:
        s, d = todo.pop(0)
        idx = handed_in_param(s["payload"])
        if idx is None or d == 0 or "{closure" in s["fn"]:
            out.append(s)
            continue
        callers = [(p, bb, t) for p, bb, t, cal, c in cg.call_sites(lambda c_: c_ == s["fn"], within=within)]
        if not callers:
            out.append(s)
            continue
        for p, bb, t in callers:
            b = cg.body(p)
            if idx - 1 >= len(t["args"]):
                out.append(s)
                continue
            todo.append(({"fn": p, "bb": bb, "adt": s["adt"], "variant": s["variant"], "payload": b.origin(t["args"][idx - 1]),
                          "sp": t.get("sp") or s["sp"], "body": b, "via": s.get("via", []) + [s["fn"]]}, d - 1))
    return out


def site_format(facts, site):
    """the format! that builds the payload of an emission site, if any"""
    b = site["body"]
    fm = [c for c in origin_calls(site["payload"]) if c[1] and c[1].startswith("core::fmt::Arguments::<'a>::new")]
    if not fm:
        return None
    outer = fm[0][3]  # origin_calls is pre-order: the first Arguments::new is the outermost format
    for fs in format_sites(facts, b):
        if fs["bb"] == outer:
            return fs
    return None


def codes_in(text):
    return ["E" + m for m in CODE.findall(text or "")]


def all_code_literals(facts, within):
    """every string literal / format template containing an [Ennn] code in the given functions:
    list of (code, fn, where)"""
    out = []
    for path in sorted(within):
        fn = facts.fns.get(path)
        if not fn or not fn.get("thir"):
            continue
        t = fn["thir"]
        seen_lines = set()
        for n in t["exprs"]:
            s = n.get("str")
            if s:
                # a template containing [Ennn], or a bare code literal handed to a reporting helper ("E101")
                for c in codes_in(s) + ([s] if re.fullmatch(r"E\d{2,4}", s) else []):
                    out.append((c, path, "%s:%s" % (n["sp"]["f"], n["sp"]["l"])))
            sp = n.get("sp")
            if sp and sp.get("mac") and any(m.startswith(("format!", "write!", "writeln!", "$crate::__export::format_args!", "format_args!")) for m in sp["mac"]):
                key = (sp["f"], sp["l"], sp.get("l2"))
                if key in seen_lines:
                    continue
                seen_lines.add(key)
                lit = first_literal(macro_source(facts, sp))
                for c in codes_in(lit):
                    out.append((c, path, "%s:%s" % (sp["f"], sp["l"])))
    # dedupe
    res = []
    seen = set()
    for x in out:
        if x not in seen:
            seen.add(x)
            res.append(x)
    return res
