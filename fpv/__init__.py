"""fpv — static rule library for the fastPASTA verification checks."""
