"""MIR CFG utilities: successors, dominators, must-pass-through, def-use,
operand provenance.  Paths ignore unwind/cleanup edges (DESIGN §8a)."""
import re
from functools import lru_cache


def place_str(p):
    s = "_%d" % p["l"]
    for e in p.get("p", []):
        if e == "*":
            s = "(*%s)" % s
        elif e[0] == "f":
            s += ".%s" % (e[2] if len(e) > 2 and e[2] is not None else e[1])
        elif e[0] == "dc":
            s += "@%s" % (e[2] if len(e) > 2 and e[2] is not None else e[1])
        elif e[0] == "i":
            s += "[_%d]" % e[1]
        elif e[0] == "ci":
            s += "[%s%d]" % ("-" if e[3] else "", e[1])
        elif e[0] == "ss":
            s += "[%d..%s%d]" % (e[1], "-" if e[3] else "", e[2])
        else:
            s += "?"
    return s


def op_place(o):
    """place of a copy/move operand or None"""
    if "cp" in o:
        return o["cp"]
    if "mv" in o:
        return o["mv"]
    return None


def op_const(o):
    return o.get("c")


def callee_of(term):
    """(path, constinfo) of a call terminator's callee; resolved instance preferred."""
    f = term["f"]
    c = f.get("c")
    if not c or "fn" not in c:
        return None, c
    return c.get("res") or c["fn"], c


class Body:
    def __init__(self, fn):
        self.fn = fn
        self.path = fn["path"]
        m = fn.get("mir")
        self.ok = bool(m)
        if not m:
            self.blocks = []
            self.locals = []
            self.argc = 0
            self.names = {}
            return
        self.blocks = m["blocks"]
        self.locals = m["locals"]
        self.argc = m["argc"]
        # user names
        self.names = {}
        for d in m["dbg"]:
            v = d.get("v")
            if isinstance(v, dict) and "l" in v and not v.get("p"):
                self.names.setdefault(v["l"], d["name"])
        self._succ = None
        self._pred = None
        self._dom = None
        self._defs = None

    # ---------- CFG ----------
    def term_succs(self, t):
        k = t["k"]
        if k == "goto":
            return [t["t"]]
        if k == "switch":
            c = t["d"].get("c") if isinstance(t["d"], dict) else None
            if c is None:
                # one step of constant propagation: `_3 = const false; switchInt(move _3)` (cfg!(debug_assertions))
                pl = op_place(t["d"])
                if pl is not None and not pl.get("p"):
                    sd = self.single_def(pl["l"])
                    if sd and sd[2] == "assign" and sd[3]["rv"]["k"] == "use":
                        c = sd[3]["rv"]["op"].get("c")
            if c is not None and "int" in c:
                # constant discriminant (e.g. `if cfg!(debug_assertions)`): only the matching edge exists
                for v in t["vals"]:
                    if v[0] == c["int"]:
                        return [v[1]]
                return [t["else"]]
            return [v[1] for v in t["vals"]] + [t["else"]]
        if k in ("drop", "assert"):
            return [t["t"]]
        if k == "call":
            return [t["t"]] if t.get("t") is not None else []
        return []

    @property
    def succ(self):
        if self._succ is None:
            self._succ = []
            for b in self.blocks:
                if b.get("cleanup"):
                    self._succ.append([])
                else:
                    ss = []
                    for s in self.term_succs(b["t"]):
                        if s not in ss:
                            ss.append(s)
                    self._succ.append(ss)
        return self._succ

    @property
    def pred(self):
        if self._pred is None:
            self._pred = [[] for _ in self.blocks]
            for i, ss in enumerate(self.succ):
                for s in ss:
                    self._pred[s].append(i)
        return self._pred

    def reachable_from(self, start, removed=()):
        removed = set(removed)
        seen = set()
        st = [start] if start not in removed else []
        while st:
            b = st.pop()
            if b in seen:
                continue
            seen.add(b)
            for s in self.succ[b]:
                if s not in removed and s not in seen:
                    st.append(s)
        return seen

    def live_blocks(self):
        return self.reachable_from(0)

    def return_blocks(self):
        return [i for i in self.live_blocks() if self.blocks[i]["t"]["k"] == "ret"]

    def is_diverging_block(self, i):
        """block ends in a call without target (panic etc) or unreachable"""
        t = self.blocks[i]["t"]
        return (t["k"] == "call" and t.get("t") is None) or t["k"] in ("unreach", "resume", "abort")

    def all_paths_pass(self, start, through, to=None):
        """True iff every path from block `start` to a normal exit (or to any
        block in `to`) passes through a block in `through`."""
        through = set(through)
        if start in through:
            return True
        reach = self.reachable_from(start, removed=through)
        targets = set(to) if to is not None else set(self.return_blocks())
        return not (reach & targets)

    def dominators(self):
        if self._dom is None:
            live = sorted(self.live_blocks())
            dom = {b: set(live) for b in live}
            dom[0] = {0}
            changed = True
            # reverse postorder approx: iterate until fixpoint
            while changed:
                changed = False
                for b in live:
                    if b == 0:
                        continue
                    ps = [p for p in self.pred[b] if p in dom]
                    if not ps:
                        continue
                    new = set.intersection(*(dom[p] for p in ps)) | {b}
                    if new != dom[b]:
                        dom[b] = new
                        changed = True
            self._dom = dom
        return self._dom

    def dominates(self, a, b):
        return a in self.dominators().get(b, set())

    def on_cycle(self, b):
        """is block b on a CFG cycle"""
        seen = set()
        st = list(self.succ[b])
        while st:
            x = st.pop()
            if x == b:
                return True
            if x in seen:
                continue
            seen.add(x)
            st.extend(self.succ[x])
        return False

    # ---------- iteration ----------
    def calls(self, live_only=True):
        """yield (bb, term, callee_path, constinfo) for each call terminator"""
        live = self.live_blocks() if live_only else range(len(self.blocks))
        for i in sorted(live):
            t = self.blocks[i]["t"]
            if t and t["k"] in ("call", "tailcall"):
                p, c = callee_of(t)
                yield i, t, p, c

    def stmts(self, live_only=True):
        live = self.live_blocks() if live_only else range(len(self.blocks))
        for i in sorted(live):
            for j, s in enumerate(self.blocks[i]["s"]):
                yield i, j, s

    def local_ty(self, l):
        return self.locals[l]["ty"]

    # ---------- def-use ----------
    @property
    def defs(self):
        """local -> list of (bb, idx, kind, node); kind in assign/call; idx=-1 for terminator"""
        if self._defs is None:
            d = {}
            for i, b in enumerate(self.blocks):
                if b.get("cleanup"):
                    continue
                for j, s in enumerate(b["s"]):
                    if s["k"] == "assign":
                        d.setdefault(s["lhs"]["l"], []).append((i, j, "assign", s))
                t = b["t"]
                if t and t["k"] == "call":
                    d.setdefault(t["dest"]["l"], []).append((i, -1, "call", t))
            self._defs = d
        return self._defs

    def single_def(self, l):
        ds = [x for x in self.defs.get(l, []) if not x[3].get("lhs", x[3].get("dest", {})).get("p")]
        if len(ds) == 1:
            return ds[0]
        return None

    def origin(self, operand, depth=0, inline=None):
        """Provenance tree of an operand (DESIGN §8a).  Returns a tuple tree:
        ('param', idx, proj) | ('const', constinfo) | ('call', callee, [origins], bb)
        | ('bin', op, a, b) | ('un', op, a) | ('cast', a, ty) | ('ref', origin)
        | ('agg', info, [origins]) | ('local', l, proj) (ambiguous / multi-def)
        | ('disc', origin)"""
        if depth > 40:
            return ("deep",)
        c = operand.get("c") if isinstance(operand, dict) else None
        if c is not None:
            return ("const", c)
        p = op_place(operand) if isinstance(operand, dict) and ("cp" in operand or "mv" in operand) else operand
        if p is None:
            return ("unknown",)
        return self.place_origin(p, depth)

    def origins(self, operand, depth=0):
        """like origin(), but a multiply-assigned local is expanded into the list of
        origins of all its definitions (one level of reaching definitions)"""
        o = self.origin(operand)
        if o and o[0] == "local" and not o[2] and depth < 4:
            out = []
            for bb, idx, kind, node in self.defs.get(o[1], []):
                if node.get("lhs", node.get("dest", {})).get("p"):
                    continue
                if kind == "call":
                    callee, cinfo = callee_of(node)
                    out.append(("call", callee, [self.origin(a) for a in node["args"]], bb, cinfo))
                elif node["rv"]["k"] == "use":
                    out.extend(self.origins(node["rv"]["op"], depth + 1))
                elif node["rv"]["k"] == "bin":
                    out.append(("bin", node["rv"]["op"], self.origin(node["rv"]["a"], depth + 1), self.origin(node["rv"]["b"], depth + 1)))
                elif node["rv"]["k"] == "cast":
                    out.extend(self.origins(node["rv"]["op"], depth + 1))
                else:
                    out.append(("rv", node["rv"]["k"]))
            return out or [o]
        if o and o[0] == "local" and len(o[2]) == 1 and re.fullmatch(r"\.\d+", str(o[2][0])) and depth < 4:
            # one field of a tuple / struct local that is assigned as a whole in several places (`let (a, b) = if … { (1, 2) } else { (3, 4) }`)
            n_ = int(o[2][0][1:])
            out = []
            for bb, idx, kind, node in self.defs.get(o[1], []):
                if kind != "assign" or node.get("lhs", {}).get("p") or node["rv"]["k"] != "agg" or n_ >= len(node["rv"].get("ops", [])):
                    return [o]
                out.extend(self.origins(node["rv"]["ops"][n_], depth + 1))
            return out or [o]
        return [o]

    def _const_index(self, proj):
        """replace Index(local) by a constant index when the local is a single constant"""
        out = []
        for e in proj:
            if isinstance(e, list) and e[0] == "i":
                sd = self.single_def(e[1])
                if sd and sd[2] == "assign" and sd[3]["rv"]["k"] == "use":
                    c = sd[3]["rv"]["op"].get("c")
                    if c and "int" in c:
                        out.append(["ci", c["int"], 0, False])
                        continue
            out.append(e)
        return out

    def source_calls(self, operand, depth=0, seen=None):
        """callee paths anywhere in the provenance of an operand, expanding
        multiply-assigned locals through all their definitions (projections ignored)"""
        if seen is None:
            seen = set()
        out = set()
        o = self.origin(operand) if isinstance(operand, dict) else operand
        for c in origin_calls(o):
            if c[1]:
                out.add(c[1])
        if depth < 5:
            for leaf in origin_leaves(o):
                if leaf[0] == "local" and leaf[1] not in seen:
                    seen.add(leaf[1])
                    for bb, idx, kind, node in self.defs.get(leaf[1], []):
                        if kind == "call":
                            cal, _ = callee_of(node)
                            if cal:
                                out.add(cal)
                            for a in node["args"]:
                                out |= self.source_calls(a, depth + 1, seen)
                        else:
                            for op in _operands_of_rv(node["rv"]):
                                out |= self.source_calls(op, depth + 1, seen)
                            if node["rv"]["k"] in ("ref", "disc") or (node["rv"]["k"] == "use"):
                                pl = node["rv"].get("pl")
                                if pl is not None:
                                    out |= self.source_calls({"cp": pl}, depth + 1, seen)
        return out

    def place_origin(self, p, depth=0):
        l = p["l"]
        proj = self._const_index(p.get("p", []))
        if 1 <= l <= self.argc:
            return ("param", l, _projkey(proj))
        sd = self.single_def(l)
        if sd is None:
            return ("local", l, _projkey(proj), self.names.get(l))
        bb, idx, kind, node = sd
        if kind == "call":
            callee, cinfo = callee_of(node)
            base = ("call", callee, [self.origin(a, depth + 1) for a in node["args"]], bb, cinfo)
        else:
            rv = node["rv"]
            k = rv["k"]
            if k == "use":
                base = self.origin(rv["op"], depth + 1)
            elif k == "ref" or k == "rawptr":
                inner = self.place_origin(rv["pl"], depth + 1)
                # reborrow &*p ≡ p
                if inner[0] in ("param", "local") and inner[2] and inner[2][-1] == "*":
                    base = (inner[0], inner[1], tuple(inner[2][:-1])) + tuple(inner[3:])
                else:
                    base = ("ref", inner)
            elif k == "bin":
                base = ("bin", rv["op"], self.origin(rv["a"], depth + 1), self.origin(rv["b"], depth + 1))
            elif k == "un":
                base = ("un", rv["op"], self.origin(rv["a"], depth + 1))
            elif k == "cast":
                base = ("cast", self.origin(rv["op"], depth + 1), rv["ty"], rv.get("ck"))
            elif k == "agg":
                base = ("agg", {x: rv.get(x) for x in ("ak", "adt", "vname", "var", "closure", "fnames")},
                        [self.origin(o, depth + 1) for o in rv["ops"]])
            elif k == "disc":
                base = ("disc", self.place_origin(rv["pl"], depth + 1))
            elif k == "repeat":
                base = ("repeat", self.origin(rv["op"], depth + 1), rv.get("n"))
            else:
                base = ("rv", k)
        if proj:
            return _project(base, proj)
        return base


def _projkey(proj):
    out = []
    for e in proj:
        if e == "*":
            out.append("*")
        elif e[0] == "f":
            out.append(".%s" % (e[2] if len(e) > 2 and e[2] is not None else e[1]))
        elif e[0] == "dc":
            out.append("@%s" % (e[2] if len(e) > 2 and e[2] is not None else e[1]))
        elif e[0] == "i":
            out.append("[i]")
        elif e[0] == "ci":
            out.append("[%s%d]" % ("-" if e[3] else "", e[1]))
        else:
            out.append(str(e[0]))
    return tuple(out)


def _project(base, proj):
    """apply projections to an origin tree"""
    pk = _projkey(proj)
    cur = base
    rest = list(pk)
    while rest:
        e = rest[0]
        if e == "*" and cur[0] == "ref":
            cur = cur[1]
            rest.pop(0)
            continue
        if e.startswith(".") and cur[0] == "agg":
            info, ops = cur[1], cur[2]
            name = e[1:]
            idx = None
            if info.get("fnames") and name in info["fnames"]:
                idx = info["fnames"].index(name)
            elif name.isdigit():
                idx = int(name)
            if idx is not None and idx < len(ops):
                cur = ops[idx]
                rest.pop(0)
                continue
        if cur[0] == "param":
            return ("param", cur[1], tuple(cur[2]) + tuple(rest))
        if cur[0] == "local":
            return ("local", cur[1], tuple(cur[2]) + tuple(rest), cur[3])
        return ("proj", cur, tuple(rest))
    return cur


def origin_calls(o, acc=None):
    """all ('call', ...) nodes inside an origin tree"""
    if acc is None:
        acc = []
    if not isinstance(o, tuple):
        return acc
    if o and o[0] == "call":
        acc.append(o)
        for a in o[2]:
            origin_calls(a, acc)
    else:
        for x in o[1:]:
            if isinstance(x, tuple):
                origin_calls(x, acc)
            elif isinstance(x, list):
                for y in x:
                    origin_calls(y, acc)
    return acc


def origin_leaves(o, acc=None):
    if acc is None:
        acc = []
    if not isinstance(o, tuple) or not o:
        return acc
    if o[0] in ("param", "const", "local", "unknown", "rv", "deep"):
        acc.append(o)
        return acc
    for x in o[1:]:
        if isinstance(x, tuple):
            origin_leaves(x, acc)
        elif isinstance(x, list):
            for y in x:
                origin_leaves(y, acc)
    return acc


def show_origin(o, depth=0):
    if not isinstance(o, tuple) or not o:
        return str(o)
    k = o[0]
    if k == "param":
        return "arg%d%s" % (o[1], "".join(o[2]))
    if k == "const":
        c = o[1]
        if "int" in c:
            return hex(c["int"])
        if "fn" in c:
            return "fn " + c["fn"]
        if "str" in c:
            return repr(c["str"])
        return "const<%s>" % c.get("ty")
    if k == "call":
        return "%s(%s)" % (short(o[1]), ", ".join(show_origin(a, depth + 1) for a in o[2]))
    if k == "bin":
        return "(%s %s %s)" % (show_origin(o[2]), o[1], show_origin(o[3]))
    if k == "un":
        return "%s(%s)" % (o[1], show_origin(o[2]))
    if k == "cast":
        return "(%s as %s)" % (show_origin(o[1]), o[2])
    if k == "ref":
        return "&" + show_origin(o[1])
    if k == "agg":
        return "%s{%s}" % (o[1].get("adt") or o[1].get("ak"), ", ".join(show_origin(a) for a in o[2]))
    if k == "local":
        return "%s%s" % (o[3] or "_%d" % o[1], "".join(o[2]))
    if k == "proj":
        return "%s%s" % (show_origin(o[1]), "".join(o[2]))
    if k == "disc":
        return "discr(%s)" % show_origin(o[1])
    return str(o)


def short(path):
    if not path:
        return "?"
    # strip generic noise and leading module path
    p = path
    if p.startswith("<") and " as " in p:
        return p
    parts = p.split("::")
    return "::".join(parts[-2:]) if len(parts) > 2 else p


# ---------------------------------------------------------------- maybe-initialised places
def _operands_of_rv(rv):
    k = rv["k"]
    if k in ("use", "cast", "repeat"):
        return [rv["op"]]
    if k == "bin":
        return [rv["a"], rv["b"]]
    if k == "un":
        return [rv["a"]]
    if k == "agg":
        return rv["ops"]
    return []


def _first_field(place):
    for e in place.get("p", []):
        if e == "*":
            return "deref"
        if isinstance(e, list) and e[0] == "f":
            return e[1]
        if isinstance(e, list) and e[0] == "dc":
            continue
        return "other"
    return None


def maybe_init(body):
    """Forward may-analysis (DESIGN §8a): per block IN state mapping
    local -> frozenset(moved-out first-level fields).  A local absent from the
    state is definitely uninitialised/moved.  Returns (IN, step) where
    step(state, block_index, upto_terminator=True) gives the state before the terminator."""
    nb = len(body.blocks)

    def kill_move(state, place):
        l = place["l"]
        if l not in state:
            return
        ff = _first_field(place)
        if ff is None:
            del state[l]
        elif ff == "deref" or ff == "other":
            return  # moving out through a reference / index does not uninitialise the local
        else:
            state[l] = state[l] | {ff}

    def use_operand(state, o):
        if isinstance(o, dict) and "mv" in o:
            kill_move(state, o["mv"])

    def transfer(state, i, include_term=True):
        state = dict(state)
        b = body.blocks[i]
        for s in b["s"]:
            k = s["k"]
            if k == "assign":
                for o in _operands_of_rv(s["rv"]):
                    use_operand(state, o)
                lhs = s["lhs"]
                ff = _first_field(lhs)
                if ff is None:
                    state[lhs["l"]] = frozenset()
                elif ff not in ("deref", "other") and lhs["l"] in state:
                    state[lhs["l"]] = state[lhs["l"]] - {ff}
                elif ff not in ("deref", "other"):
                    pass
            elif k == "dead":
                state.pop(s["l"], None)
        pre_term = dict(state)
        t = b["t"]
        if t:
            if t["k"] == "call":
                for a in t["args"]:
                    use_operand(state, a)
                pre_term_after_args = dict(state)
                d = t["dest"]
                if _first_field(d) is None:
                    state[d["l"]] = frozenset()
                return (state, pre_term_after_args)
            if t["k"] == "drop":
                kill_move(state, t["pl"])
            if t["k"] == "switch":
                use_operand(state, t["d"])
        return (state, pre_term)

    IN = [None] * nb
    init = {l: frozenset() for l in range(1, body.argc + 1)}
    IN[0] = init
    work = [0]
    while work:
        i = work.pop()
        out, _ = transfer(IN[i], i)
        for s in body.succ[i]:
            if IN[s] is None:
                IN[s] = dict(out)
                work.append(s)
            else:
                merged = dict(IN[s])
                changed = False
                for l, mv in out.items():
                    if l not in merged:
                        merged[l] = mv
                        changed = True
                    else:
                        m2 = merged[l] & mv
                        if m2 != merged[l]:
                            merged[l] = m2
                            changed = True
                if changed:
                    IN[s] = merged
                    work.append(s)

    def at_call(i):
        """state just before the call terminator of block i executes (its own moved args already consumed)"""
        if IN[i] is None:
            return {}
        return transfer(IN[i], i)[1]

    return IN, at_call


def split_tuple_type(s):
    """top-level components of a tuple type string"""
    s = s.strip()
    if not (s.startswith("(") and s.endswith(")")):
        return None
    inner = s[1:-1]
    parts, depth, cur = [], 0, ""
    for ch in inner:
        if ch in "<([":
            depth += 1
        elif ch in ">)]":
            depth -= 1
        if ch == "," and depth == 0:
            parts.append(cur.strip())
            cur = ""
        else:
            cur += ch
    if cur.strip():
        parts.append(cur.strip())
    return parts


# ---------------------------------------------------------------- inlining of local helper functions
def _renumber(x, lbase, bmap):
    """deep copy of a MIR JSON fragment with locals shifted by lbase (block ids are remapped by the caller)"""
    if isinstance(x, dict):
        d = {k: _renumber(v, lbase, bmap) for k, v in x.items()}
        if isinstance(x.get("l"), int) and "f" not in x:  # a place / storage statement, not a span
            d["l"] = x["l"] + lbase
        return d
    if isinstance(x, list):
        if len(x) >= 2 and x[0] == "i" and isinstance(x[1], int):
            return ["i", x[1] + lbase] + [_renumber(e, lbase, bmap) for e in x[2:]]
        return [_renumber(e, lbase, bmap) for e in x]
    return x


def _retarget(t, bmap):
    k = t["k"]
    if k == "goto":
        t["t"] = bmap(t["t"])
    elif k == "switch":
        t["vals"] = [[v[0], bmap(v[1])] for v in t["vals"]]
        t["else"] = bmap(t["else"])
    elif k in ("drop", "assert", "call"):
        if t.get("t") is not None:
            t["t"] = bmap(t["t"])
        if isinstance(t.get("uw"), int):
            t["uw"] = bmap(t["uw"])
    return t


def inline_fn(facts, path, should_inline, max_depth=3, max_blocks=400):
    """A copy of the function `path` in which calls to local helper functions chosen by
    `should_inline(callee_path)` are replaced by the helper's body (arguments become
    assignments to the helper's parameter locals, `return` becomes an assignment to the
    call's destination followed by a jump to the call's target).  Path rules evaluated on
    the result do not depend on how the code is split into helper functions."""
    import copy
    fn = facts.fns[path]
    m = copy.deepcopy(fn["mir"])
    inlined = []
    depth_of = {i: 0 for i in range(len(m["blocks"]))}
    stack_of = {i: (path,) for i in range(len(m["blocks"]))}
    work = list(range(len(m["blocks"])))
    while work:
        bi = work.pop(0)
        blk = m["blocks"][bi]
        t = blk["t"]
        if t["k"] != "call" or blk.get("cleanup"):
            continue
        callee, c = callee_of(t)
        if not callee or callee not in facts.fns or not facts.fns[callee].get("mir"):
            continue
        if c.get("res_kind") not in (None, "item") and not c.get("res"):
            continue
        if callee in stack_of[bi] or depth_of[bi] >= max_depth or not should_inline(callee):
            continue
        cm = facts.fns[callee]["mir"]
        if len(m["blocks"]) + len(cm["blocks"]) > max_blocks or t.get("t") is None:
            continue
        lbase, bbase = len(m["locals"]), len(m["blocks"])
        m["locals"].extend(copy.deepcopy(cm["locals"]))
        for d in cm["dbg"]:
            v = d.get("v")
            if isinstance(v, dict) and "l" in v:
                m["dbg"].append({"name": d["name"], "v": _renumber(v, lbase, None)})
        ret_target = t["t"]
        dest = t["dest"]
        sp = t.get("sp")
        # parameters
        entry = []
        for i, a in enumerate(t["args"]):
            entry.append({"k": "assign", "lhs": {"l": lbase + 1 + i}, "rv": {"k": "use", "op": a}, "sp": sp})
        for ci, cb in enumerate(cm["blocks"]):
            nb = _renumber(cb, lbase, None)
            nt = nb["t"]
            if nt["k"] == "ret":
                nb["s"] = nb["s"] + [{"k": "assign", "lhs": dest, "rv": {"k": "use", "op": {"mv": {"l": lbase}}}, "sp": sp}]
                nb["t"] = {"k": "goto", "t": ret_target}
            else:
                _retarget(nt, lambda x: x + bbase)
            m["blocks"].append(nb)
            depth_of[bbase + ci] = depth_of[bi] + 1
            stack_of[bbase + ci] = stack_of[bi] + (callee,)
            work.append(bbase + ci)
        blk["s"] = blk["s"] + entry
        blk["t"] = {"k": "goto", "t": bbase, "inlined_call": callee, "sp": sp}
        inlined.append(callee)
    out = dict(fn)
    out["mir"] = m
    out["inlined"] = inlined
    return out


def path_count_range(b, start, targets, sites, dropped_edges=()):
    """(min, max) number of blocks from `sites` visited on acyclic paths from `start` to any block in
    `targets`; edges in dropped_edges (pairs) are ignored.  None if no path exists."""
    sites, targets, dropped = set(sites), set(targets), set(dropped_edges)
    best = {}
    import sys
    sys.setrecursionlimit(10000)

    def go(x, onpath):
        if x in targets:
            c = 1 if x in sites else 0
            return (c, c)
        if x in best and not (onpath & best[x][2]):
            return best[x][:2]
        lo = hi = None
        for s in b.succ[x]:
            if (x, s) in dropped or s in onpath:
                continue
            r = go(s, onpath | {s})
            if r is None:
                continue
            lo = r[0] if lo is None else min(lo, r[0])
            hi = r[1] if hi is None else max(hi, r[1])
        if lo is None:
            return None
        c = 1 if x in sites else 0
        res = (lo + c, hi + c)
        best[x] = (res[0], res[1], frozenset())
        return res

    return go(start, frozenset([start]))
