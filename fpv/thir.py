"""THIR helpers and the predicate normal-form evaluator (DESIGN §1.2 `bits`).

Values are abstract: every bit of an integer is 0, 1, a copy of an input bit
(root, index) or unknown.  Nothing is executed on concrete inputs: the
evaluator folds literal masks/shifts/casts, little-endian reads and inlined
accessor calls over the typed syntax tree, and compares normal forms."""

INT_W = {"u8": 8, "u16": 16, "u32": 32, "u64": 64, "u128": 128, "usize": 64,
         "i8": 8, "i16": 16, "i32": 32, "i64": 64, "i128": 128, "isize": 64, "bool": 1}


class TB:
    """THIR body wrapper"""

    def __init__(self, fn, path=None):
        self.fn = fn
        self.path = path or fn.get("path")
        t = fn.get("thir")
        self.ok = bool(t)
        if not t:
            return
        self.exprs = t["exprs"]
        self.arms = t["arms"]
        self.blocks = t["blocks"]
        self.stmts = t["stmts"]
        self.params = t["params"]
        self.root = t["root"]

    def e(self, i):
        """expression node with transparent wrappers peeled"""
        n = self.exprs[i]
        while n["k"] in ("Scope", "Use", "NeverToAny") or (n["k"] == "PtrCoerce"):
            i = n["e"]
            n = self.exprs[i]
        return i, n

    def node(self, i):
        return self.e(i)[1]

    def children(self, i):
        n = self.exprs[i]
        out = []
        for k in ("e", "cond", "then", "else", "fun", "l", "r", "scrut", "i", "base"):
            v = n.get(k)
            if isinstance(v, int) and not isinstance(v, bool):
                out.append(v)
        for k in ("args", "es", "upvars"):
            out.extend(n.get(k, []))
        if n["k"] == "Adt":
            out.extend(f["e"] for f in n.get("fields", []))
        if n["k"] == "Match":
            for a in n["arms"]:
                arm = self.arms[a]
                if arm.get("guard") is not None:
                    out.append(arm["guard"])
                out.append(arm["body"])
        if n["k"] == "Block":
            b = self.blocks[n["b"]]
            for s in b["stmts"]:
                st = self.stmts[s]
                if st["k"] == "expr":
                    out.append(st["e"])
                else:
                    if st.get("init") is not None:
                        out.append(st["init"])
                    if st.get("else") is not None:
                        eb = self.blocks[st["else"]]
                        for s2 in eb["stmts"]:
                            st2 = self.stmts[s2]
                            if st2["k"] == "expr":
                                out.append(st2["e"])
                            elif st2.get("init") is not None:
                                out.append(st2["init"])
                        if eb.get("expr") is not None:
                            out.append(eb["expr"])
            if b.get("expr") is not None:
                out.append(b["expr"])
        return out

    def walk(self, i=None):
        """pre-order over all expression ids under i"""
        st = [self.root if i is None else i]
        while st:
            x = st.pop()
            yield x, self.exprs[x]
            st.extend(reversed(self.children(x)))

    def calls(self, i=None):
        for x, n in self.walk(i):
            if n["k"] == "Call" and n.get("fn"):
                yield x, n

    def all_arm_patterns(self):
        return [a["pat"] for a in self.arms]


# ---------------------------------------------------------------- values
class Xb:
    """one bit that is the exclusive-or of two input bits (`a ^ b`, the usual way to write "differs in")"""
    __slots__ = ("a", "b")

    def __init__(self, a, b):
        self.a, self.b = (a, b) if a <= b else (b, a)

    def __eq__(self, o):
        return isinstance(o, Xb) and (self.a, self.b) == (o.a, o.b)

    def __hash__(self):
        return hash(("xb", self.a, self.b))

    def __repr__(self):
        return "%s[%d]^%s[%d]" % (self.a[0], self.a[1], self.b[0], self.b[1])


class Bits:
    __slots__ = ("w", "b")

    def __init__(self, w, b):
        self.w = w
        self.b = tuple(b)
        assert len(self.b) == w, (w, len(self.b))

    @staticmethod
    def const(v, w):
        return Bits(w, [(v >> i) & 1 for i in range(w)])

    @staticmethod
    def inp(root, lo, w):
        return Bits(w, [(root, lo + i) for i in range(w)])

    def is_const(self):
        return all(x in (0, 1) for x in self.b)

    def value(self):
        return sum((1 << i) for i, x in enumerate(self.b) if x == 1)

    def resize(self, w):
        if w <= self.w:
            return Bits(w, self.b[:w])
        return Bits(w, self.b + (0,) * (w - self.w))

    def key(self):
        """canonical printable form: list of (pos, source) for non-zero bits"""
        parts = []
        i = 0
        n = self.w
        while i < n:
            x = self.b[i]
            if x == 0:
                i += 1
                continue
            if x == 1:
                parts.append("b%d=1" % i)
                i += 1
                continue
            if x is None:
                parts.append("b%d=?" % i)
                i += 1
                continue
            if isinstance(x, Xb):
                parts.append("b%d=%r" % (i, x))
                i += 1
                continue
            root, j = x
            k = i
            while k + 1 < n and isinstance(self.b[k + 1], tuple) and self.b[k + 1] == (root, j + (k + 1 - i)):
                k += 1
            if k == i:
                parts.append("b%d=%s[%d]" % (i, root, j))
            else:
                parts.append("b%d..%d=%s[%d:%d]" % (i, k, root, j + (k - i), j))
            i = k + 1
        return "{" + ",".join(parts) + "}" if parts else "{0}"

    def input_bits(self):
        return [x for x in self.b if isinstance(x, tuple)]

    def __repr__(self):
        return "Bits%d%s" % (self.w, self.key())


class Obj:
    """reference to wire-mapped memory: root name + byte offset + adt path"""
    __slots__ = ("root", "off", "adt")

    def __init__(self, root, off, adt):
        self.root, self.off, self.adt = root, off, adt

    def __repr__(self):
        return "Obj(%s+%d:%s)" % (self.root, self.off, self.adt)


class Slice:
    __slots__ = ("root", "off", "len")

    def __init__(self, root, off, length):
        self.root, self.off, self.len = root, off, length

    def __repr__(self):
        return "Slice(%s+%d,len=%s)" % (self.root, self.off, self.len)


class Agg:
    __slots__ = ("adt", "var", "fields")

    def __init__(self, adt, var, fields):
        self.adt, self.var, self.fields = adt, var, fields

    def __repr__(self):
        return "Agg(%s::%s %r)" % (self.adt, self.var, self.fields)


class Sym:
    """opaque value with a stable description"""
    __slots__ = ("d",)

    def __init__(self, d):
        self.d = d

    def __repr__(self):
        return "Sym(%s)" % (self.d,)


class Str:
    """abstract owned string (opt-in, `Evaluator.strings`): only its emptiness is tracked — True, False or None"""
    __slots__ = ("empty", "text")

    def __init__(self, empty, text=None):
        self.empty = empty
        self.text = text        # for a string built by format!: the key of its Arguments (carries the literal template)

    def __repr__(self):
        return "str(%s)" % {True: "empty", False: "nonempty", None: "?"}[self.empty]


class Cond:
    """boolean normal form: op in cmp/and/or/not/true/false/sym"""
    __slots__ = ("op", "a")

    def __init__(self, op, *a):
        self.op, self.a = op, a

    def key(self):
        return ckey(self)

    def __repr__(self):
        return "Cond<%s>" % ckey(self)


def vkey(v):
    if isinstance(v, Bits):
        if v.is_const():
            return hex(v.value())
        return v.key()
    if isinstance(v, Cond):
        return ckey(v)
    if isinstance(v, Sym):
        return "sym(%s)" % (v.d,)
    if isinstance(v, Agg):
        return "%s::%s(%s)" % (v.adt.split("::")[-1], v.var, ",".join("%s=%s" % (k, vkey(x)) for k, x in sorted(v.fields.items())))
    if isinstance(v, (Obj, Slice, Str)):
        return repr(v)
    if isinstance(v, tuple):
        return "(" + ",".join(vkey(x) for x in v) + ")"
    return repr(v)


NEG = {"Eq": "Ne", "Ne": "Eq", "Lt": "Ge", "Ge": "Lt", "Gt": "Le", "Le": "Gt"}
SWAP = {"Eq": "Eq", "Ne": "Ne", "Lt": "Gt", "Gt": "Lt", "Le": "Ge", "Ge": "Le"}


def ckey(c):
    if not isinstance(c, Cond):
        return vkey(c)
    if c.op == "cmp":
        return "%s(%s,%s)" % (c.a[0], vkey(c.a[1]), vkey(c.a[2]))
    if c.op in ("and", "or"):
        return "%s[%s]" % (c.op, ";".join(sorted(ckey(x) for x in c.a)))
    if c.op == "not":
        return "not(%s)" % ckey(c.a[0])
    if c.op == "in":
        return "in(%s,%s..=%s)" % (vkey(c.a[0]), c.a[1], c.a[2])
    if c.op == "sym":
        return "symc(%s)" % (c.a[0],)
    if c.op == "any":
        return "%s(%s)" % ("any" if c.a[1] else "none", ranges_str(c.a[0]))
    return c.op


def canon_guard(g):
    """canonical text of a guard element: double negations and negated comparisons are folded"""
    g = g.strip()
    while True:
        if g.startswith("not not "):
            g = g[8:]
            continue
        if g.startswith("not not("):
            g = g[7:]
            if g.startswith("(") and g.endswith(")"):
                g = g[1:-1]
            continue
        break
    for a, b in (("Ne(", "Eq("), ("Eq(", "Ne("), ("Lt(", "Ge("), ("Ge(", "Lt("), ("Gt(", "Le("), ("Le(", "Gt(")):
        if g.startswith("not " + a):
            return b + g[len("not " + a):]
    if g.startswith("not not(") and g.endswith(")"):
        return g[8:-1]
    if g.startswith("not none(") and g.count("(") == g.count(")") and ";" not in g:
        return "any(" + g[9:]
    if g.startswith("not any(") and g.count("(") == g.count(")") and ";" not in g:
        return "none(" + g[8:]
    return g


def cnot(c):
    if isinstance(c, Cond):
        if c.op == "not":
            return c.a[0]
        if c.op == "cmp":
            return mkcmp(NEG[c.a[0]], c.a[1], c.a[2])
        if c.op == "true":
            return Cond("false")
        if c.op == "false":
            return Cond("true")
        if c.op == "any":
            return Cond("any", c.a[0], not c.a[1])
        if c.op == "in" and isinstance(c.a[0], Bits):
            v, lo, hi = c.a
            parts = []
            if lo > 0:
                parts.append(mkcmp("Lt", v, Bits.const(lo, max(v.w, lo.bit_length() or 1))))
            if hi < (1 << v.w) - 1:
                parts.append(mkcmp("Gt", v, Bits.const(hi, max(v.w, hi.bit_length() or 1))))
            if not parts:
                return Cond("false")
            return parts[0] if len(parts) == 1 else Cond("or", *parts)
        if c.op == "and":
            return Cond("or", *[cnot(x) for x in c.a])
        if c.op == "or":
            return Cond("and", *[cnot(x) for x in c.a])
    return Cond("not", c)


def mkin(v, lo, hi):
    if isinstance(v, Bits) and v.is_const():
        return Cond("true" if lo <= v.value() <= hi else "false")
    return Cond("in", v, lo, hi)


def mkcmp(op, a, b):
    """canonical orientation: non-constant on the left"""
    if isinstance(a, Bits) and a.is_const() and not (isinstance(b, Bits) and b.is_const()):
        a, b = b, a
        op = SWAP[op]
    if isinstance(a, Bits) and isinstance(b, Bits) and a.is_const() and b.is_const():
        x, y = a.value(), b.value()
        r = {"Eq": x == y, "Ne": x != y, "Lt": x < y, "Le": x <= y, "Gt": x > y, "Ge": x >= y}[op]
        return Cond("true" if r else "false")
    # two structured values of the same type (derived / std equality: same variant and equal fields)
    _same_adt = lambda p_, q_: p_ == q_ or (p_ or "").split("::")[-1] == (q_ or "").split("::")[-1]
    if isinstance(a, Agg) and isinstance(b, Agg) and _same_adt(a.adt, b.adt) and op in ("Eq", "Ne"):
        def agg_eq(x, y):
            if isinstance(x, Agg) and isinstance(y, Agg) and _same_adt(x.adt, y.adt):
                if x.var != y.var:
                    return False
                if set(x.fields) != set(y.fields):
                    return None
                rs = [agg_eq(x.fields[k_], y.fields[k_]) for k_ in x.fields]
                return False if any(r is False for r in rs) else (None if any(r is None for r in rs) else True)
            if isinstance(x, Bits) and isinstance(y, Bits) and x.is_const() and y.is_const():
                return x.value() == y.value()
            if isinstance(x, (Bits, Sym)) and vkey(x) == vkey(y) and not (isinstance(x, Sym) and x.d.startswith("call:")):
                return True
            return None
        r = agg_eq(a, b)
        if r is not None:
            return Cond("true" if r == (op == "Eq") else "false")
    # two string literals
    if isinstance(a, Sym) and isinstance(b, Sym) and a.d.startswith("str:") and b.d.startswith("str:") and op in ("Eq", "Ne"):
        return Cond("true" if (a.d == b.d) == (op == "Eq") else "false")
    # a value compared with itself (same wire bits)
    if isinstance(a, Bits) and isinstance(b, Bits) and a.w == b.w and a.b == b.b:
        return Cond("true" if op in ("Eq", "Le", "Ge") else "false")
    # integer comparisons with a constant: `x >= c` is written `x > c-1`, `x <= c` is written `x < c+1`
    if isinstance(b, Bits) and b.is_const() and not (isinstance(a, Bits) and a.is_const()):
        if op == "Ge" and b.value() > 0:
            op, b = "Gt", Bits.const(b.value() - 1, b.w)
        elif op == "Le" and b.value() < (1 << b.w) - 1:
            op, b = "Lt", Bits.const(b.value() + 1, max(b.w, (b.value() + 1).bit_length()))
    # bit vectors are unsigned: x < 0 never, x >= 0 always
    if isinstance(a, Bits) and isinstance(b, Bits) and b.is_const() and b.value() == 0:
        if op == "Lt":
            return Cond("false")
        if op == "Ge":
            return Cond("true")
        if op == "Gt":
            op = "Ne"      # unsigned: x > 0 ⇔ x != 0
        elif op == "Le":
            op = "Eq"
    if isinstance(a, Bits) and isinstance(b, Bits) and b.is_const() and b.value() == 1 and op in ("Lt", "Ge"):
        # unsigned: x < 1 ⇔ x == 0, x >= 1 ⇔ x != 0
        op, b = ("Eq" if op == "Lt" else "Ne"), Bits.const(0, b.w)
    # trim common zero high bits for canonical form
    if isinstance(a, Bits) and isinstance(b, Bits):
        w = max(a.w, b.w)
        a, b = a.resize(w), b.resize(w)
        while w > 1 and a.b[w - 1] == 0 and b.b[w - 1] == 0:
            w -= 1
        a, b = a.resize(w), b.resize(w)
        # `(x ^ y) & M == 0` says the same as `x & M == y & M`: compare the two sides bit for bit
        if b.is_const() and b.value() == 0 and op in ("Eq", "Ne") and any(isinstance(x, Xb) for x in a.b) and all(x == 0 or isinstance(x, Xb) for x in a.b) \
                and len({(x.a[0], x.b[0]) for x in a.b if x != 0}) == 1:
            return mkcmp(op, Bits(w, [x.a if x != 0 else 0 for x in a.b]), Bits(w, [x.b if x != 0 else 0 for x in a.b]))
        # x & mask != 0 with right shifts: normalise shifted compare against 0
        if b.is_const() and b.value() == 0 and op in ("Eq", "Ne"):
            # drop zero bits entirely: only the set of input bits matters
            ins = set(x for x in a.b if x != 0)
            if ins and all(isinstance(x, tuple) for x in ins):
                return Cond("any", frozenset(ins), op == "Ne")
        # a value with exactly one free bit (all others constant 0) compared with a constant: `(x & M) == M`
        if b.is_const() and op in ("Eq", "Ne"):
            nzpos = [j for j, x in enumerate(a.b) if x != 0]
            if len(nzpos) == 1 and isinstance(a.b[nzpos[0]], tuple) and all(x == 0 or j == nzpos[0] for j, x in enumerate(a.b)):
                j = nzpos[0]
                cv = b.value()
                if cv == (1 << j):
                    return Cond("any", frozenset([a.b[j]]), op == "Eq")
                if cv == 0:
                    return Cond("any", frozenset([a.b[j]]), op == "Ne")
                return Cond("true" if op == "Ne" else "false")
        # single input bit compared with 1
        if b.is_const() and b.value() == 1 and op in ("Eq", "Ne"):
            nz = [x for x in a.b if x != 0]
            if len(nz) == 1 and isinstance(a.b[0], tuple):
                return Cond("any", frozenset([a.b[0]]), op == "Eq")
    return Cond("cmp", op, a, b)


def ranges_str(ins):
    """compact canonical rendering of a set of (root, bit) pairs"""
    by = {}
    for r, j in ins:
        by.setdefault(r, []).append(j)
    out = []
    for r in sorted(by):
        js = sorted(set(by[r]))
        parts = []
        i = 0
        while i < len(js):
            k = i
            while k + 1 < len(js) and js[k + 1] == js[k] + 1:
                k += 1
            parts.append("%d" % js[i] if k == i else "%d:%d" % (js[k], js[i]))
            i = k + 1
        out.append("%s[%s]" % (r, ",".join(reversed(parts))))
    return ";".join(out)


def oracle_cond(o, root):
    """Build a Cond from the oracle DSL (see /verif/oracles/README) over wire root."""
    if "any" in o:
        ins = set()
        for hi, lo in o["any"]:
            for j in range(lo, hi + 1):
                ins.add((root, j))
        return Cond("any", frozenset(ins), True)
    if "none" in o:
        ins = set()
        for hi, lo in o["none"]:
            for j in range(lo, hi + 1):
                ins.add((root, j))
        return Cond("any", frozenset(ins), False)
    if "cmp" in o:
        hi, lo = o["bits"]
        a = Bits.inp(root, lo, hi - lo + 1)
        if "const" in o:
            return mkcmp(o["cmp"], a, Bits.const(o["const"], max(a.w, o["const"].bit_length() or 1)))
        return Cond("cmp", o["cmp"], a, Sym(o["sym"]))
    if "in" in o:
        hi, lo = o["bits"]
        return Cond("in", Bits.inp(root, lo, hi - lo + 1), o["in"][0], o["in"][1])
    if "or" in o:
        return Evaluator(None).logic("or", *[oracle_cond(x, root) for x in o["or"]])
    if "and" in o:
        return Evaluator(None).logic("and", *[oracle_cond(x, root) for x in o["and"]])
    if "not" in o:
        return cnot(oracle_cond(o["not"], root))
    if "symc" in o:
        return Cond("sym", o["symc"])
    raise ValueError("bad oracle cond %r" % (o,))


# ---------------------------------------------------------------- evaluator
class Unsupported(Exception):
    pass


def _irrefutable(p):
    return p["k"] == "Wild" or (p["k"] == "Bind" and p.get("sub") is None)


class _Return(Exception):
    def __init__(self, value):
        self.value = value


class Evaluator:
    """Abstract evaluation of small pure THIR bodies."""

    def __init__(self, facts, layout=None, max_depth=12):
        self.f = facts
        self.max_depth = max_depth
        self.tbs = {}
        self.notes = []
        # called for self-field reads on non-wire objects: (adt, field) -> value or None
        self.field_hook = None
        # {(root, bit): 0 | 1}: evaluate under the assumption that these input bits have these values
        self.assume = {}
        # opt-in: integer fields of opaque (Sym) objects evaluate to named bit vectors instead of opaque scalars
        self.bitfields = False
        # opt-in: owned strings are tracked by emptiness (the `err_str` accumulator idiom: messages are appended
        # under conditions and the result is Err iff the string is non-empty)
        self.strings = False

    def _inp(self, root, lo, w):
        b = Bits.inp(root, lo, w)
        if self.assume:
            b = Bits(w, [self.assume.get(x, x) if isinstance(x, tuple) else x for x in b.b])
        return b

    def assume_bits(self, root, lo, w, value):
        for i in range(w):
            self.assume[(root, lo + i)] = (value >> i) & 1

    def tb(self, path):
        t = self.tbs.get(path)
        if t is None:
            fn = self.f.fns.get(path)
            if fn is None:
                c = self.f.consts.get(path)
                if c is None:
                    return None
                fn = c
            t = TB(fn, path)
            self.tbs[path] = t
        return t if t.ok else None

    # --- layout helpers
    def adt(self, path):
        return self.f.adts.get(path)

    def field_of(self, adt_path, name_or_idx):
        a = self.adt(adt_path)
        if not a or a["kind"] != "struct":
            return None
        fields = a["variants"][0]["fields"]
        for i, fd in enumerate(fields):
            if fd["name"] == name_or_idx or str(i) == str(name_or_idx):
                off = a.get("offsets", [None] * len(fields))[i]
                size = a.get("field_sizes", [None] * len(fields))[i]
                return i, fd, off, size
        return None

    def ty_width(self, ty):
        return INT_W.get(ty)

    # --- entry points
    def call_fn(self, path, args, depth=0):
        """evaluate local function `path` with abstract argument values"""
        if depth > self.max_depth:
            raise Unsupported("depth")
        tb = self.tb(path)
        if tb is None:
            raise Unsupported("no body: %s" % path)
        env = {}
        for p, a in zip(tb.params, args):
            self.bind(p.get("pat"), a, env)
        self._fn_depth = getattr(self, "_fn_depth", 0) + 1
        try:
            try:
                return self.eval(tb, tb.root, dict(env), depth)
            except _Return as r:
                return r.value
            except Unsupported as e:
                if "early return nested" not in str(e):
                    raise
            # control flow with returns nested inside branches: followed along the branches whose condition is decided
            # (the usual situation when the function is evaluated for one concrete combination of its inputs)
            try:
                return self._run(tb, tb.root, env, depth)
            except _Return as r:
                return r.value
        finally:
            self._fn_depth -= 1

    def _has_return(self, tb, i):
        return any(n["k"] == "Return" and not self._noise(n) for _, n in tb.walk(i))

    def _run(self, tb, i, env, depth):
        """value of expression i, following `return`s nested in decided branches (raises _Return); an undecided branch
        that contains a return is not supported"""
        i, n = tb.e(i)
        k = n["k"]
        if not self._has_return(tb, i):
            return self.eval(tb, i, env, depth)
        if k == "Return":
            raise _Return(self._run(tb, n["e"], env, depth) if n.get("e") is not None else Sym("unit"))
        if k == "Block":
            blk = tb.blocks[n["b"]]
            env = dict(env)
            for sid in blk["stmts"]:
                st = tb.stmts[sid]
                if st["k"] == "let":
                    if st.get("init") is not None:
                        v = self._run(tb, st["init"], env, depth)
                        if st.get("else") is not None:
                            c, binds = self.pat_cond(st["pat"], v, env)
                            if isinstance(c, Cond) and c.op == "false":
                                eb = tb.blocks[st["else"]]
                                for s2 in eb["stmts"]:
                                    st2 = tb.stmts[s2]
                                    if st2["k"] == "expr":
                                        self._run(tb, st2["e"], env, depth)
                                if eb.get("expr") is not None:
                                    self._run(tb, eb["expr"], env, depth)
                                raise Unsupported("let-else block does not diverge")
                            if not (isinstance(c, Cond) and c.op == "true"):
                                raise Unsupported("undecided let-else next to a nested return")
                        self.bind(st["pat"], v, env)
                    continue
                ei, en = tb.e(st["e"])
                if self._noise(en):
                    continue
                if en["k"] in ("Assign", "AssignOp") and not self._has_return(tb, ei):
                    li, ln = tb.e(en["l"])
                    if ln["k"] in ("Var", "Upvar") and ln["id"] in env and en["k"] == "Assign":
                        env[ln["id"]] = self.eval(tb, en["r"], env, depth)
                        continue
                    raise Unsupported("assignment next to a nested return")
                self._run(tb, st["e"], env, depth)
            if blk.get("expr") is not None:
                return self._run(tb, blk["expr"], env, depth)
            return Sym("unit")
        if k == "If":
            c = self.cond_of_if(tb, n, env, depth)
            env_t = dict(env)
            if isinstance(c, tuple):
                c, binds = c
                env_t.update(binds)
            if isinstance(c, Cond) and c.op == "true":
                return self._run(tb, n["then"], env_t, depth)
            if isinstance(c, Cond) and c.op == "false":
                return self._run(tb, n["else"], env, depth) if n.get("else") is not None else Sym("unit")
            raise Unsupported("undecided condition %s guards a nested return" % ckey(c)[:80])
        if k == "Match":
            v = self._run(tb, n["scrut"], env, depth)
            for a in n["arms"]:
                arm = tb.arms[a]
                c, binds = self.pat_cond(arm["pat"], v, env)
                env2 = dict(env)
                env2.update(binds)
                if arm.get("guard") is not None:
                    c = self.logic("and", c, self.as_cond(self.eval(tb, arm["guard"], env2, depth)))
                if isinstance(c, Cond) and c.op == "false":
                    continue
                if isinstance(c, Cond) and c.op == "true":
                    return self._run(tb, arm["body"], env2, depth)
                raise Unsupported("undecided match arm %s next to a nested return" % ckey(c)[:80])
            raise Unsupported("no match arm applies")
        if k == "Call":
            # arguments may contain `?`
            for a in n["args"]:
                if self._has_return(tb, a):
                    raise Unsupported("call argument contains a return")
        raise Unsupported("return nested in a %s expression" % k)

    def const_value(self, path, depth=0):
        c = self.f.consts.get(path)
        if c is None:
            return Sym("const:" + path)
        if "int" in c:
            w = INT_W.get(c["ty"]["s"], 64)
            return Bits.const(c["int"], w)
        if "elems" in c:
            t = self._table_value(c)
            if t is not None:
                return t
        tb = self.tb(path)
        if tb is None:
            raise Unsupported("const body " + path)
        return self.eval(tb, tb.root, {}, depth + 1)

    def _table_value(self, c):
        """a constant table evaluated by the compiler (facts: raw element values) as an array value: integers as
        constants, field-less enums as their variant"""
        et = c.get("elem_ty") or {}
        w = INT_W.get(et.get("s"))
        if w:
            return ("array",) + tuple(Bits.const(x & ((1 << w) - 1), w) for x in c["elems"])
        adt = self.f.adts.get(et.get("adt") or "")
        if adt and adt["kind"] == "enum" and all(not v_["fields"] for v_ in adt["variants"]) and all("discr" in v_ for v_ in adt["variants"]):
            mask = (1 << (8 * c["elem_size"])) - 1
            by = {v_["discr"] & mask: v_["name"] for v_ in adt["variants"]}
            if all((x & mask) in by for x in c["elems"]):
                return ("array",) + tuple(Agg(et["adt"], by[x & mask], {}) for x in c["elems"])
        return None

    def bind(self, pat, val, env):
        if not pat:
            return
        k = pat["k"]
        if k == "Bind":
            env[pat["id"]] = val
            if pat.get("sub"):
                self.bind(pat["sub"], val, env)
        elif k == "Deref":
            self.bind(pat["sub"], val, env)
        elif k in ("Leaf", "Variant"):
            for s in pat.get("subs", []):
                fv = None
                if isinstance(val, Agg):
                    fv = val.fields.get(s["f"]) if s["f"] in val.fields else val.fields.get(str(s["idx"]))
                elif isinstance(val, tuple) and val and val[0] in ("match", "cases", "array", "closure"):
                    # a tagged internal value (unresolved match, case list, array, closure) is not a Rust tuple:
                    # destructuring it would pick the tag/scrutinee instead of a component
                    fv = None
                elif isinstance(val, tuple) and s["idx"] < len(val):
                    fv = val[s["idx"]]
                if fv is None and isinstance(val, Sym) and k == "Leaf" and s.get("f"):
                    # a struct pattern on an opaque value names the same thing as the field access `val.f`
                    fv = Sym("%s.%s" % (val.d, s["f"]))
                if fv is None:
                    fv = Sym("field(%s,%s)" % (vkey(val), s["f"] or s["idx"]))
                self.bind(s["p"], fv, env)

    # --- expression evaluation
    def eval(self, tb, i, env, depth=0):
        i, n = tb.e(i)
        k = n["k"]
        ty = n["ty"]
        if k == "Lit":
            if "int" in n:
                w = INT_W.get(ty, 64)
                return Bits.const(n["int"] & ((1 << w) - 1), w)
            if "bool" in n:
                return Cond("true" if n["bool"] else "false")
            if "str" in n:
                return Sym("str:" + n["str"])
            if "bytes" in n:
                # byte-string literal (also the lowered template of format_args!): its printable text, so that a
                # message value shows the literal pieces (error code, wording) it is built from
                return Sym("bytes:" + "".join(ch if 32 <= ord(ch) < 127 and ch not in "()," else "~" for ch in n["bytes"]))
            return Sym("lit")
        if k == "NamedConst":
            if "int" in n:
                return Bits.const(n["int"], INT_W.get(ty, 64))
            return self.const_value(n["def"], depth)
        if k in ("Var", "Upvar"):
            if n["id"] in env:
                return env[n["id"]]
            if n["name"] in getattr(self, "by_name", ()):
                # a captured variable of a closure evaluated on its own, given by the rule
                return self.by_name[n["name"]]
            return Sym("var:" + n["name"])
        if k in ("Deref", "Borrow", "RawBorrow"):
            return self.eval(tb, n["e"], env, depth)
        if k == "Block":
            return self.eval_block(tb, n["b"], env, depth)
        if k == "Cast":
            v = self.eval(tb, n["e"], env, depth)
            w = INT_W.get(ty)
            if isinstance(v, Bits) and w:
                return v.resize(w)
            if isinstance(v, Cond) and w:
                if v.op == "any" and v.a[1] and len(v.a[0]) == 1:
                    # `(x & one_hot != 0) as uN` is the value of that bit, the same value as `(x >> n) & 1`
                    return Bits(w, [next(iter(v.a[0]))] + [0] * (w - 1))
                return Sym("boolcast(%s)" % ckey(v))
            return Sym("cast(%s as %s)" % (vkey(v), ty))
        if k == "Field":
            base = self.eval(tb, n["e"], env, depth)
            return self.field(base, n, ty)
        if k == "Index":
            base = self.eval(tb, n["e"], env, depth)
            idx = self.eval(tb, n["i"], env, depth)
            return self.index(base, idx, ty)
        if k == "Unary":
            v = self.eval(tb, n["e"], env, depth)
            if n["op"] == "Not":
                if isinstance(v, Cond):
                    return cnot(v)
                if isinstance(v, Bits):
                    return Bits(v.w, [1 - x if x in (0, 1) else None for x in v.b])
            return Sym("%s(%s)" % (n["op"], vkey(v)))
        if k == "Logical":
            a = self.as_cond(self.eval(tb, n["l"], env, depth))
            b = self.as_cond(self.eval(tb, n["r"], env, depth))
            return self.logic("and" if n["op"] == "And" else "or", a, b)
        if k == "Binary":
            a = self.eval(tb, n["l"], env, depth)
            b = self.eval(tb, n["r"], env, depth)
            return self.binop(n["op"], a, b, ty)
        if k == "If":
            c = self.cond_of_if(tb, n, env, depth)
            env_t = dict(env)
            if isinstance(c, tuple):  # (cond, bindings)
                c, binds = c
                env_t.update(binds)
            a = self.eval(tb, n["then"], env_t, depth)
            b = self.eval(tb, n["else"], env, depth) if n.get("else") is not None else Sym("unit")
            if isinstance(c, Cond) and c.op == "true":
                return a
            if isinstance(c, Cond) and c.op == "false":
                return b
            if isinstance(a, Cond) and isinstance(b, Cond):
                # bool-valued if: (c&a)|(!c&b)
                return self.logic("or", self.logic("and", c, a), self.logic("and", cnot(c), b))
            return Sym("ite(%s,%s,%s)" % (ckey(c), vkey(a), vkey(b)))
        if k == "Match":
            return self.eval_match(tb, n, env, depth)
        if k == "Call":
            return self.eval_call(tb, n, env, depth)
        if k == "Adt":
            fields = {}
            for fd in n["fields"]:
                fields[fd["f"]] = self.eval(tb, fd["e"], env, depth)
            return Agg(n["adt"], n["vname"], fields)
        if k == "Tuple":
            return tuple(self.eval(tb, x, env, depth) for x in n["es"])
        if k == "Array":
            return ("array",) + tuple(self.eval(tb, x, env, depth) for x in n["es"])
        if k == "Let":
            v = self.eval(tb, n["e"], env, depth)
            return self.pat_cond(n["pat"], v, env)[0]
        if k == "Zst":
            return Sym("fn:" + n.get("fn", "?"))
        if k == "Closure":
            return ("closure", n["def"], dict(env))
        if k == "Return":
            if n.get("e") is not None:
                return self.eval(tb, n["e"], env, depth)
            return Sym("unit")
        if k == "StaticRef":
            c_ = self.f.consts.get(n["def"])
            if c_ and "elems" in c_ and not c_.get("mutable"):
                t_ = self._table_value(c_)
                if t_ is not None:
                    return t_
            return Sym("static:" + n["def"])
        return Sym("%s@%s" % (k, n.get("sp", {}).get("l")))

    def eval_block(self, tb, b, env, depth):
        blk = tb.blocks[b]
        return self._eval_stmts(tb, blk, 0, dict(env), depth)

    @staticmethod
    def _noise(n):
        mac = (n.get("sp") or {}).get("mac") or []
        return any(m.startswith(("debug_assert", "assert")) or "log::" in m or m.startswith("log!") for m in mac)

    def _ite(self, c, a, b):
        if isinstance(c, Cond) and c.op == "true":
            return a
        if isinstance(c, Cond) and c.op == "false":
            return b
        if isinstance(a, Cond) and isinstance(b, Cond):
            return self.logic("or", self.logic("and", c, a), self.logic("and", cnot(c), b))
        if vkey(a) == vkey(b):
            return a
        return Sym("ite(%s,%s,%s)" % (ckey(c), vkey(a), vkey(b)))

    def _merge2(self, c, a, b):
        """value of a variable after `if c {…a…} else {…b…}`: structured values are merged field by field"""
        if a is b:
            return a
        if isinstance(a, Agg) and isinstance(b, Agg) and a.adt == b.adt and a.var == b.var and set(a.fields) == set(b.fields):
            return Agg(a.adt, a.var, {k: self._merge2(c, a.fields[k], b.fields[k]) for k in a.fields})
        if vkey(a) == vkey(b):
            return a
        return Sym("ite(%s,%s,%s)" % (ckey(c), vkey(a), vkey(b)))

    def _phi(self, base, ch):
        """value after a match some of whose arms (cond, value) changed the variable; field-wise for structured values"""
        vals = [base] + [x for _, x in ch]
        if all(isinstance(x, Agg) for x in vals) and len({(x.adt, x.var, tuple(sorted(x.fields))) for x in vals}) == 1:
            out = {}
            for k in base.fields:
                chk = [(c, x.fields[k]) for c, x in ch if x.fields[k] is not base.fields[k]]
                out[k] = self._phi(base.fields[k], chk) if chk else base.fields[k]
            return Agg(base.adt, base.var, out)
        if all(vkey(x) == vkey(base) for _, x in ch):
            return base
        return Sym("phi(%s|%s)" % (vkey(base), ";".join("%s:%s" % (ckey(c), vkey(x)) for c, x in ch)))

    def _ends_in_return(self, tb, i):
        """expression i is a block whose last statement/tail is `return`"""
        i, n = tb.e(i)
        if n["k"] == "Return":
            return True
        if n["k"] != "Block":
            return False
        blk = tb.blocks[n["b"]]
        if blk.get("expr") is not None:
            return self._ends_in_return(tb, blk["expr"])
        for s in reversed(blk["stmts"]):
            st = tb.stmts[s]
            if st["k"] == "expr":
                return self._ends_in_return(tb, st["e"])
            return False
        return False

    def _eval_stmts(self, tb, blk, k, env, depth):
        """statements k.. of a block, then its tail.  Early `return`s in statement
        position, `?` statements and assignments to locals are modelled (a value
        must never be reported as if those statements were absent)."""
        stmts = blk["stmts"]
        while k < len(stmts):
            st = tb.stmts[stmts[k]]
            k += 1
            if st["k"] == "let":
                if st.get("init") is not None:
                    ii, inn = tb.e(st["init"])
                    if inn["k"] == "Match":
                        # `let x = expr?;` — a decided failure leaves the function here, a decided success binds the payload
                        si, sn = tb.e(inn["scrut"])
                        fn_ = (sn.get("res") or sn.get("fn") or "") if sn["k"] == "Call" else ""
                        if fn_.endswith("Try>::branch") or fn_.endswith("Try::branch"):
                            v = self.eval(tb, sn["args"][0], env, depth)
                            if isinstance(v, Agg) and v.var in ("Err", "None"):
                                return v
                            if isinstance(v, Agg) and v.var in ("Ok", "Some"):
                                self.bind(st["pat"], v.fields.get("0"), env)
                                continue
                    if inn["k"] == "Match" and self._has_return(tb, ii):
                        # `let x = match e { A => v, _ => return r };` — a decided arm that returns leaves the function
                        try:
                            sv = self.eval(tb, inn["scrut"], env, depth)
                            done_ = False
                            for a_ in inn["arms"]:
                                arm_ = tb.arms[a_]
                                c_, b_ = self.pat_cond(arm_["pat"], sv, env)
                                env2_ = dict(env)
                                env2_.update(b_)
                                if arm_.get("guard") is not None:
                                    c_ = self.logic("and", c_, self.as_cond(self.eval(tb, arm_["guard"], env2_, depth)))
                                if isinstance(c_, Cond) and c_.op == "false":
                                    continue
                                if isinstance(c_, Cond) and c_.op == "true":
                                    bi_, bn_ = tb.e(arm_["body"])
                                    if bn_["k"] == "Return":
                                        return self.eval(tb, bn_["e"], env2_, depth) if bn_.get("e") is not None else Sym("unit")
                                    if not self._has_return(tb, bi_):
                                        self.bind(st["pat"], self.eval(tb, arm_["body"], env2_, depth), env)
                                        done_ = True
                                break
                            if done_:
                                continue
                        except Unsupported:
                            pass
                    v = self.eval(tb, st["init"], env, depth)
                    self.bind(st["pat"], v, env)
                continue
            i, n = tb.e(st["e"])
            if self._noise(n):
                continue
            if n["k"] == "Return":
                return self.eval(tb, n["e"], env, depth) if n.get("e") is not None else Sym("unit")
            if n["k"] == "If" and self._ends_in_return(tb, n["then"]) and (n.get("else") is None or self._ends_in_return(tb, n["else"])):
                c = self.cond_of_if(tb, n, env, depth)
                env_t = dict(env)
                if isinstance(c, tuple):
                    c, binds = c
                    env_t.update(binds)
                a = self.eval(tb, n["then"], env_t, depth)
                if n.get("else") is not None:
                    b = self.eval(tb, n["else"], dict(env), depth)
                else:
                    b = self._eval_stmts(tb, blk, k, dict(env), depth)
                return self._ite(c, a, b)
            if n["k"] == "Match":
                si, sn = tb.e(n["scrut"])
                fn = (sn.get("res") or sn.get("fn") or "") if sn["k"] == "Call" else ""
                if fn.endswith("Try>::branch") or fn.endswith("Try::branch"):
                    v = self.eval(tb, sn["args"][0], env, depth)
                    if isinstance(v, Agg) and v.var in ("Ok", "Some"):
                        continue
                    if isinstance(v, Agg) and v.var in ("Err", "None"):
                        return v
                    rest = self._eval_stmts(tb, blk, k, dict(env), depth)
                    return self._ite(Cond("sym", "isResidual(%s)" % vkey(v)), Sym("residual(%s)" % vkey(v)), rest)
            if self.strings and self._string_effects(tb, i, env, depth):
                continue
            self._other_stmt(tb, i, env, depth)
        if blk.get("expr") is not None:
            return self.eval(tb, blk["expr"], env, depth)
        return Sym("unit")

    def _other_stmt(self, tb, i, env, depth):
        """a statement that is not modelled: locals assigned or mutably borrowed anywhere inside lose their known value"""
        for x, m in tb.walk(i):
            if m["k"] in ("Assign", "AssignOp"):
                li, ln = tb.e(m["l"])
                while ln["k"] in ("Deref", "Field", "Index") and "e" in ln:
                    li, ln = tb.e(ln["e"])
                if ln["k"] in ("Var", "Upvar") and ln["id"] in env:
                    try:
                        r = vkey(self.eval(tb, m["r"], env, depth))
                    except Unsupported:
                        r = "?"
                    env[ln["id"]] = Sym("mut(%s;%s%s)" % (vkey(env[ln["id"]]), m.get("op", "="), r))
            elif m["k"] == "Return" and not self._noise(m):
                raise Unsupported("early return nested in a statement at line %s" % (m.get("sp") or {}).get("l"))
            elif m["k"] == "Borrow" and m.get("mut"):
                bi, bn = tb.e(m["e"])
                if bn["k"] in ("Var", "Upvar") and bn["id"] in env and not isinstance(env[bn["id"]], (Obj, Slice)):
                    env[bn["id"]] = Sym("mutborrowed(%s)" % vkey(env[bn["id"]]))

    def _touches_strings(self, tb, i, env):
        """does expression i mention a tracked string variable at all"""
        return any(m["k"] in ("Var", "Upvar") and isinstance(env.get(m["id"]), Str) for x, m in tb.walk(i))

    _STR_MUT = ("write_fmt", "write_str", "push_str", "push", "insert_str", "insert")

    def _string_effects(self, tb, i, env, depth):
        """applies statement i when it only appends to tracked strings (directly, in a block, or in the taken branch of
        an `if` whose condition is decided); returns False when the statement is anything else (nothing applied)"""
        i, n = tb.e(i)
        k = n["k"]
        if self._noise(n) or self._has_return(tb, i):
            return self._noise(n)
        if k == "Block":
            blk = tb.blocks[n["b"]]
            ids = []
            for sid in blk["stmts"]:
                st = tb.stmts[sid]
                if st["k"] != "expr":
                    # a `let` inside: evaluate and bind in a scratch copy only if everything else is handled
                    ids.append(("let", st))
                else:
                    ids.append(("expr", st["e"]))
            if blk.get("expr") is not None:
                ids.append(("expr", blk["expr"]))
            env2 = dict(env)
            for kind, x in ids:
                if kind == "let":
                    if x.get("else") is not None or x.get("init") is None:
                        return False
                    try:
                        self.bind(x["pat"], self.eval(tb, x["init"], env2, depth), env2)
                    except Unsupported:
                        return False
                elif not self._string_effects(tb, x, env2, depth):
                    # a statement of the block that has nothing to do with the tracked strings (a counter update, a log
                    # line) is applied as an unmodelled statement; one that touches them in another way gives up
                    if self._touches_strings(tb, x, env2):
                        return False
                    try:
                        self._other_stmt(tb, x, env2, depth)
                    except Unsupported:
                        return False
            for kk in env:
                env[kk] = env2.get(kk, env[kk])
            return True
        if k == "Match":
            # a match whose arm is decided: the effects of that arm
            try:
                v = self.eval(tb, n["scrut"], env, depth)
            except Unsupported:
                return False
            for a in n["arms"]:
                arm = tb.arms[a]
                c, binds = self.pat_cond(arm["pat"], v, env)
                env2 = dict(env)
                env2.update(binds)
                if arm.get("guard") is not None:
                    try:
                        c = self.logic("and", c, self.as_cond(self.eval(tb, arm["guard"], env2, depth)))
                    except Unsupported:
                        return False
                if isinstance(c, Cond) and c.op == "false":
                    continue
                if isinstance(c, Cond) and c.op == "true":
                    if not self._string_effects(tb, arm["body"], env2, depth):
                        if self._touches_strings(tb, arm["body"], env2):
                            return False
                        try:
                            self._other_stmt(tb, arm["body"], env2, depth)
                        except Unsupported:
                            return False
                    for kk in env:
                        env[kk] = env2.get(kk, env[kk])
                    return True
                return False
            return False
        if k == "If":
            try:
                c = self.cond_of_if(tb, n, env, depth)
            except Unsupported:
                return False
            env_t = dict(env)
            if isinstance(c, tuple):
                c, binds = c
                env_t.update(binds)
            if isinstance(c, Cond) and c.op == "true":
                if not self._string_effects(tb, n["then"], env_t, depth):
                    return False
                for kk in env:
                    env[kk] = env_t.get(kk, env[kk])
                return True
            if isinstance(c, Cond) and c.op == "false":
                return n.get("else") is None or self._string_effects(tb, n["else"], env, depth)
            return False
        if k == "Call":
            # `x.unwrap()` / `.expect(..)` around the append
            fn = (n.get("res") or n.get("fn") or "")
            nm = fn.split("::")[-1]
            if nm in ("unwrap", "expect") and n["args"]:
                return self._string_effects(tb, n["args"][0], env, depth)
            # a local helper that gets a tracked string as `&mut` out-parameter (statement position, result unused): its
            # body is applied with the parameter standing for the caller's string
            tgt_ = n.get("res") or n.get("fn")
            if tgt_ in self.f.fns and depth < self.max_depth and self.tb(tgt_) is not None:
                tbc = self.tb(tgt_)
                outs, envc, ok_ = [], {}, len(tbc.params) == len(n["args"])
                for p_, a_ in zip(tbc.params, n["args"]) if ok_ else ():
                    ai, an = tb.e(a_)
                    vi, vn = ai, an
                    while vn["k"] in ("Borrow", "Deref"):
                        vi, vn = tb.e(vn["e"])
                    pat = p_.get("pat") or {}
                    if an["k"] == "Borrow" and an.get("mut") and vn["k"] in ("Var", "Upvar") and isinstance(env.get(vn["id"]), Str):
                        if pat.get("k") != "Bind":
                            ok_ = False
                            break
                        envc[pat["id"]] = env[vn["id"]]
                        outs.append((vn["id"], pat["id"]))
                    else:
                        try:
                            self.bind(pat, self.eval(tb, a_, env, depth), envc)
                        except Unsupported:
                            ok_ = False
                            break
                if ok_ and outs:
                    try:
                        done = self._string_effects(tbc, tbc.root, envc, depth + 1)
                    except Unsupported:
                        done = False
                    if done:
                        for vid, pid in outs:
                            env[vid] = envc[pid]
                        return True
                    return False
            if nm in self._STR_MUT and n["args"]:
                ri, rn = tb.e(n["args"][0])
                while rn["k"] in ("Borrow", "Deref"):
                    ri, rn = tb.e(rn["e"])
                if rn["k"] in ("Var", "Upvar") and isinstance(env.get(rn["id"]), Str):
                    nonempty = False
                    if nm in ("write_fmt", "push", "insert"):
                        nonempty = True
                    else:
                        try:
                            a = self.eval(tb, n["args"][-1], env, depth)
                        except Unsupported:
                            a = None
                        nonempty = (isinstance(a, Str) and a.empty is False) or (isinstance(a, Sym) and a.d.startswith("str:") and len(a.d) > 4)
                        if not nonempty and not (isinstance(a, Str) and a.empty is True):
                            env[rn["id"]] = Str(None if env[rn["id"]].empty else False)
                            return True
                    if nonempty:
                        env[rn["id"]] = Str(False)
                    return True
        return False

    def cond_of_if(self, tb, n, env, depth):
        ci, cn = tb.e(n["cond"])
        if cn["k"] == "Let":
            v = self.eval(tb, cn["e"], env, depth)
            c, binds = self.pat_cond(cn["pat"], v, env)
            return (c, binds)
        return self.as_cond(self.eval(tb, n["cond"], env, depth))

    def pat_cond(self, pat, v, env):
        """condition under which value v matches pattern; plus new bindings"""
        binds = {}
        k = pat["k"]
        if k == "Variant":
            name = pat["vname"]
            if isinstance(v, Agg) and v.adt == pat["adt"]:
                if v.var == name:
                    self.bind(pat, v, binds)
                    c = Cond("true")
                    for s in pat.get("subs", []):
                        fv = v.fields.get(s["f"]) if s["f"] in v.fields else v.fields.get(str(s["idx"]))
                        if fv is not None and not _irrefutable(s["p"]):
                            sc_, sb_ = self.pat_cond(s["p"], fv, env)
                            binds.update(sb_)       # names bound inside a refutable sub-pattern (an or-pattern's alternative)
                            c = self.logic("and", c, sc_)
                    return c, binds
                return Cond("false"), binds
            # bind sub patterns to projections; refutable sub patterns refine the condition
            c = Cond("sym", "is%s(%s)" % (name, vkey(v)))
            for s in pat.get("subs", []):
                pv = Sym("payload(%s,%s)" % (vkey(v), name if s.get("f") in ("0", "", None) else "%s.%s" % (name, s["f"])))
                self.bind(s["p"], pv, binds)
                if not _irrefutable(s["p"]):
                    sc, sb = self.pat_cond(s["p"], pv, env)
                    if not (isinstance(sc, Cond) and sc.op == "true"):
                        c = self.logic("and", c, sc)
            return c, binds
        if k == "Bind":
            self.bind(pat, v, binds)
            if pat.get("sub") is not None:
                # `name @ sub-pattern`: the binding is irrefutable, the sub-pattern decides
                sc, sb = self.pat_cond(pat["sub"], v, env)
                binds.update(sb)
                return sc, binds
            return Cond("true"), binds
        if k == "Wild":
            return Cond("true"), binds
        if k == "Deref":
            return self.pat_cond(pat["sub"], v, env)
        if k == "Const":
            if "int" in pat and isinstance(v, Bits):
                return mkcmp("Eq", v, Bits.const(pat["int"], v.w)), binds
            if "int" in pat and pat["ty"] == "bool":
                c = self.as_cond(v)
                return (c if pat["int"] else cnot(c)), binds
            return Cond("sym", "pat(%s)==%s" % (vkey(v), pat.get("int", pat.get("dbg")))), binds
        if k == "Range":
            if isinstance(v, Bits):
                # half-open patterns (`..=END`, `START..`) have no integer on the open side
                lo_ = pat.get("lo") if isinstance(pat.get("lo"), int) else 0
                hi_ = pat.get("hi") if isinstance(pat.get("hi"), int) else (1 << v.w) - 1 + (0 if pat.get("incl") else 1)
                hi = hi_ if pat["incl"] else hi_ - 1
                return mkin(v, lo_, hi), binds
        if k == "Leaf":
            # tuple / struct pattern: the conjunction of its refutable sub-patterns (none for `()` or plain bindings)
            self.bind(pat, v, binds)
            c = Cond("true")
            for s_ in pat.get("subs", []):
                if _irrefutable(s_["p"]):
                    continue
                fv = None
                if isinstance(v, Agg):
                    fv = v.fields.get(s_["f"]) if s_["f"] in v.fields else v.fields.get(str(s_["idx"]))
                elif isinstance(v, tuple) and v and v[0] not in ("array", "match", "cases", "closure") and s_["idx"] < len(v):
                    fv = v[s_["idx"]]
                if fv is None:
                    fv = Sym("%s.%s" % (vkey(v), s_["f"] or s_["idx"]))
                c = self.logic("and", c, self.pat_cond(s_["p"], fv, env)[0])
            return c, binds
        if k == "Or":
            alts = [self.pat_cond(p, v, env) for p in pat["pats"]]
            cs = [c_ for c_, b_ in alts]
            # the names bound by the alternative that is decided to match (all alternatives bind the same names)
            hit = [b_ for c_, b_ in alts if isinstance(c_, Cond) and c_.op == "true"]
            if hit:
                binds.update(hit[0])
            elif alts:
                live = [b_ for c_, b_ in alts if not (isinstance(c_, Cond) and c_.op == "false")]
                if len(live) == 1:
                    binds.update(live[0])
            return self.logic("or", *cs), binds
        return Cond("sym", "pat:%s(%s)" % (k, vkey(v))), binds

    def eval_match(self, tb, n, env, depth):
        si_, sn_ = tb.e(n["scrut"])
        if sn_["k"] == "Call" and getattr(self, "_fn_depth", 0) > 0:
            fq_ = sn_.get("res") or sn_.get("fn") or ""
            if fq_.endswith("Try>::branch") or fq_.endswith("Try::branch"):
                # `expr?` anywhere inside an expression of a function evaluated by call_fn: a decided failure leaves
                # the function with the residual, a decided success yields the payload
                tv = self.eval(tb, sn_["args"][0], env, depth)
                if isinstance(tv, Agg) and tv.var in ("Err", "None"):
                    raise _Return(tv)
                if isinstance(tv, Agg) and tv.var in ("Ok", "Some"):
                    return tv.fields.get("0")
        v = self.eval(tb, n["scrut"], env, depth)
        arms = []
        for a in n["arms"]:
            arm = tb.arms[a]
            c, binds = self.pat_cond(arm["pat"], v, env)
            env2 = dict(env)
            env2.update(binds)
            if arm.get("guard") is not None:
                g = self.as_cond(self.eval(tb, arm["guard"], env2, depth))
                c = self.logic("and", c, g)
            if isinstance(c, Cond) and c.op == "false":
                continue
            val = self.eval(tb, arm["body"], env2, depth)
            if isinstance(c, Cond) and c.op == "true" and not arms:
                return val
            arms.append((c, val))
            if isinstance(c, Cond) and c.op == "true":
                break
        if arms and all(isinstance(val, Cond) for _, val in arms):
            # first-match semantics → boolean formula
            res = Cond("false")
            prior = Cond("true")
            for c, val in arms:
                res = self.logic("or", res, self.logic("and", prior, c, val))
                prior = self.logic("and", prior, cnot(c))
            return res
        return ("match", v, arms)

    def as_cond(self, v):
        if isinstance(v, Cond):
            return v
        if isinstance(v, Bits) and v.w == 1:
            return mkcmp("Ne", v, Bits.const(0, 1))
        return Cond("sym", vkey(v))

    def logic(self, op, *cs):
        flat = []
        for c in cs:
            c = self.as_cond(c)
            if c.op == op:
                flat.extend(c.a)
            else:
                flat.append(c)
        ident, absorb = ("true", "false") if op == "and" else ("false", "true")
        out = []
        seen = set()
        for c in flat:
            if c.op == absorb:
                return Cond(absorb)
            if c.op == ident:
                continue
            kk = ckey(c)
            if kk in seen:
                continue
            seen.add(kk)
            out.append(c)
        # or of any-sets / and of none-sets merge into one set
        pos = (op == "or")
        merge = [c for c in out if c.op == "any" and c.a[1] == pos]
        if len(merge) > 1:
            allbits = frozenset().union(*[c.a[0] for c in merge])
            out = [c for c in out if not (c.op == "any" and c.a[1] == pos)] + [Cond("any", allbits, pos)]
        if not out:
            return Cond(ident)
        if len(out) == 1:
            return out[0]
        return Cond(op, *out)

    def field(self, base, n, ty):
        name = n.get("name", str(n["idx"]))
        if isinstance(base, Obj):
            fo = self.field_of(base.adt, name)
            if fo is None:
                return Sym("field(%r,%s)" % (base, name))
            i, fd, off, size = fo
            fadt = fd["ty"].get("adt")
            w = INT_W.get(fd["ty"]["s"])
            if w and off is not None:
                return self._inp(base.root, 8 * (base.off + off), w)
            if fadt and off is not None and fadt in self.f.adts and not fd["ty"].get("refs"):
                return Obj(base.root, base.off + off, fadt)
            return Sym("field(%r,%s)" % (base, name))
        if isinstance(base, Agg):
            if name in base.fields:
                return base.fields[name]
            if str(n["idx"]) in base.fields:
                return base.fields[str(n["idx"])]
        if isinstance(base, tuple) and base and base[0] != "array" and base[0] != "match":
            if n["idx"] < len(base):
                return base[n["idx"]]
        if isinstance(base, Sym) and self.field_hook and n.get("adt"):
            r = self.field_hook(n["adt"], name, base)
            if r is not None:
                return r
        if isinstance(base, Sym):
            w = INT_W.get(ty) if isinstance(ty, str) else None
            if self.bitfields and w and w > 1:
                # integer field of an opaque object as a vector of named bits: masks and shifts are then compared bit by bit
                return Bits.inp("%s.%s" % (base.d, name), 0, w)
            return Sym("%s.%s" % (base.d, name))
        return Sym("field(%s,%s)" % (vkey(base), name))

    def index(self, base, idx, ty):
        if isinstance(base, Slice) and isinstance(idx, Bits) and idx.is_const():
            return self._inp(base.root, 8 * (base.off + idx.value()), 8)
        if isinstance(base, Slice) and isinstance(idx, Agg):
            r = self.range_of(idx)
            if r:
                lo, hi = r
                lo = lo or 0
                return Slice(base.root, base.off + lo, (hi - lo) if hi is not None else (base.len - lo if base.len is not None else None))
        if isinstance(base, tuple) and base and base[0] == "array" and isinstance(idx, Agg):
            # a constant sub-range of a value-tracked array is the array of those elements
            r = self.range_of(idx)
            if r:
                lo, hi = r[0] or 0, (r[1] if r[1] is not None else len(base) - 1)
                if 0 <= lo <= hi <= len(base) - 1:
                    return ("array",) + tuple(base[1 + lo:1 + hi])
        if isinstance(base, tuple) and base and base[0] == "array" and isinstance(idx, Bits) and idx.is_const():
            j = idx.value()
            if j + 1 < len(base):
                return base[j + 1]
        return Sym("index(%s,%s)" % (vkey(base), vkey(idx)))

    def range_of(self, agg):
        """(lo, hi_exclusive) for Range/RangeInclusive/RangeTo/RangeFrom aggregates with constant ends"""
        if not isinstance(agg, Agg):
            return None
        nm = agg.adt.split("::")[-1]
        def cv(x):
            return x.value() if isinstance(x, Bits) and x.is_const() else None
        f = agg.fields
        if nm == "Range":
            lo, hi = cv(f.get("start")), cv(f.get("end"))
            if lo is None or hi is None:
                return None
            return lo, hi
        if nm == "RangeInclusive":
            lo, hi = cv(f.get("start")), cv(f.get("end"))
            if lo is None or hi is None:
                return None
            return lo, hi + 1
        if nm == "RangeTo":
            hi = cv(f.get("end"))
            return (0, hi) if hi is not None else None
        if nm == "RangeToInclusive":
            hi = cv(f.get("end"))
            return (0, hi + 1) if hi is not None else None
        if nm == "RangeFrom":
            lo = cv(f.get("start"))
            return (lo, None) if lo is not None else None
        if nm == "RangeFull":
            return (0, None)
        return None

    def binop(self, op, a, b, ty):
        if op in ("Rem", "Div") and getattr(self, "div_watch", None):
            self.div_watch(op, a, b)
        if op in ("Eq", "Ne", "Lt", "Le", "Gt", "Ge"):
            if isinstance(a, Cond) or isinstance(b, Cond):
                ca, cb = self.as_cond(a), self.as_cond(b)
                if cb.op in ("true", "false") and op in ("Eq", "Ne"):
                    pos = (cb.op == "true") == (op == "Eq")
                    return ca if pos else cnot(ca)
                return Cond("sym", "%s(%s,%s)" % (op, ckey(ca), ckey(cb)))
            if isinstance(a, Bits) or isinstance(b, Bits):
                if isinstance(a, Bits) and isinstance(b, Bits):
                    return mkcmp(op, a, b)
            return mkcmp(op, a, b)
        if isinstance(a, Bits) and isinstance(b, Bits):
            w = max(a.w, b.w)
            if op in ("Shl", "Shr"):
                w = a.w
            a2, b2 = a.resize(w), b.resize(w) if op not in ("Shl", "Shr") else b
            if op == "BitAnd":
                return Bits(w, [self._and(x, y) for x, y in zip(a2.b, b2.b)])
            if op == "BitOr":
                return Bits(w, [self._or(x, y) for x, y in zip(a2.b, b2.b)])
            if op == "BitXor":
                return Bits(w, [self._xor(x, y) for x, y in zip(a2.b, b2.b)])
            if op == "Shr" and b.is_const():
                s = b.value()
                return Bits(w, list(a2.b[s:]) + [0] * min(s, w))
            if op == "Shl" and b.is_const():
                s = b.value()
                return Bits(w, ([0] * min(s, w) + list(a2.b))[:w])
            if a.is_const() and b.is_const():
                x, y = a.value(), b.value()
                m = (1 << w) - 1
                if op in ("Add", "AddWithOverflow", "AddUnchecked"):
                    return Bits.const((x + y) & m, w)
                if op in ("Sub", "SubWithOverflow"):
                    return Bits.const((x - y) & m, w)
                if op in ("Mul",):
                    return Bits.const((x * y) & m, w)
                if op == "Div" and y:
                    return Bits.const(x // y, w)
                if op == "Rem" and y:
                    return Bits.const(x % y, w)
        return Sym("%s(%s,%s)" % (op, vkey(a), vkey(b)))

    @staticmethod
    def _and(x, y):
        if x == 0 or y == 0:
            return 0
        if x == 1:
            return y
        if y == 1:
            return x
        if x == y:
            return x
        return None

    @staticmethod
    def _or(x, y):
        if x == 1 or y == 1:
            return 1
        if x == 0:
            return y
        if y == 0:
            return x
        if x == y:
            return x
        return None

    @staticmethod
    def _xor(x, y):
        if x == 0:
            return y
        if y == 0:
            return x
        if x in (0, 1) and y in (0, 1):
            return x ^ y
        if isinstance(x, tuple) and isinstance(y, tuple):
            return 0 if x == y else Xb(x, y)
        return None

    # --- calls
    def eval_call(self, tb, n, env, depth):
        fn = n.get("fn")
        res = n.get("res") or fn
        args = [self.eval(tb, a, env, depth) for a in n["args"]]
        name = (fn or "").split("::")[-1]
        if fn is None:
            return Sym("call?")
        for pred, hook in getattr(self, "call_hooks", ()):
            if pred(fn, res):
                hv = hook(n, args)
                if hv is not None:
                    return hv
        # iteration over a value-tracked array of known length: iter() is the array, any/all fold the closure over its elements
        if args and isinstance(args[0], tuple) and args[0] and args[0][0] == "array":
            if fn in ("core::slice::<impl [T]>::iter", "core::iter::IntoIterator::into_iter") or (res or "").endswith("IntoIterator>::into_iter"):
                return args[0]
            if name in ("any", "all") and "Iterator" in (res or fn) and len(args) == 2 and isinstance(args[1], tuple) and args[1] and args[1][0] == "closure":
                acc = Cond("false" if name == "any" else "true")
                for el in args[0][1:]:
                    acc = self.logic("or" if name == "any" else "and", acc, self.as_cond(self.call_closure(args[1], [el], depth + 1)))
                return acc
        # std helpers
        if "byteorder::LittleEndian" in fn or fn.startswith("byteorder::ByteOrder::read_") or "ByteOrder>::read_" in (res or ""):
            w = {"read_u16": 16, "read_u32": 32, "read_u64": 64}.get(name)
            if w and isinstance(args[0], Slice):
                return self._inp(args[0].root, 8 * args[0].off, w)
        if name == "from_le_bytes" and args and isinstance(args[0], tuple) and args[0] and args[0][0] == "array":
            bs = args[0][1:]
            if all(isinstance(x, Bits) and x.w == 8 for x in bs):
                out = []
                for x in bs:
                    out.extend(x.b)
                return Bits(len(out), out)
        if fn.startswith("core::ops::index::Index::index") or fn.startswith("core::ops::index::IndexMut::index_mut"):
            return self.index(args[0], args[1], n["ty"])
        if fn.startswith("core::cmp::PartialEq::eq") or fn.startswith("core::cmp::PartialEq::ne"):
            op = "Eq" if name == "eq" else "Ne"
            return self.binop(op, args[0], args[1], "bool")
        if fn.startswith("core::cmp::PartialOrd::"):
            op = {"lt": "Lt", "le": "Le", "gt": "Gt", "ge": "Ge"}.get(name)
            if op:
                return self.binop(op, args[0], args[1], "bool")
        OPS = {"core::ops::arith::Rem::rem": "Rem", "core::ops::arith::Add::add": "Add", "core::ops::arith::Sub::sub": "Sub",
               "core::ops::arith::Mul::mul": "Mul", "core::ops::arith::Div::div": "Div", "core::ops::bit::BitAnd::bitand": "BitAnd",
               "core::ops::bit::BitOr::bitor": "BitOr", "core::ops::bit::BitXor::bitxor": "BitXor", "core::ops::bit::Shl::shl": "Shl",
               "core::ops::bit::Shr::shr": "Shr"}
        if fn in OPS and len(args) == 2:
            return self.binop(OPS[fn], args[0], args[1], n["ty"])
        if (res or fn).endswith("Try>::branch") or fn.endswith("Try::branch"):
            v = args[0]
            if isinstance(v, Agg) and v.var in ("Ok", "Some"):
                return Agg("core::ops::control_flow::ControlFlow", "Continue", {"0": v.fields.get("0")})
            if isinstance(v, Agg) and v.var in ("Err", "None"):
                return Agg("core::ops::control_flow::ControlFlow", "Break", {"0": v})
        if (res or fn).endswith("FromResidual>::from_residual") or fn.endswith("FromResidual::from_residual"):
            # `expr?` on the error path: the residual Err(e) / None becomes the function's own Err(From::from(e)) / None
            v = args[0]
            if isinstance(v, Agg) and v.var in ("Err", "None"):
                return v
        if fn.startswith("core::ops::bit::Not::not"):
            v = args[0]
            return cnot(self.as_cond(v)) if isinstance(v, Cond) else Sym("not(%s)" % vkey(v))
        if fn.endswith("RangeInclusive::<Idx>::contains") or fn.endswith("Range::<Idx>::contains") or "::contains" in fn and isinstance(args[0], Agg):
            r = self.range_of(args[0])
            if r and isinstance(args[1], Bits):
                return mkin(args[1], r[0], r[1] - 1)
        if fn.startswith("core::ops::range::RangeInclusive::<Idx>::") and name in ("start", "end") and isinstance(args[0], Agg):
            return args[0].fields.get(name, Sym("range." + name))
        if fn.startswith("core::ops::range::RangeInclusive::<Idx>::new"):
            return Agg("core::ops::range::RangeInclusive", "RangeInclusive", {"start": args[0], "end": args[1]})
        if fn.startswith("core::convert::Into::into") or fn.startswith("core::convert::From::from"):
            v = args[0]
            w = INT_W.get(n["ty"])
            if isinstance(v, Bits) and w:
                return v.resize(w)
            if isinstance(v, Cond) and w:
                # `u32::from(flag)` is `flag as u32`
                if v.op in ("true", "false"):
                    return Bits.const(1 if v.op == "true" else 0, w)
                if v.op == "any" and v.a[1] and len(v.a[0]) == 1:
                    return Bits(w, [next(iter(v.a[0]))] + [0] * (w - 1))
                return Sym("boolcast(%s)" % ckey(v))
            if isinstance(v, Sym) and w and fn.startswith("core::convert::From::from") and not v.d.startswith(("str:", "bytes:")):
                # `u64::from(x)` on an integer is the widening cast `x as u64`
                return Sym("cast(%s as %s)" % (vkey(v), n["ty"]))
            return v
        if fn.startswith("core::clone::Clone::clone") or fn.startswith("core::borrow::Borrow::borrow") or fn.startswith("core::convert::AsRef::as_ref"):
            return args[0]
        if fn.startswith("core::option::Option::<T>::") and name in ("is_some", "is_none"):
            v = args[0]
            some = name == "is_some"
            if isinstance(v, Agg) and v.adt.endswith("Option"):
                return Cond("true" if (v.var == "Some") == some else "false")
            c = Cond("sym", "isSome(%s)" % vkey(v))
            return c if some else cnot(c)
        if (fn.startswith("core::option::Option::<T>::") or fn.startswith("core::result::Result::<T, E>::")) and name in ("unwrap", "expect"):
            v = args[0]
            if isinstance(v, Agg) and v.var in ("Some", "Ok"):
                return v.fields.get("0", Sym("unwrap"))
            return Sym("unwrap(%s)" % vkey(v))
        if fn.startswith("core::option::Option::<T>::") and name in ("as_ref", "as_mut"):
            return args[0]
        if fn.startswith("core::option::Option::<T>::") and name == "is_some_and" and len(args) == 2 and isinstance(args[1], tuple) and args[1][0] == "closure":
            v = args[0]
            if isinstance(v, Agg) and v.var == "None":
                return Cond("false")
            payload = v.fields.get("0") if isinstance(v, Agg) and v.var == "Some" else Sym("payload(%s,Some)" % vkey(v))
            body = self.call_closure(args[1], [payload], depth + 1)
            if isinstance(v, Agg) and v.var == "Some":
                return self.as_cond(body)
            return self.logic("and", Cond("sym", "isSome(%s)" % vkey(v)), self.as_cond(body))
        if self.strings:
            if fn in ("alloc::string::String::new", "alloc::vec::Vec::<T>::new") and not args:
                return Str(True)       # (vectors are tracked the same way: only emptiness)
            if fn in ("alloc::string::String::is_empty", "alloc::vec::Vec::<T, A>::is_empty") and args and isinstance(args[0], Str) and args[0].empty is not None:
                return Cond("true" if args[0].empty else "false")
            # a constant-length list of options flattened and collected: `[a, b].into_iter().flatten().collect()`
            isarr_ = lambda v: isinstance(v, tuple) and v and v[0] == "array"
            if name == "flatten" and args and isarr_(args[0]) and all(isinstance(x, Agg) and x.var in ("Some", "None") for x in args[0][1:]):
                return ("array",) + tuple(x.fields.get("0") for x in args[0][1:] if x.var == "Some")
            if name == "collect" and args and isarr_(args[0]):
                return args[0]
            if fn in ("alloc::vec::Vec::<T, A>::is_empty", "core::slice::<impl [T]>::is_empty") and args and isarr_(args[0]):
                return Cond("true" if len(args[0]) == 1 else "false")
            if fn in ("alloc::fmt::format", "core::hint::must_use") and args:
                # format!(..) of an error message: at least its literal text
                return Str(False, vkey(args[0])) if fn == "alloc::fmt::format" else args[0]
            if args and isinstance(args[0], Str) and (name in ("to_owned", "to_string", "clone", "into", "from", "deref", "as_str", "into_boxed_str", "as_ref", "borrow")):
                return args[0]
        if fn.startswith("core::result::Result::<T, E>::") and name in ("map_err", "map", "and_then", "is_ok", "is_err") and args and isinstance(args[0], Agg) and args[0].var in ("Ok", "Err"):
            # combinators on a result whose variant is known
            v = args[0]
            if name in ("is_ok", "is_err"):
                return Cond("true" if (v.var == "Ok") == (name == "is_ok") else "false")
            hit = "Err" if name == "map_err" else "Ok"
            if v.var != hit:
                return v
            clo = args[1]
            if isinstance(clo, tuple) and clo and clo[0] == "closure":
                r = self.call_closure(clo, [v.fields.get("0")], depth + 1)
                return r if name == "and_then" else Agg(v.adt, v.var, {"0": r})
        if fn.startswith("core::option::Option::<T>::") and name in ("get_or_insert", "insert") and len(args) == 2 and isinstance(args[0], Agg) and args[0].var in ("Some", "None"):
            # value seen through the returned reference (the store into the option is reported by the `watch` record)
            return args[1] if (args[0].var == "None" or name == "insert") else args[0].fields.get("0")
        if fn.startswith("core::option::Option::<T>::") and name in ("replace", "take") and isinstance(args[0], Agg) and args[0].var in ("Some", "None"):
            # the value handed out is the old content (the store into the option is reported by the `watch` record)
            return args[0]
        if fn.startswith("core::option::Option::<T>::") and name in ("and_then", "map", "map_or", "unwrap_or") and args and isinstance(args[0], Agg) and args[0].var in ("Some", "None"):
            # combinators on an option whose variant is known
            v = args[0]
            clo = args[-1] if name != "unwrap_or" else None
            if v.var == "None":
                return v if name in ("and_then", "map") else args[1]
            if name == "unwrap_or":
                return v.fields.get("0")
            if isinstance(clo, tuple) and clo and clo[0] == "closure":
                r = self.call_closure(clo, [v.fields.get("0")], depth + 1)
                return Agg("core::option::Option", "Some", {"0": r}) if name == "map" else r
        if fn.startswith("core::slice::<impl [T]>::len"):
            v = args[0]
            if isinstance(v, Slice) and v.len is not None:
                return Bits.const(v.len, 64)
        # constant arrays as iterators: `ARRAY.iter().find(|e| …)` is expanded element by element into a case list
        # (first match wins), and Option::map_or / map / unwrap_or over the case list into a nested if-then-else
        isarr = lambda v: isinstance(v, tuple) and v and v[0] == "array"
        if args and isarr(args[0]) and (fn.startswith("core::slice::<impl [T]>::iter") or fn.endswith("IntoIterator>::into_iter") or fn.endswith("IntoIterator::into_iter")) and len(args) == 1:
            return args[0]
        if args and isarr(args[0]) and name == "find" and "Iterator" in fn and len(args) == 2 and isinstance(args[1], tuple) and args[1][0] == "closure" and len(args[0]) <= 65:
            cases = []
            for e in args[0][1:]:
                c = self.as_cond(self.call_closure(args[1], [e], depth + 1))
                cases.append((c, Agg("core::option::Option", "Some", {"0": e})))
            cases.append((Cond("true"), Agg("core::option::Option", "None", {})))
            return ("cases", cases)
        if args and isarr(args[0]) and name in ("any", "all") and "Iterator" in fn and len(args) == 2 and isinstance(args[1], tuple) and args[1][0] == "closure" and len(args[0]) <= 65:
            cs_ = [self.as_cond(self.call_closure(args[1], [e], depth + 1)) for e in args[0][1:]]
            return self.logic("or" if name == "any" else "and", *cs_) if cs_ else Cond("false" if name == "any" else "true")
        if args and isinstance(args[0], tuple) and args[0] and args[0][0] == "cases" and fn.startswith("core::option::Option::<T>::") and name in ("map_or", "unwrap_or", "map"):
            vals = []
            for c, v in args[0][1]:
                if v.var == "None":
                    r = args[1] if name in ("map_or", "unwrap_or") else v
                elif name == "unwrap_or":
                    r = v.fields["0"]
                else:
                    r = self.call_closure(args[2] if name == "map_or" else args[1], [v.fields["0"]], depth + 1)
                    if name == "map":
                        r = Agg("core::option::Option", "Some", {"0": r})
                vals.append((c, r))
            if name == "map":
                return ("cases", vals)
            res = vals[-1][1]
            for c, r in reversed(vals[:-1]):
                res = self._ite(c, r, res)
            return res
        # a closure held in a local and called: `f(a, b)` is Fn::call(&f, (a, b))
        if fn.startswith("core::ops::function::Fn") and name in ("call", "call_mut", "call_once") and len(args) == 2 \
                and isinstance(args[0], tuple) and args[0] and args[0][0] == "closure" and isinstance(args[1], tuple) and depth < self.max_depth:
            return self.call_closure(args[0], list(args[1]), depth + 1)
        # local function: inline
        target = None
        if res in self.f.fns and self.f.fns[res].get("thir"):
            target = res
        elif n.get("trait"):
            # unresolved trait method: unique impl?
            cands = [im for im in self.f.impls if im.get("trait") == n["trait"]]
            defs = []
            for im in cands:
                for it in im["items"]:
                    if it["name"] == n.get("name") and it["def"] in self.f.fns and im["self"].get("adt"):
                        defs.append(it["def"])
            recv = args[0] if args else None
            if isinstance(recv, Obj):
                defs = [d for d in defs if ("<%s as" % recv.adt) in d] or defs
            if len(defs) == 1:
                target = defs[0]
        if target and depth < self.max_depth:
            try:
                return self.call_fn(target, args, depth + 1)
            except Unsupported:
                pass
        return Sym("call:%s(%s)" % (res or fn, ",".join(vkey(a) for a in args)))

    def call_closure(self, clo, args, depth):
        _, path, cenv = clo
        tb = self.tb(path)
        if tb is None:
            raise Unsupported("closure body " + path)
        env = dict(cenv)
        # params[0] is the closure environment
        for p, a in zip(tb.params[1:], args):
            self.bind(p.get("pat"), a, env)
        try:
            return self.eval(tb, tb.root, env, depth)
        except _Return as r:
            return r.value      # a decided `?` inside the closure leaves the closure

    # --- condition collection over a whole body (validators)
    _seen_code_spans = None

    def collect_ifs(self, path, args, depth=0, follow=None, out=None, guard=()):
        if depth == 0:
            self._seen_code_spans = set()
        """All `if` conditions in function `path` (evaluated with args bound), in
        source order, following calls whose result is matched by `if let` when
        `follow(callee)` is true.  Returns list of dict(cond, guard, where, fn)."""
        if out is None:
            out = []
        tb = self.tb(path)
        if tb is None:
            raise Unsupported("no body " + path)
        env = {}
        for p, a in zip(tb.params, args):
            self.bind(p.get("pat"), a, env)
        self._collect(tb, tb.root, env, depth, follow, out, tuple(guard), path)
        return out

    def _collect_block(self, tb, blk, env, depth, follow, out, guard, path):
        for s in blk["stmts"]:
            st = tb.stmts[s]
            if st["k"] == "let":
                if st.get("init") is not None:
                    self._collect(tb, st["init"], env, depth, follow, out, guard, path)
                    try:
                        v = self.eval(tb, st["init"], env, depth)
                    except Unsupported:
                        v = Sym("unsupported")
                    if st.get("else") is not None:
                        # let-else: the else block diverges; what follows runs only when the pattern matched
                        c, binds = self.pat_cond(st["pat"], v, env)
                        eb = tb.blocks[st["else"]]
                        self._collect_block(tb, eb, dict(env), depth, follow, out, guard + ("not " + ckey(c),), path)
                        env.update(binds)
                        if not (isinstance(c, Cond) and c.op == "true"):
                            guard = guard + (ckey(c),)
                    else:
                        self.bind(st["pat"], v, env)
            else:
                r = self._collect(tb, st["e"], env, depth, follow, out, guard, path)
                if isinstance(r, tuple) and r and r[0] == "if-diverges":
                    # `if c { …; return }` without else: what follows runs only when c is false
                    guard = guard + ("not " + r[1],)
        if blk.get("expr") is not None:
            self._collect(tb, blk["expr"], env, depth, follow, out, guard, path)

    def _collect(self, tb, i, env, depth, follow, out, guard, path):
        i, n = tb.e(i)
        k = n["k"]
        if k == "Block":
            blk = tb.blocks[n["b"]]
            outer = env
            env = dict(env)
            try:
                self._collect_block(tb, blk, env, depth, follow, out, guard, path)
            finally:
                for kk in outer:
                    if env.get(kk) is not outer[kk]:
                        outer[kk] = env[kk]
            return
        if k == "If":
            sp = n.get("sp", {})
            mac = sp.get("mac") or []
            if any(m.startswith("debug_assert") or m.startswith("assert") or "log::" in m or m.startswith("log!") for m in mac):
                return
            ci, cn = tb.e(n["cond"])
            binds = {}
            followed = False
            if getattr(self, "watch", None):
                # watched calls inside the condition itself (e.g. `if let Err(e) = f(x)`)
                self._collect(tb, cn["e"] if cn["k"] == "Let" else n["cond"], env, depth, None, out, guard, path)
            if cn["k"] == "Let":
                si, sn = tb.e(cn["e"])
                callee = (sn.get("res") or sn.get("fn")) if sn["k"] == "Call" else None
                if callee and follow and follow(callee) and callee in self.f.fns:
                    cargs = [self.eval(tb, a, env, depth) for a in sn["args"]]
                    self.collect_ifs(callee, cargs, depth + 1, follow, out, guard)
                    followed = True
                    c = Cond("sym", "result(%s)" % callee.split("::")[-2:])
                else:
                    v = self.eval(tb, cn["e"], env, depth)
                    c, binds = self.pat_cond(cn["pat"], v, env)
            else:
                c = self.as_cond(self.eval(tb, n["cond"], env, depth))
            if not followed:
                out.append({"cond": c, "guard": guard, "where": "%s:%s" % (sp.get("f"), sp.get("l")), "fn": path,
                            "has_else": n.get("else") is not None, "node": i, "tb": tb})
            env_t = dict(env)
            env_t.update(binds)
            env_e = dict(env)
            g2 = guard + ((ckey(c),) if not followed else ())
            self._collect(tb, n["then"], env_t, depth, follow, out, g2, path)
            if n.get("else") is not None:
                self._collect(tb, n["else"], env_e, depth, follow, out, guard + (("not " + ckey(c)),), path)
            for kk in list(env):
                if env_t.get(kk) is not env[kk] or env_e.get(kk) is not env[kk]:
                    if isinstance(c, Cond) and c.op in ("true", "false"):
                        env[kk] = env_t.get(kk) if c.op == "true" else env_e.get(kk)
                    else:
                        env[kk] = self._merge2(c, env_t.get(kk), env_e.get(kk))
            if n.get("else") is None and not followed and self._ends_in_return(tb, n["then"]):
                return ("if-diverges", ckey(c))
            return
        if k == "Match":
            if getattr(self, "watch", None):
                # watched calls inside the scrutinee (e.g. `match f(x) {..}`, `f(x)?`)
                self._collect(tb, n["scrut"], env, depth, None, out, guard, path)
            try:
                v = self.eval(tb, n["scrut"], env, depth)
            except Unsupported:
                v = Sym("unsupported")
            armenvs = []
            skipped = ()    # undecided `if` guards of earlier arms: a later arm is reached only when they failed
            for a in n["arms"]:
                arm = tb.arms[a]
                c, binds = self.pat_cond(arm["pat"], v, env)
                env2 = dict(env)
                env2.update(binds)
                gc = None
                if arm.get("guard") is not None:
                    try:
                        gc = self.as_cond(self.eval(tb, arm["guard"], env2, depth))
                    except Unsupported:
                        gc = Cond("sym", "guard?")
                    c = self.logic("and", c, gc)
                if isinstance(c, Cond) and c.op == "false":
                    continue  # first-match semantics on decided patterns
                self._collect(tb, arm["body"], env2, depth, follow, out, guard + skipped + (ckey(c),), path)
                armenvs.append((c, env2))
                if gc is not None and not (isinstance(c, Cond) and c.op == "true"):
                    skipped = skipped + ("not " + ckey(c),)
                if isinstance(c, Cond) and c.op == "true":
                    break
            for kk in list(env):
                ch = [(c, e2[kk]) for c, e2 in armenvs if e2.get(kk) is not env[kk]]
                if ch:
                    if len(armenvs) == 1 and isinstance(armenvs[0][0], Cond) and armenvs[0][0].op == "true":
                        env[kk] = ch[0][1]
                    else:
                        env[kk] = self._phi(env[kk], ch)
            return
        if k in ("Assign", "AssignOp"):
            try:
                lhs = self.eval(tb, n["l"], env, depth)
                rhs = self.eval(tb, n["r"], env, depth)
            except Unsupported:
                lhs, rhs = Sym("?"), Sym("?")
            sp = n.get("sp", {})
            # the assigned place as a path: variable name followed by the field names
            li, ln = tb.e(n["l"])
            fpath = []
            while ln["k"] in ("Deref", "Field"):
                if ln["k"] == "Field":
                    fpath.insert(0, ln.get("name", str(ln.get("idx"))))
                li, ln = tb.e(ln["e"])
            place = ".".join([ln.get("name", "?") if ln["k"] in ("Var", "Upvar") else "?"] + fpath)
            out.append({"assign": (n.get("op", "="), vkey(lhs)[:60000], vkey(rhs)[:60000]), "guard": guard, "place": place,
                        "where": "%s:%s" % (sp.get("f"), sp.get("l")), "fn": path})
            newv = rhs if k == "Assign" else Sym("%s(%s,%s)" % (n.get("op", "?").replace("Assign", ""), vkey(lhs), vkey(rhs)))
            if ln["k"] in ("Var", "Upvar") and ln["id"] in env:
                if not fpath:
                    env[ln["id"]] = newv
                elif isinstance(env[ln["id"]], Agg):
                    # a field of a structured value: the variable is rebound to an updated copy (the copy keeps the
                    # branches of an enclosing if/match apart; they are merged when the branches join)
                    def upd(v, names):
                        if not isinstance(v, Agg) or names[0] not in v.fields:
                            return None
                        flds = dict(v.fields)
                        if len(names) == 1:
                            flds[names[0]] = newv
                        else:
                            inner = upd(v.fields[names[0]], names[1:])
                            if inner is None:
                                return None
                            flds[names[0]] = inner
                        return Agg(v.adt, v.var, flds)
                    nv = upd(env[ln["id"]], fpath)
                    if nv is not None:
                        env[ln["id"]] = nv
        if k == "Closure" and getattr(self, "watch", None) and self.watch(n.get("def") or ""):
            out.append({"call": n.get("def"), "args": [], "argv": [], "guard": guard, "fn": path, "node": i, "tb": tb, "closure": True})
        if getattr(self, "watch_codes", False):
            sp = n.get("sp") or {}
            txt = None
            if k == "Lit" and "str" in n:
                txt = n["str"]
                key = ("lit", i)
            elif sp.get("mac") and any(m.startswith(("format!", "write!", "writeln!", "$crate::__export::format_args!", "format_args!")) for m in sp["mac"]):
                key = ("mac", sp.get("f"), sp.get("l"), sp.get("c"), sp.get("l2"))
                if key not in self._seen_code_spans:
                    from .emit import first_literal, macro_source
                    txt = first_literal(macro_source(self.f, sp))
            if txt and key not in self._seen_code_spans:
                self._seen_code_spans.add(key)
                import re as _re
                cs = ["E" + m for m in _re.findall(r"\[E(\d{2,4})\]", txt)] + ([txt] if _re.fullmatch(r"E\d{2,4}", txt) else [])
                for c_ in cs:
                    out.append({"code": c_, "guard": guard, "fn": path, "where": "%s:%s" % (sp.get("f"), sp.get("l"))})
        if k == "Return" and getattr(self, "watch", None):
            try:
                rv = vkey(self.eval(tb, n["e"], env, depth))[:60000] if n.get("e") is not None else "unit"
            except Unsupported:
                rv = "?"
            out.append({"ret": rv, "guard": guard, "fn": path, "node": i, "tb": tb})
        if k == "Call" and getattr(self, "watch", None):
            callee = n.get("res") or n.get("fn") or ""
            if self.watch(callee) and not (follow and callee in self.f.fns and callee != path and follow(callee)):
                try:
                    cargv = [self.eval(tb, a, env, depth) for a in n["args"]]
                    cargs = [vkey(x)[:60000] for x in cargv]
                except Unsupported:
                    cargv, cargs = [], ["?"]
                sp = n.get("sp", {})
                out.append({"call": callee, "args": cargs, "argv": cargv, "guard": guard, "where": "%s:%s" % (sp.get("f"), sp.get("l")), "fn": path, "node": i, "tb": tb})
        if k == "Call" and follow and (n.get("res") or n.get("fn")) in self.f.fns and follow(n.get("res") or n.get("fn")) \
                and (n.get("res") or n.get("fn")) != path:
            callee = n.get("res") or n.get("fn")
            try:
                cargs = [self.eval(tb, a, env, depth) for a in n["args"]]
                # the argument expressions run in the caller, before the callee's body
                mark = len(out)
                for a in n["args"]:
                    self._collect(tb, a, env, depth, follow, out, guard, path)
                try:
                    self.collect_ifs(callee, cargs, depth + 1, follow, out, guard)
                    return
                except Unsupported:
                    del out[mark:]
                    raise
            except Unsupported:
                pass
        for ch in tb.children(i):
            self._collect(tb, ch, env, depth, follow, out, guard, path)
