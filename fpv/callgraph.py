"""Whole-program call graph over the extracted MIR (resolved direct calls,
class-hierarchy resolution for unresolved trait-method / virtual calls,
closures, fn items used as values, Drop impls, fmt trait impls)."""
from .mir import Body, callee_of

FMT_ARG = {
    "new_display": "core::fmt::Display",
    "new_debug": "core::fmt::Debug",
    "new_lower_hex": "core::fmt::LowerHex",
    "new_upper_hex": "core::fmt::UpperHex",
    "new_binary": "core::fmt::Binary",
    "new_octal": "core::fmt::Octal",
}

# impl Self types excluded from class-hierarchy resolution, each with a reason;
# the exclusion is verified (no construction of the type in reachable code).
EXCLUDED_SELF_ADTS = {
    "fastpasta::config::test_util::MockConfig": "test utility compiled into the library; never constructed outside #[cfg(test)] code (verified on every run)",
    "alice_protocol_reader::config::mock_config::MockConfig": "test utility; never constructed outside tests (verified on every run)",
}


class CallGraph:
    def __init__(self, facts):
        self.f = facts
        self._bodies = {}
        self.edges = {}
        self.redges = {}
        self.sites = {}
        # trait -> method name -> [impl fn path]
        self.trait_impls = {}
        self.drop_impls = {}  # adt path -> fn path
        self.impl_by_trait_self = {}  # (trait, self adt) -> {name: def}
        for im in facts.impls:
            tr = im.get("trait")
            if not tr:
                continue
            sadt = im["self"].get("adt")
            for it in im["items"]:
                if it["def"] in facts.fns:
                    if sadt in EXCLUDED_SELF_ADTS:
                        continue
                    self.trait_impls.setdefault(tr, {}).setdefault(it["name"], []).append(it["def"])
            if tr == "core::ops::drop::Drop" and sadt:
                for it in im["items"]:
                    if it["name"] == "drop":
                        self.drop_impls[sadt] = it["def"]
            if sadt:
                self.impl_by_trait_self[(tr, sadt)] = {it["name"]: it["def"] for it in im["items"]}
        self._build()

    def body(self, path):
        b = self._bodies.get(path)
        if b is None:
            b = Body(self.f.fns[path])
            self._bodies[path] = b
        return b

    def resolve(self, cinfo):
        """candidate local callee paths for a call-site constant"""
        if not cinfo or "fn" not in cinfo:
            return []
        fns = self.f.fns
        res = cinfo.get("res")
        kind = cinfo.get("res_kind")
        out = []
        if res and kind != "virtual" and not (cinfo.get("trait") and res == cinfo["fn"]):
            if res in fns:
                out.append(res)
            return out
        tr = cinfo.get("trait")
        if tr:
            name = cinfo.get("name")
            cands = list(self.trait_impls.get(tr, {}).get(name, []))
            # default body
            if cinfo["fn"] in fns and cinfo["fn"] not in cands:
                cands.append(cinfo["fn"])
            return cands
        if cinfo["fn"] in fns:
            out.append(cinfo["fn"])
        return out

    def _add(self, a, b, site=None):
        self.edges.setdefault(a, set()).add(b)
        self.redges.setdefault(b, set()).add(a)
        if site is not None:
            self.sites.setdefault((a, b), []).append(site)

    def _build(self):
        fns = self.f.fns
        for path, fn in fns.items():
            if not fn.get("mir"):
                continue
            body = self.body(path)
            self.edges.setdefault(path, set())
            for i, b in enumerate(body.blocks):
                for s in b["s"]:
                    if s["k"] != "assign":
                        continue
                    rv = s["rv"]
                    if rv["k"] == "agg" and rv.get("ak") == "closure":
                        if rv["closure"] in fns:
                            self._add(path, rv["closure"], ("closure", i))
                    for o in _rv_operands(rv):
                        c = o.get("c")
                        if c and "fn" in c:
                            for t in self.resolve(c):
                                self._add(path, t, ("fnval", i))
                        elif c and c.get("closure") and c["closure"] in fns:
                            self._add(path, c["closure"], ("closure", i))
                t = b["t"]
                if not t:
                    continue
                if t["k"] in ("call", "tailcall"):
                    p, c = callee_of(t)
                    for tgt in self.resolve(c):
                        self._add(path, tgt, ("call", i))
                    # fn items / closures passed as arguments
                    for a in t["args"]:
                        ac = a.get("c")
                        if ac and "fn" in ac:
                            for tgt in self.resolve(ac):
                                self._add(path, tgt, ("fnval", i))
                        elif ac and ac.get("closure") and ac["closure"] in fns:
                            self._add(path, ac["closure"], ("closure", i))
                    # fmt::rt::Argument::new_* → the fmt impl of the type
                    if p and c and p.startswith("core::fmt::rt::Argument::<'_>::new_"):
                        meth = p.rsplit("::", 1)[1]
                        tr = FMT_ARG.get(meth)
                        for ga in c.get("ga", []):
                            adt = ga.get("adt")
                            if tr and adt:
                                d = self.impl_by_trait_self.get((tr, adt), {}).get("fmt")
                                if d and d in fns:
                                    self._add(path, d, ("fmt", i))
                    # generic std callee instantiated with closure types defined locally
                    if c:
                        for ga in c.get("ga", []):
                            cl = ga.get("closure")
                            if cl and cl in fns:
                                self._add(path, cl, ("closure-arg", i))
                        # ToString::to_string on local type → Display
                        if p and p.endswith("ToString>::to_string") or (p and p.endswith("ToString::to_string")):
                            for ga in c.get("ga", []):
                                adt = ga.get("adt")
                                d = self.impl_by_trait_self.get(("core::fmt::Display", adt), {}).get("fmt") if adt else None
                                if d and d in fns:
                                    self._add(path, d, ("fmt", i))
                elif t["k"] == "drop":
                    for adt in t.get("pty", {}).get("adts", []):
                        d = self.drop_impls.get(adt)
                        if d and d in fns:
                            self._add(path, d, ("drop", i))

    def reachable(self, roots):
        seen = set()
        st = [r for r in roots if r in self.f.fns]
        while st:
            x = st.pop()
            if x in seen:
                continue
            seen.add(x)
            st.extend(self.edges.get(x, ()))
        return seen

    def callers(self, path):
        return self.redges.get(path, set())

    def call_sites(self, callee_pred, within=None):
        """yield (caller_path, bb, term, callee_path, cinfo) for call terminators
        whose resolved callee path satisfies callee_pred"""
        for path in (within if within is not None else self.f.fns):
            fn = self.f.fns.get(path)
            if not fn or not fn.get("mir"):
                continue
            for bb, t, p, c in self.body(path).calls():
                if p and callee_pred(p):
                    yield path, bb, t, p, c

    def chain(self, roots, target):
        """one call chain root→target (for reports)"""
        from collections import deque
        prev = {}
        dq = deque(r for r in roots if r in self.f.fns)
        for r in list(dq):
            prev[r] = None
        while dq:
            x = dq.popleft()
            if x == target:
                out = []
                while x is not None:
                    out.append(x)
                    x = prev[x]
                return out[::-1]
            for y in self.edges.get(x, ()):
                if y not in prev:
                    prev[y] = x
                    dq.append(y)
        return None


def _rv_operands(rv):
    k = rv["k"]
    if k in ("use", "cast", "repeat"):
        return [rv["op"]]
    if k == "bin":
        return [rv["a"], rv["b"]]
    if k == "un":
        return [rv["a"]]
    if k == "agg":
        return rv["ops"]
    return []


MAIN_ROOT = "fastpasta::main"


def spawn_sites(cg):
    """closures passed to thread::Builder::spawn / thread::spawn:
    list of (owner fn, bb, closure path, in_loop)"""
    out = []
    for path, bb, t, p, c in cg.call_sites(lambda p: p.startswith("std::thread::builder::Builder::spawn") or p.startswith("std::thread::spawn")):
        cl = None
        for ga in c.get("ga", []):
            if ga.get("closure"):
                cl = ga["closure"]
        out.append((path, bb, cl, cg.body(path).on_cycle(bb)))
    return out


def thread_roles(cg):
    """role name -> set of reachable fns.  Roles are named after the thread-name
    literal given to Builder::name in the spawning fn when recoverable, else by
    the owner function."""
    roles = {}
    sp = spawn_sites(cg)
    spawned = {cl for _, _, cl, _ in sp if cl}
    # main: everything reachable from main without entering spawned closures
    def reach_excl(roots, excl):
        seen = set()
        st = list(roots)
        while st:
            x = st.pop()
            if x in seen or x in excl:
                continue
            seen.add(x)
            st.extend(cg.edges.get(x, ()))
        return seen
    roles["Main"] = reach_excl([MAIN_ROOT], spawned)
    for owner, bb, cl, in_loop in sp:
        if not cl:
            continue
        name = owner.split("::")[-1]
        if "::ValidatorDispatcher::<" in owner:
            # whichever dispatcher method holds the spawn (dispatch_by_id today; a spawn helper after a split), the thread
            # it starts is a per-link validator: the role keeps the historical name used as key by the rules
            name = "dispatch_by_id"
        r = reach_excl([cl], spawned - {cl})
        roles.setdefault(name, set()).update(r)
    return roles, sp
