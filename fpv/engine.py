"""Runs the rule module of one property over freshly extracted facts."""
import importlib
import json
import os
import sys
import traceback

from . import facts as factsmod
from .callgraph import CallGraph, MAIN_ROOT, thread_roles
from .report import Report, VERIF

LEVELS = {
    "C08": "proof", "C11": "proof", "C09": "model_checking",
}


class Ctx:
    def __init__(self, repo, no_cache=False):
        self.repo = repo
        self.no_cache = no_cache
        self._facts = {}
        self._cg = {}
        self._roles = {}

    def facts(self, cfg="dev"):
        if cfg not in self._facts:
            self._facts[cfg] = factsmod.load(cfg, self.repo, self.no_cache)
        return self._facts[cfg]

    def cg(self, cfg="dev"):
        if cfg not in self._cg:
            self._cg[cfg] = CallGraph(self.facts(cfg))
        return self._cg[cfg]

    def reachable(self, cfg="dev"):
        return self.cg(cfg).reachable([MAIN_ROOT])

    def roles(self, cfg="dev"):
        if cfg not in self._roles:
            self._roles[cfg] = thread_roles(self.cg(cfg))
        return self._roles[cfg]

    def oracle(self, name):
        with open(os.path.join(VERIF, "oracles", name)) as fh:
            return json.load(fh)

    def doc(self, rel):
        with open(os.path.join(self.repo, rel), encoding="utf-8", errors="replace") as fh:
            return fh.read()


def run(pid, tier, repo="/repo", no_cache=False, replay=None):
    try:
        mod = importlib.import_module("fpv.rules.%s" % pid.lower())
    except ImportError as e:
        print("no rule module for %s: %s" % (pid, e))
        return 2
    level = LEVELS.get(pid, "other")
    rep = Report(pid, tier, level, getattr(mod, "EXPLANATION", mod.__doc__ or ""), seed=int(os.environ.get("VERIF_SEED", "0") or 0))
    ctx = Ctx(repo, no_cache)
    try:
        mod.run(ctx, rep)
    except SystemExit:
        raise
    except Exception as e:  # fail closed: an engine crash is reported as a violation of the check itself
        traceback.print_exc()
        rep.bad("engine", "engine|crash|%s" % type(e).__name__, "rule engine crashed: %r" % (e,))
    f = ctx._facts.get("dev") or next(iter(ctx._facts.values()), None)
    if f is not None:
        rep.extra.setdefault("functions_in_facts", len(f.fns))
        rep.extra.setdefault("facts_from_cache", bool(getattr(f, "cached", False)))
        if f.endian:
            rep.assumptions.append("target_endian=%s (read from the compiler session)" % f.endian.lower())
    return rep.finish()
