"""Runs the rule module of one property over freshly extracted facts."""
import importlib
import json
import os
import sys
import traceback

from . import facts as factsmod
from .callgraph import CallGraph, MAIN_ROOT, thread_roles
from .report import Report, VERIF

LEVELS = {
    "C08": "proof", "C11": "proof", "C09": "model_checking",
}


class Ctx:
    def __init__(self, repo, no_cache=False, default_cfg=None):
        self.repo = repo
        self.no_cache = no_cache
        self.default_cfg = default_cfg or os.environ.get("FPV_DEFAULT_CFG", "dev")
        self._facts = {}
        self._cg = {}
        self._roles = {}

    def facts(self, cfg=None):
        cfg = cfg or self.default_cfg
        if cfg not in self._facts:
            self._facts[cfg] = factsmod.load(cfg, self.repo, self.no_cache)
        return self._facts[cfg]

    def cg(self, cfg=None):
        cfg = cfg or self.default_cfg
        if cfg not in self._cg:
            self._cg[cfg] = CallGraph(self.facts(cfg))
        return self._cg[cfg]

    def reachable(self, cfg=None):
        return self.cg(cfg).reachable([MAIN_ROOT])

    def roles(self, cfg=None):
        cfg = cfg or self.default_cfg
        if cfg not in self._roles:
            self._roles[cfg] = thread_roles(self.cg(cfg))
        return self._roles[cfg]

    def oracle(self, name):
        with open(os.path.join(VERIF, "oracles", name)) as fh:
            return json.load(fh)

    def doc(self, rel):
        with open(os.path.join(self.repo, rel), encoding="utf-8", errors="replace") as fh:
            return fh.read()


def _battery(pid):
    """runs the mutation battery, the negative controls and the seeded changes of one property against
    scratch copies of the tree; the result describes the checker, it does not change the verdict"""
    import subprocess
    import tempfile
    with open(os.path.join(VERIF, "selftest", "mutants.json")) as fh:
        cat = [m for m in json.load(fh)["mutants"] if pid in m["properties"]]
    for m in cat:
        m["properties"] = [pid]
    sd = os.path.join(VERIF, "seeded")
    for name in sorted(os.listdir(sd)) if os.path.isdir(sd) else []:
        mp = os.path.join(sd, name, "meta.json")
        pp = os.path.join(sd, name, "patch.diff")
        if os.path.exists(mp) and os.path.exists(pp):
            try:
                with open(mp) as fh:
                    meta = json.load(fh)
            except ValueError:
                continue
            if meta.get("property") == pid:
                cat.append({"id": "seed:" + name, "properties": [pid], "patch": pp, "expect": "", "seed": True})
    tmp = tempfile.mkdtemp(prefix="fpv_battery_")
    try:
        cfile = os.path.join(tmp, "cat.json")
        ofile = os.path.join(tmp, "out.json")
        with open(cfile, "w") as fh:
            json.dump({"mutants": cat}, fh)
        env = dict(os.environ, FPV_NO_BATTERY="1")
        env.pop("FPV_DEFAULT_CFG", None)
        subprocess.run([sys.executable, os.path.join(VERIF, "selftest", "run.py"), "--catalogue", cfile, "--json", ofile, "-j", str(min(12, os.cpu_count() or 4))],
                       stdout=subprocess.DEVNULL, stderr=subprocess.DEVNULL, env=env)
        with open(ofile) as fh:
            res = json.load(fh)
    except Exception as e:  # the battery is evidence about the checker; its failure must not change the verdict
        return {"error": repr(e)}
    finally:
        import shutil
        shutil.rmtree(tmp, ignore_errors=True)
    pos = [r for r in res if not r.get("negative") and not r["id"].startswith("seed:") and r["status"] != "skipped"]
    neg = [r for r in res if r.get("negative")]
    seeds = [r for r in res if r["id"].startswith("seed:")]
    return {
        "mutants": len(pos), "mutants_detected": sum(1 for r in pos if r["status"] == "detected"),
        "mutants_not_detected": [r["id"] + ":" + r["status"] for r in pos if r["status"] != "detected"],
        "negative_controls": len(neg), "negative_controls_silent": sum(1 for r in neg if r["status"] == "silent-ok"),
        "false_alarms": [r["id"] for r in neg if r["status"] != "silent-ok"],
        "seeded_changes": len(seeds), "seeded_detected": sum(1 for r in seeds if r["status"] == "detected"),
        "seeded_not_detected": [r["id"] for r in seeds if r["status"] != "detected"],
        "skipped": [r["id"] for r in res if r["status"] == "skipped"],
    }


def run(pid, tier, repo="/repo", no_cache=False, replay=None):
    # evidence/ describes /repo: a run on another tree (a scratch copy with a seeded change or a refactoring applied)
    # writes its evidence elsewhere unless told where
    if os.path.realpath(repo) != "/repo" and not os.environ.get("FPV_EVIDENCE_DIR"):
        os.environ["FPV_EVIDENCE_DIR"] = os.path.join(VERIF, ".work", "evidence_other_trees")
    try:
        mod = importlib.import_module("fpv.rules.%s" % pid.lower())
    except ImportError as e:
        print("no rule module for %s: %s" % (pid, e))
        return 2
    level = LEVELS.get(pid, "other")
    rep = Report(pid, tier, level, getattr(mod, "EXPLANATION", mod.__doc__ or ""), seed=int(os.environ.get("VERIF_SEED", "0") or 0))
    # quick: the rules on the facts of the default build configuration (cached by tree hash).
    # thorough: fresh extraction (no cache), the rules on BOTH build configurations (debug and
    # release differ in cfg!(debug_assertions) branches and overflow checks), and the checker's own
    # sensitivity battery (mutants, negative controls, seeded changes) recorded in the evidence.
    cfgs = [None]
    if tier == "thorough":
        no_cache = True
        cfgs = ["rel"] if getattr(mod, "CFG", None) == "rel" else ["dev", "rel"]
    ctx = None
    for cfg in cfgs:
        ctx = Ctx(repo, no_cache, default_cfg=cfg)
        try:
            mod.run(ctx, rep)
        except SystemExit:
            raise
        except Exception as e:  # fail closed: an engine crash is reported as a violation of the check itself
            traceback.print_exc()
            rep.bad("engine", "engine|crash|%s" % type(e).__name__, "rule engine crashed: %r" % (e,))
    if tier == "thorough":
        rep.extra["configurations"] = cfgs
        rep.extra["facts_fresh"] = True
        if not os.environ.get("FPV_NO_BATTERY"):
            rep.extra["sensitivity"] = _battery(pid)
    f = ctx._facts.get("dev") or next(iter(ctx._facts.values()), None)
    if f is not None:
        rep.extra.setdefault("functions_in_facts", len(f.fns))
        rep.extra.setdefault("facts_from_cache", bool(getattr(f, "cached", False)))
        if f.endian:
            rep.assumptions.append("target_endian=%s (read from the compiler session)" % f.endian.lower())
    return rep.finish()
