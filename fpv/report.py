"""Rule-instance bookkeeping, known-findings handling, evidence writer."""
import json
import os
import sys
import time

VERIF = os.path.dirname(os.path.dirname(os.path.abspath(__file__)))


class Report:
    def __init__(self, pid, tier, level, explanation, seed=0):
        self.pid = pid
        self.tier = tier
        self.level = level
        self.explanation = explanation
        self.seed = seed
        self.t0 = time.time()
        self.instances = []   # dict(rule,key,ok,detail,where)
        self.floors = []      # (rule, count, minimum)
        self.extra = {}
        self.assumptions = []
        self.trusted = ["rustc 1.97.0-nightly front end (type check, THIR/MIR construction)",
                        "/verif/driver fact extractor", "/verif/fpv rule library", "/verif/oracles tables"]
        self.notes = []

    # ---- recording ----
    def ok(self, rule, key, detail="", where=""):
        self.instances.append(dict(rule=rule, key=key, ok=True, detail=detail, where=where))

    def bad(self, rule, key, msg, where="", trace=None):
        if any((not i["ok"]) and i["rule"] == rule and i["key"] == key for i in self.instances):
            return  # one report per instance key
        self.instances.append(dict(rule=rule, key=key, ok=False, detail=msg, where=where, trace=trace))

    def check(self, cond, rule, key, detail="", where="", bad_detail=None):
        if cond:
            self.ok(rule, key, detail, where)
        else:
            self.bad(rule, key, bad_detail or detail, where)
        return cond

    def floor(self, rule, count, minimum, what=""):
        """fail closed when a rule matched fewer sites than confirmed by hand"""
        self.floors.append((rule, count, minimum))
        if count < minimum:
            self.bad(rule, "%s|floor" % rule,
                     "only %d instance(s) of %s found, expected at least %d — anchor missing or construct removed" % (count, what or rule, minimum))

    def missing(self, rule, anchor):
        self.bad(rule, "%s|anchor|%s" % (rule, anchor), "anchor not found: %s" % anchor)

    def note(self, s):
        self.notes.append(s)

    # ---- finishing ----
    def finish(self):
        known, fixed = load_known(self.pid)
        viol = [i for i in self.instances if not i["ok"]]
        new = []
        kf = []
        for v in viol:
            k = "%s|%s" % (v["rule"], v["key"]) if not v["key"].startswith(v["rule"]) else v["key"]
            v["fullkey"] = k
            if k in known:
                kf.append((v, known[k]))
            else:
                new.append(v)
        wall = time.time() - self.t0
        ev = self.evidence(len(new), len(kf), wall)
        evdir = os.environ.get("FPV_EVIDENCE_DIR") or os.path.join(VERIF, "evidence")
        os.makedirs(evdir, exist_ok=True)
        with open(os.path.join(evdir, "%s.json" % self.pid), "w") as fh:
            json.dump(ev, fh, indent=1)
        for v, k in kf:
            print("KNOWN-FINDING: property=%s %s [%s] %s" % (self.pid, k.get("what", ""), v["fullkey"], v["where"]))
        if new:
            replay = os.path.join(evdir, "%s.replay.json" % self.pid)
            with open(replay, "w") as fh:
                json.dump({"property": self.pid, "violations": new}, fh, indent=1, default=str)
            for v in new:
                print("  %s  rule=%s  key=%s\n      %s" % (v["where"] or "-", v["rule"], v["fullkey"], v["detail"]))
            print("VIOLATION property=%s replay=%s" % (self.pid, replay))
            return 1
        nrules = len({i["rule"] for i in self.instances})
        print("OK property=%s tier=%s rules=%d instances=%d known_findings=%d wall=%.1fs" % (
            self.pid, self.tier, nrules, len(self.instances), len(kf), wall))
        return 0

    def evidence(self, nviol, nknown, wall):
        by_rule = {}
        for i in self.instances:
            r = by_rule.setdefault(i["rule"], {"instances": 0, "held": 0})
            r["instances"] += 1
            r["held"] += 1 if i["ok"] else 0
        samples = []
        seen_rules = {}
        for i in self.instances:
            c = seen_rules.get(i["rule"], 0)
            if c < 3:
                seen_rules[i["rule"]] = c + 1
                samples.append({"rule": i["rule"], "key": i["key"], "held": i["ok"],
                                "where": i["where"], "detail": (i["detail"] or "")[:300]})
        nobl = len(self.instances)
        ndis = sum(1 for i in self.instances if i["ok"])
        cov = {
            "explanation": self.explanation,
            "rule_instances": by_rule,
            "floors": [{"rule": r, "found": c, "minimum": m} for r, c, m in self.floors],
            "samples": samples[:60],
            "obligations": nobl,
            "discharged": ndis,
            "checker_cmd": "./check %s --tier %s" % (self.pid, self.tier),
            "trusted_base": self.trusted,
            "known_findings_reported": nknown,
            "notes": self.notes[:40],
        }
        cov.update(self.extra)
        return {
            "property_id": self.pid,
            "tier": self.tier,
            "seed": self.seed,
            "level": self.level,
            "coverage": cov,
            "assumptions": self.assumptions,
            "wall_s": round(wall, 2),
            "violations": nviol,
        }


def load_known(pid):
    p = os.path.join(VERIF, "known_findings.json")
    known, fixed = {}, []
    if os.path.exists(p):
        with open(p) as fh:
            d = json.load(fh)
        for e in d.get("findings", []):
            if e.get("property") == pid or pid in e.get("also", []):
                known[e["key"]] = e
        fixed = d.get("fixed", [])
    return known, fixed
