"""C12 — payloads are cut into words correctly; padding is never a word.

Decided: the constants and structure of the cutter (trailing 0xFF run counted
from the end, error iff run > 15; data-format probe = bytes 10..16 all 0x00 →
16-byte slots, else 10-byte words; the padding is cut off iff run > 9; sizes 16
and 10 are the chunks_exact arguments) (R12.1); every consumer of
preprocess_payload takes the first 10 bytes of each chunk, feeds each chunk
once in iteration order and applies no skipping/reordering adaptor (R12.2); on
the padding error exactly one error is sent at the RDH's offset, the FSM is
reset and no word is checked (R12.3).  Oracle: oracles/payload_cut.json.
Not decided: payloads whose layout disagrees with the header's data format."""
from ..mir import callee_of, origin_calls, show_origin
import re
from ..thir import Evaluator, Sym, Agg, Bits, ckey, vkey, Unsupported
from ..facts import where
from .c07 import root_param

EXPLANATION = __doc__
L = "fastpasta::analyze::validators::lib::"
ALLOWED_ADAPTORS = {"for_each", "enumerate", "next", "into_iter"}
FORBIDDEN_ADAPTORS = {"skip", "step_by", "rev", "filter", "take", "take_while", "skip_while", "zip", "chain", "filter_map", "peekable", "last", "nth", "cycle", "map_while"}


def lits(tb, eid=None):
    return [n["int"] for i, n in tb.walk(eid) if n["k"] == "Lit" and "int" in n]


def run(ctx, rep):
    f = ctx.facts()
    cg = ctx.cg()
    reach = ctx.reachable()
    ev = Evaluator(f)
    O = ctx.oracle("payload_cut.json")

    # ---------- R12.1 constants in role
    p = L + "extract_payload_ff_padding"
    if p in f.fns:
        b = cg.body(p)
        names = [cal.split("::")[-1] for bb, t, cal, c in b.calls() if cal and "iter" in cal.lower() or (cal and cal.split("::")[-1] in ("rev", "take_while", "collect", "len"))]
        chain = [cal.split("::")[-1] for bb, t, cal, c in b.calls() if cal and cal.split("::")[-1] in ("iter", "rev", "take_while", "collect")]
        rep.check(chain == ["iter", "rev", "take_while", "collect"], "R12.1", "R12.1|padding|from_the_end", "padding = payload.iter().rev().take_while(..) (counted from the end)", p, "iterator chain: %s" % chain)
        clo = ev.tb(p + "::{closure#0}")
        cl = lits(clo) if clo else []
        ops = [n["op"] for i, n in clo.walk() if n["k"] == "Binary"] if clo else []
        rep.check(cl == [O["padding_byte"]] and ops == ["Eq"], "R12.1", "R12.1|padding|byte", "padding bytes are exactly 0xFF", p, "take_while closure tests %s %s" % (ops, cl))
        out = ev.collect_ifs(p, [Sym("P")])
        conds = [ckey(o["cond"]) for o in out if "cond" in o]
        IT = "core::iter::traits::iterator::Iterator::"
        run = "sym(call:%scollect(sym(call:%stake_while(sym(call:%srev(sym(call:core::slice::<impl [T]>::iter(sym(P))))),('closure','%s::{closure#0}',{2: Sym(P)})))))" % (IT, IT, IT, p)
        ok = len(conds) == 1 and conds[0] == "Gt(sym(call:alloc::vec::Vec::<T, A>::len(%s)),%s)" % (run, hex(O["padding_max"]))
        try:
            whole = vkey(ev.call_fn(p, [Sym("P")]))
        except Exception as e:  # noqa
            whole = "unevaluable %r" % (e,)
        rep.check(whole.startswith("sym(ite(Gt(") and whole.endswith(",Result::Ok(0=%s)))" % run), "R12.1", "R12.1|padding|whole_payload",
                  "the measured run is payload.iter().rev().take_while(==0xFF) over the whole payload, and that run is what Ok returns", p,
                  "extract_payload_ff_padding does not return the trailing 0xFF run of the whole payload: %s" % whole[-420:])
        rep.check(ok, "R12.1", "R12.1|padding|limit", "error iff the 0xFF run is longer than %d bytes" % O["padding_max"], p, "padding limit condition: %s" % [c[:40] + "…" + c[-12:] for c in conds])
        tb = ev.tb(p)
        first_if = next((n for i, n in tb.walk() if n["k"] == "If"), None)
        rep.check(first_if is not None and any(x["k"] == "Return" for _, x in tb.walk(first_if["then"])), "R12.1", "R12.1|padding|err_returns", "an over-long padding returns Err", p)
    else:
        rep.missing("R12.1", p)
    p = L + "detect_payload_data_format"
    if p in f.fns:
        b = cg.body(p)
        args = {}
        for bb, t, cal, c in b.calls():
            nm = cal.split("::")[-1] if cal else ""
            if nm in ("skip", "take"):
                args[nm] = t["args"][1].get("c", {}).get("int")
        chain = [cal.split("::")[-1] for bb, t, cal, c in b.calls() if cal and cal.split("::")[-1] in ("iter", "skip", "take", "take_while", "count", "rev")]
        rep.check(chain == ["iter", "skip", "take", "take_while", "count"] and args == {"skip": O["word_bytes"], "take": O["slot_bytes"] - O["word_bytes"]}, "R12.1", "R12.1|probe|window",
                  "format probe looks at bytes %d..%d of the payload" % (O["word_bytes"], O["slot_bytes"]), p, "probe chain %s args %s" % (chain, args))
        clo = ev.tb(p + "::{closure#0}")
        rep.check(clo is not None and lits(clo) == [0] and [n["op"] for i, n in clo.walk() if n["k"] == "Binary"] == ["Eq"], "R12.1", "R12.1|probe|zero", "probe bytes must all be 0x00", p)
        out = ev.collect_ifs(p, [Sym("P")])
        conds = [ckey(o["cond"]) for o in out if "cond" in o]
        IT = "core::iter::traits::iterator::Iterator::"
        probe = "sym(call:%scount(sym(call:%stake_while(sym(call:%stake(sym(call:%sskip(sym(call:core::slice::<impl [T]>::iter(sym(P))),%s)),%s)),('closure','%s::{closure#0}',{2: Sym(P)})))))" % (
            IT, IT, IT, IT, hex(O["word_bytes"]), hex(O["slot_bytes"] - O["word_bytes"]), p)
        ok = len(conds) == 1 and conds[0] == "Eq(%s,%s)" % (probe, hex(O["slot_bytes"] - O["word_bytes"]))
        tb = ev.tb(p)
        fi = next((n for i, n in tb.walk() if n["k"] == "If"), None)
        then_v = [x.get("vname") for _, x in tb.walk(fi["then"]) if x["k"] == "Adt"] if fi else []
        else_v = [x.get("vname") for _, x in tb.walk(fi["else"]) if x["k"] == "Adt"] if fi and fi.get("else") is not None else []
        rep.check(ok and then_v == ["V0"] and else_v == ["V2"], "R12.1", "R12.1|probe|decision", "count == 6 ⇒ 16-byte slots (V0), else 10-byte words (V2)", p,
                  "probe decision: %s then %s else %s" % ([c[-8:] for c in conds], then_v, else_v))
    else:
        rep.missing("R12.1", p)
    p = L + "chunkify_payload"
    if p in f.fns:
        # decided per data format × length of the trailing 0xFF run (0..=16): which slice is cut into chunks of which size
        tb = ev.tb(p)
        DF = next((a_ for a_ in sorted(f.adts) if a_.endswith("::DataFormat")), "DataFormat")
        pad_is_len = len(tb.params) == 3 and (tb.params[2].get("ty") or "") == "usize"
        table = {}
        for fmt in ("V0", "V2"):
            for n_ in range(0, 17):
                ev.call_hooks = [(lambda fn_, r_: (r_ or fn_).endswith("::len"), lambda n, a_, n_=n_: Bits.const(n_, 64) if vkey(a_[0]) == "sym(PAD)" else None)]
                ev.watch = lambda c: c.split("::")[-1] in ("chunks_exact", "chunks", "rchunks", "windows", "chunks_mut", "rchunks_exact")
                try:
                    recs_ = [o for o in ev.collect_ifs(p, [Sym("P"), Agg(DF, fmt, {}), Bits.const(n_, 64) if pad_is_len else Sym("PAD")])
                             if "call" in o and not any(g in ("false", "not true") for g in o["guard"])]
                    und_ = [g for o in recs_ for g in o["guard"] if g not in ("true", "not false")]
                    table[(fmt, n_)] = [(o["call"].split("::")[-1], o["args"][0], o["args"][1]) for o in recs_] if not und_ else "undecided: %s" % und_[:1]
                except Unsupported as e:
                    table[(fmt, n_)] = "unevaluable: %s" % e
                finally:
                    ev.call_hooks = []
                    ev.watch = None
        bad_size, bad_cut, bad_len = [], [], []
        for (fmt, n_), evs in sorted(table.items()):
            want_size = hex(O["slot_bytes"] if fmt == "V0" else O["word_bytes"])
            if not isinstance(evs, list) or len(evs) != 1 or evs[0][0] != "chunks_exact" or evs[0][2] != want_size:
                bad_size.append(((fmt, n_), evs if not isinstance(evs, list) else [(e_[0], e_[2]) for e_ in evs]))
                continue
            whole = evs[0][1] == "sym(P)"
            cut = fmt == "V2" and n_ > O["cut_threshold"]
            if whole == cut:
                bad_cut.append(((fmt, n_), evs[0][1][:100]))
            elif cut and not ("RangeTo" in evs[0][1] and "len(sym(P))" in evs[0][1] and re.search(r"Sub\(sym\(call:core::slice::<impl \[T\]>::len\(sym\(P\)\)\),%s\)" % hex(n_), evs[0][1])):
                bad_len.append(((fmt, n_), evs[0][1][:160]))
        rep.check(not bad_size and len(table) == 34, "R12.1", "R12.1|chunk_sizes", "format 0 → chunks_exact(16); format 2 → chunks_exact(10)", p,
                  "chunking per (data format, padding length): %s" % bad_size[:4])
        rep.check(not bad_cut and not bad_size, "R12.1", "R12.1|cut_threshold", "format 2: the padding is cut off iff it is longer than %d bytes (it would otherwise form a word); format 0 is never cut" % O["cut_threshold"], p,
                  "cut decision per (data format, padding length) deviates: %s" % bad_cut[:4])
        rep.check(not bad_len and not bad_size, "R12.1", "R12.1|cut_length", "the cut keeps payload[..len − padding.len()]", p, "cut range: %s" % bad_len[:3])
    else:
        rep.missing("R12.1", p)
    pp = L + "preprocess_payload"
    if pp in f.fns:
        b = cg.body(pp)
        order = [cal.split("::")[-1] for bb, t, cal, c in b.calls() if cal and cal.startswith(L)]
        rep.check(order == ["extract_payload_ff_padding", "detect_payload_data_format", "chunkify_payload"], "R12.1", "R12.1|pipeline", "padding check (with ?), format probe, chunking — in this order", pp, "pipeline: %s" % order)
        ck = [t for bb, t, cal, c in b.calls() if cal == L + "chunkify_payload"]
        if ck:
            a = [show_origin(b.origin(x)) for x in ck[0]["args"]]
            rep.check(a[0] == "arg1" and "detect_payload_data_format(arg1)" in a[1] and "extract_payload_ff_padding" in a[2], "R12.1", "R12.1|pipeline_args", "chunkify gets the same payload, the probed format and the measured padding", pp, "args: %s" % a)

    # ---------- R12.2 consumers agree
    consumers = sorted({p_ for p_, bb, t, cal, c in cg.call_sites(lambda c: c == pp, within=reach)})
    # the checker and at least one view consume the cut payload (two views may share one loop body)
    rep.floor("R12.2", len(consumers), 2, "callers of preprocess_payload")
    rep.check(any(c_.startswith("fastpasta::analyze::validators::") for c_ in consumers) and any(c_.startswith("fastpasta::analyze::view::") for c_ in consumers),
              "R12.2", "R12.2|consumers", "the payload cutter is consumed by the checker and by the ITS views: %s" % [c_.split("::")[-1] for c_ in consumers], pp,
              "preprocess_payload is not consumed by both the checker and a view any more: %s" % consumers)
    for cpath in consumers:
        b = cg.body(cpath)
        bodies = [(cpath, b)] + [(k, cg.body(k)) for k in f.fns if k.startswith(cpath + "::{closure")]
        adaptors = set()
        slices = []
        for pth, bd in bodies:
            for bb, t, cal, c in bd.calls():
                if not cal:
                    continue
                nm = cal.split("::")[-1]
                is_iter = "iter::" in cal or "Iterator" in cal or "ChunksExact" in cal
                if is_iter and ("ChunksExact" in cal or "ChunksExact" in str((c or {}).get("ga")) or "Enumerate" in cal):
                    adaptors.add(nm)
                if cal.endswith("Index<I> for [T]>::index"):
                    so = show_origin(bd.origin(t["args"][1]))
                    slices.append(so)
        bad = adaptors & FORBIDDEN_ADAPTORS
        short = cpath.split("::")[-1]
        rep.check(not bad and adaptors <= ALLOWED_ADAPTORS | {"collect"}, "R12.2", "R12.2|adaptors|%s" % short, "%s walks the chunks in order with %s only" % (short, sorted(adaptors)), cpath,
                  "%s applies iterator adaptor(s) %s to the word chunks: words are skipped, reordered or dropped" % (short, sorted(bad or adaptors - ALLOWED_ADAPTORS)))
        ten = [s_ for s_ in slices if "RangeTo{0xa}" in s_.replace(" ", "")]
        rep.check(len(ten) >= 1 and len(ten) == len(slices), "R12.2", "R12.2|first_ten|%s" % short, "%s takes [..10] of each chunk" % short, cpath, "%s slices chunks with %s" % (short, slices))

    error_path_rules(ctx, rep)


def error_path_rules(ctx, rep):
    """R12.3: a payload that cannot be cut is reported once, no word of it is checked and the state machine restarts
    (shared with C09: classification after a skipped payload starts from the initial state)"""
    f = ctx.facts()
    cg = ctx.cg()
    reach = ctx.reachable()
    ev = Evaluator(f)
    O = ctx.oracle("payload_cut.json")
    pp = L + "preprocess_payload"
    # ---------- R12.3 error path
    dp = "fastpasta::analyze::validators::its::lib::do_payload_checks"
    if dp in f.fns:
        b = cg.body(dp)
        CRV = "fastpasta::analyze::validators::its::cdp_running::CdpRunningValidator::<T, C>::"
        sc = [bb for bb, t, cal, c in b.calls() if cal == CRV + "set_current_rdh"]
        ppc = [bb for bb, t, cal, c in b.calls() if cal == pp]
        rs = [bb for bb, t, cal, c in b.calls() if cal == CRV + "reset_fsm"]
        # where the words are checked: the `for_each` over the chunks, or (loop form) the direct call of check()
        fe = [bb for bb, t, cal, c in b.calls() if cal and cal.endswith("Iterator::for_each")] or [bb for bb, t, cal, c in b.calls() if cal == CRV + "check"]
        errs = [(i, s) for i, j, s in b.stmts() if s["k"] == "assign" and s["rv"]["k"] == "agg" and (s["rv"].get("adt") or "").endswith("stats::StatType") and s["rv"].get("vname") == "Error"]
        ok = len(sc) == 1 and len(ppc) == 1 and b.dominates(sc[0], ppc[0])
        rep.check(ok, "R12.3", "R12.3|set_rdh_first", "set_current_rdh precedes both outcomes of preprocess_payload", dp)
        ok = len(rs) == 1 and len(errs) == 1 and len(fe) == 1
        # normal completion = the Ok(()) result (the `?` on a failed statistics send is the disconnected-channel case)
        okret = [i for i, j, s_ in b.stmts() if s_["k"] == "assign" and s_["lhs"]["l"] == 0 and s_["rv"]["k"] == "agg" and s_["rv"].get("vname") == "Ok"]
        if ok:
            # Err edge: error + reset on all paths, no for_each; Ok edge: for_each, no reset
            sw = None
            for x in b.live_blocks():
                tt = b.blocks[x]["t"]
                if tt["k"] == "switch":
                    o = b.origin(tt["d"])
                    if o[0] == "disc" and o[1][0] == "call" and o[1][3] == ppc[0]:
                        sw = tt
            ok = sw is not None
            if ok:
                ok_t = [v[1] for v in sw["vals"] if v[0] == 0]
                err_t = [v[1] for v in sw["vals"] if v[0] == 1] or [sw["else"]]
                if not ok_t:
                    ok_t = [sw["else"]]
                e_reach = set().union(*[b.reachable_from(e, removed=ok_t) for e in err_t])
                o_reach = set().union(*[b.reachable_from(o_, removed=err_t) for o_ in ok_t])
                ok = errs[0][0] in e_reach and rs[0] in e_reach and fe[0] not in e_reach and fe[0] in o_reach and rs[0] not in o_reach and errs[0][0] not in o_reach \
                    and all(b.all_paths_pass(e, [rs[0]], to=okret) for e in err_t)
        # … and that reset is unconditional: CdpRunningValidator::reset_fsm reaches the state machine's reset on every
        # path (the machine classifies words in every check mode, so a reset limited to one mode leaves stale state)
        rf = CRV + "reset_fsm"
        if rf in f.fns:
            rb = cg.body(rf)
            inner = [bb for bb, t, cal, c in rb.calls() if cal and cal.endswith("ItsPayloadFsmContinuous::reset_fsm")]
            rep.check(len(inner) == 1 and rb.all_paths_pass(0, inner, to=rb.return_blocks()), "R12.3", "R12.3|reset_unconditional",
                      "reset_fsm() resets the payload state machine on every path", rf,
                      "CdpRunningValidator::reset_fsm does not reach the state machine's reset on every path: after a skipped payload the next packet can be judged from stale state")
        else:
            rep.missing("R12.3", rf)
        rep.check(ok, "R12.3", "R12.3|error_path", "padding error: one Error, reset_fsm on every path, no word is checked; good payload: words checked, no reset", dp,
                  "the error/ok arms of do_payload_checks no longer have the documented shape (error sent once + FSM reset without checking words)")
        if errs:
            from .. import emit
            site = {"fn": dp, "bb": errs[0][0], "payload": b.origin(errs[0][1]["rv"]["ops"][0]), "sp": errs[0][1]["sp"], "body": b, "variant": "Error"}
            fs = emit.site_format(f, site)
            rp = root_param(fs["args"][0][1]) if fs and fs["args"] else None
            rep.check(rp == (1, (".2",)), "R12.3", "R12.3|error_offset", "the padding error is reported at the RDH's own offset (cdp.2)", dp, "offset source: %s" % (rp,))
    else:
        rep.missing("R12.3", dp)
