"""C20 — user-configured checks are enforced exactly.

Decided (from the THIR normal forms of the consumers, accessors inlined):
R20.1 each custom key is consumed by exactly one inequality test between the
      configured value and the observed quantity, under `if let Some(key)`,
      and the error pushed in that branch carries the documented code
      (cdps/E9001, triggers_pht/E9002, chip_count_ob/E9004 on non-inner
      layers, chip_orders_ob/E9005 only when the count check passed,
      rdh_version → the header-id reference of the RDH0 validator);
R20.2 no key, no effect: the Cfg accessors return None unless a checks file was
      given and otherwise the value of the same-named field; all fields are
      Options with derived Default; `custom_checks_enabled` is `!= default`;
      accessor call sites are exactly the consumers of R20.1;
R20.3 the trigger period: linear normal form of the detected period
      (cur - prev, + 3564 iff cur < prev), error iff != P, applied to the
      12-bit trigger_bc of the current TDH and of the last TDH with the
      internal-trigger bit, only when the current TDH has the bit, only on
      the TDH / TDH_after_packet_done arms under running checks, reference
      replaced only by a TDH with the bit set.
Not decided: TOML parsing itself, and the arithmetic on values outside the
documented 0..3563 BC range (covered by C04)."""
import re

from ..thir import Evaluator, Bits, Sym, Agg, Cond, ckey, vkey, Unsupported
from ..emit import codes_in, first_literal, macro_source
from ..facts import where

EXPLANATION = __doc__

KEYS = ["cdps", "triggers_pht", "chip_orders_ob", "chip_count_ob", "rdh_version"]
OPT = "fastpasta::config::custom_checks::CustomChecksOpt::"
CFGIMPL = "<fastpasta::config::Cfg as fastpasta::config::custom_checks::CustomChecksOpt>::"
CC = "fastpasta::config::custom_checks::custom_checks_cfg::CustomChecks"
LA = "fastpasta::analyze::validators::its::alpide::lane_alpide_frame_analyzer::LaneAlpideFrameAnalyzer::<'a>::"
TV = "fastpasta::analyze::validators::its::status_word::tdh::TdhValidator::"
CDP = "fastpasta::analyze::validators::its::cdp_running::CdpRunningValidator::<T, C>::"
ORBIT = 3564


# ------------------------------------------------------------------ normal-form parsing
def split_top(s):
    out, depth, cur = [], 0, []
    for ch in s:
        if ch in "([{":
            depth += 1
        elif ch in ")]}":
            depth -= 1
        if ch == "," and depth == 0:
            out.append("".join(cur))
            cur = []
        else:
            cur.append(ch)
    out.append("".join(cur))
    return out


def _whole_call(s):
    """(name, inner) if s is exactly `name(inner)` with balanced parentheses"""
    m = re.match(r"^([A-Za-z_][\w:<>,' ]*?)\(", s)
    if not m or not s.endswith(")"):
        return None
    depth = 0
    for idx in range(m.end() - 1, len(s)):
        if s[idx] in "([{":
            depth += 1
        elif s[idx] in ")]}":
            depth -= 1
            if depth == 0:
                if idx != len(s) - 1:
                    return None
                return m.group(1), s[m.end():-1]
    return None


def parse(s):
    s = s.strip()
    if re.match(r"^0x[0-9a-f]+$", s):
        return ("const", int(s, 16))
    wc = _whole_call(s)
    if wc:
        name, inner = wc
        if name == "sym":
            return parse(inner)
        if name in ("Add", "Sub", "Mul", "BitAnd", "Shr", "Shl", "ite", "Eq", "Ne", "Lt", "Le", "Gt", "Ge", "Not"):
            return (name,) + tuple(parse(a) for a in split_top(inner))
    return ("leaf", s)


def lin(t):
    """linear form {leaf: coeff, 1: const} of an Add/Sub tree, or None"""
    if t[0] == "const":
        return {1: t[1]}
    if t[0] == "leaf":
        return {t[1]: 1}
    if t[0] in ("Add", "Sub"):
        a, b = lin(t[1]), lin(t[2])
        if a is None or b is None:
            return None
        out = dict(a)
        for k, v in b.items():
            out[k] = out.get(k, 0) + (v if t[0] == "Add" else -v)
        return {k: v for k, v in out.items() if v != 0}
    return None


def poly(t):
    """polynomial normal form {monomial (sorted tuple of leaves): coeff} of an Add/Sub/Mul tree over integer leaves
    (widening casts are transparent), or None when the tree contains anything else"""
    if t[0] == "const":
        return {(): t[1]} if t[1] else {}
    if t[0] == "leaf":
        m = re.fullmatch(r"cast\((.*) as (u\d+|usize|i\d+|isize)\)", t[1])
        if m:
            return poly(parse(m.group(1)))
        return {(t[1],): 1}
    if t[0] in ("Add", "Sub"):
        a, b = poly(t[1]), poly(t[2])
        if a is None or b is None:
            return None
        out = dict(a)
        for k, v in b.items():
            out[k] = out.get(k, 0) + (v if t[0] == "Add" else -v)
        return {k: v for k, v in out.items() if v != 0}
    if t[0] == "Mul":
        a, b = poly(t[1]), poly(t[2])
        if a is None or b is None:
            return None
        out = {}
        for k1, v1 in a.items():
            for k2, v2 in b.items():
                k = tuple(sorted(k1 + k2))
                out[k] = out.get(k, 0) + v1 * v2
        return {k: v for k, v in out.items() if v != 0}
    return None


def poly_str(d):
    if d is None:
        return "not a polynomial"
    return " + ".join("%s%s" % (v, "".join("*" + x for x in k)) for k, v in sorted(d.items())) or "0"


def lin_str(d):
    if d is None:
        return "non-linear"
    return " + ".join("%s*%s" % (v, k) for k, v in sorted(d.items(), key=lambda kv: str(kv[0]))) or "0"


# ------------------------------------------------------------------ THIR helpers
def codes_under(facts, tb, i):
    out = set()
    seen = set()
    for x, n in tb.walk(i):
        s = n.get("str")
        if s:
            out.update(codes_in(s))
        sp = n.get("sp")
        if sp and sp.get("mac"):
            key = (sp["f"], sp["l"], sp.get("l2"))
            if key not in seen:
                seen.add(key)
                out.update(codes_in(first_literal(macro_source(facts, sp)) or ""))
    return out


def if_lets_on(tb, callee_suffix):
    """If nodes whose condition is `let PAT = <call to callee>`"""
    out = []
    for x, n in tb.walk():
        if n["k"] != "If":
            continue
        ci, cn = tb.e(n["cond"])
        if cn["k"] != "Let":
            continue
        si, sn = tb.e(cn["e"])
        if sn["k"] == "Call" and (sn.get("res") or sn.get("fn") or "").endswith(callee_suffix):
            out.append((x, n, cn))
    return out


def ifs_of(ev, path, args):
    return [o for o in ev.collect_ifs(path, args) if "cond" in o]


def unordered_cmp(c, op, a, b):
    """cond is `op(a,b)` or `op(b,a)` for a symmetric op, operands given as key substrings/regex"""
    if not (isinstance(c, Cond) and c.op == "cmp" and c.a[0] == op):
        return False
    x, y = vkey(c.a[1]), vkey(c.a[2])
    return (re.fullmatch(a, x) and re.fullmatch(b, y)) or (re.fullmatch(a, y) and re.fullmatch(b, x))


def run(ctx, rep):
    f = ctx.facts()
    ev = Evaluator(f)
    cg = ctx.cg()
    reach = ctx.reachable()

    r201(ctx, rep, f, ev, cg, reach)
    r202(ctx, rep, f, ev, cg, reach)
    r203(ctx, rep, f, ev, cg, reach)
    # the chip-count / chip-order checks of a lane read that lane's decoder state: shares R13.2|decoder|fresh-per-lane of C13
    from . import c13
    c13.fresh_decoder_per_lane(ctx, rep, f, cg)


def _texts(v):
    """templates of the format!-built strings inside an evaluated value (Agg fields, array elements)"""
    from ..thir import Str as _Str, Agg as _Agg
    if isinstance(v, _Str):
        return [v.text] if v.text else []
    if isinstance(v, _Agg):
        return [t for x in v.fields.values() for t in _texts(x)]
    if isinstance(v, tuple):
        return [t for x in v for t in _texts(x)]
    return []


# ------------------------------------------------------------------ R20.1
def r201(ctx, rep, f, ev, cg, reach):
    W = "fastpasta/src/stats/stats_validation.rs"
    # --- cdps / triggers_pht in validate_custom_stats
    path = "fastpasta::stats::stats_validation::validate_custom_stats"
    if path not in f.fns:
        rep.missing("R20.1", path)
        return
    # decided per case — key absent / configured and equal to the observed count / configured and different — with the
    # configuration accessor and the observed-count accessor replaced by the case's values: an error with the key's code
    # is pushed, and Err returned, exactly in the third case (the other key is absent meanwhile)
    from ..thir import Agg as _Agg, Bits as _Bits
    some_ = lambda x: _Agg("core::option::Option", "Some", {"0": x})
    none_ = _Agg("core::option::Option", "None", {})
    table = [("cdps", "E9001", "::rdhs_seen", 32, 64), ("triggers_pht", "E9002", "TriggerStats::pht", 32, 32)]
    verdicts_ok = True
    for key, code, observed_fn, wc, wo in table:
        got = {}
        for case, cfgv, obs in (("absent", none_, 5), ("equal", some_(_Bits.const(5, wc)), 5), ("different", some_(_Bits.const(5, wc)), 6)):
            hooks = [(lambda fn_, r_, key=key: (r_ or fn_).endswith("::" + key) and "CustomChecks" in (r_ or fn_), lambda n, a, cfgv=cfgv: cfgv),
                     (lambda fn_, r_, key=key: any((r_ or fn_).endswith("::" + o_) for o_ in KEYS if o_ != key) and "CustomChecks" in (r_ or fn_), lambda n, a: none_),
                     (lambda fn_, r_, observed_fn=observed_fn: (r_ or fn_).endswith(observed_fn), lambda n, a, obs=obs, wo=wo: _Bits.const(obs, wo))]
            ev.call_hooks = hooks
            ev.watch = lambda c: c.endswith("::push")
            try:
                recs_ = [o for o in ev.collect_ifs(path, [Sym("cfg"), Sym("stats")]) if "call" in o and not o.get("closure") and not any(g in ("false", "not true") for g in o["guard"])]
                und = [g for o in recs_ for g in o["guard"] if g not in ("true", "not false")]
                codes_ = sorted({c_ for o in recs_ for c_ in re.findall(r"\[(E\d+)\]", " ".join(o["args"]))})
                ev.strings = True
                rv_ = ev.call_fn(path, [Sym("cfg"), Sym("stats")])
                r_ = vkey(rv_)
                # messages that reach the result without a push (per-key helpers collected from a list): their templates
                codes_ = sorted(set(codes_) | {c_ for t_ in _texts(rv_) for c_ in re.findall(r"\[(E\d+)\]", t_)})
                got[case] = (codes_, "Err" if r_.startswith("Result::Err(") else ("Ok" if r_.startswith("Result::Ok(") else r_[:60]), bool(und))
            except Unsupported as e:
                got[case] = ("unevaluable: %s" % e,)
            finally:
                ev.call_hooks = []
                ev.watch = None
                ev.strings = False
        want = {"absent": ([], "Ok", False), "equal": ([], "Ok", False), "different": ([code], "Err", False)}
        verdicts_ok = verdicts_ok and all(len(g_) == 3 and g_[1] == want[c_][1] for c_, g_ in got.items())
        rep.check(all(got[c_][:1] == want[c_][:1] and (len(got[c_]) == 3 and not got[c_][2]) for c_ in want), "R20.1", "R20.1|%s|%s" % (key, code),
                  "%s: error %s exactly when the key is configured and the observed count differs" % (key, code), W,
                  "key %s is not enforced as `configured and observed != configured → [%s]`: (codes pushed, verdict, undecided) per case %s, expected %s" % (key, code, got, want))
    # the function returns Err iff something was pushed
    rep.check(verdicts_ok, "R20.1", "R20.1|result|is_empty", "validate_custom_stats returns Err exactly when an error was pushed", W)
    # the result is consumed: every Err string is recorded as an error (for_each closure or loop alike)
    vpath = "fastpasta::stats::stats_collector::StatsCollector::validate_custom_stats"
    okc = False
    det = ""
    if vpath in f.fns:
        ev.watch = lambda c: c.endswith("ErrorStats::add_custom_check_error") or c.endswith("stats_validation::validate_custom_stats") or c.startswith(vpath + "::{closure")
        try:
            recs = ev.collect_ifs(vpath, [Sym("self"), Sym("cfg")])
            extra = []
            for o in recs:
                if o.get("closure"):
                    extra += [dict(x, guard=tuple(o["guard"]) + tuple(x["guard"])) for x in ev.collect_ifs(o["call"], [Sym("env"), Sym("m")]) if "call" in x]
            calls = [o for o in recs + extra if "call" in o and not o.get("closure")]
            vc = [o for o in calls if o["call"].endswith("stats_validation::validate_custom_stats")]
            ac = [o for o in calls if o["call"].endswith("add_custom_check_error")]
            okc = len(vc) == 1 and not vc[0]["guard"] and len(ac) == 1 and any(g.startswith("symc(isErr(") for g in ac[0]["guard"]) \
                and not any(g.startswith("not ") and "isErr(" in g for g in ac[0]["guard"])
            det = "validate calls %d, record calls %s" % (len(vc), [[g[:50] for g in o["guard"]] for o in ac])
        finally:
            ev.watch = None
    rep.check(okc, "R20.1", "R20.1|result|consumed", "StatsCollector::validate_custom_stats records every returned message", "fastpasta/src/stats/stats_collector.rs",
              "the Err(list) of validate_custom_stats is not recorded message by message: %s" % det)
    # caller gate
    cs = [(c, bb) for c, bb, *_ in cg.call_sites(lambda p_: p_ == vpath) if c in reach]
    rep.check(len(cs) == 1 and cs[0][0].endswith("Controller::<C>::run"), "R20.1", "R20.1|caller|run",
              "custom statistics validated once, by Controller::run (%s)" % [c for c, _ in cs], "fastpasta/src/controller.rs")

    # --- chip count / order
    W2 = "fastpasta/src/analyze/validators/its/alpide/lane_alpide_frame_analyzer.rs"
    try:
        new = ev.call_fn(LA + "new", [Sym("layer"), Sym("ORDERS"), Sym("COUNT")])
    except Unsupported as e:
        new = None
    okn = isinstance(new, Agg) and vkey(new.fields.get("valid_chip_order_ob")) == "sym(ORDERS)" and vkey(new.fields.get("valid_chip_count_ob")) == "sym(COUNT)" \
        and vkey(new.fields.get("from_layer")).endswith("Some(0=sym(layer))")
    rep.check(okn, "R20.1", "R20.1|ctor|LaneAlpideFrameAnalyzer::new", "constructor stores order→valid_chip_order_ob, count→valid_chip_count_ob, layer→from_layer", W2,
              "LaneAlpideFrameAnalyzer::new does not store its arguments in the same-named fields: %s" % (vkey(new)[:300] if new is not None else "unevaluable"))
    # construction sites pass the accessors of the same key
    sites = 0
    for caller in sorted(set(c for c, *_ in cg.call_sites(lambda p_: p_ == LA + "new"))):
        if caller not in reach:
            continue
        tbc = ev.tb(caller)
        if tbc is None:
            continue
        for x, n in tbc.calls():
            if (n.get("res") or n.get("fn")) == LA + "new":
                sites += 1
                a1 = _callee_chain(tbc, n["args"][1])
                a2 = _callee_chain(tbc, n["args"][2])
                rep.check(a1 == "chip_orders_ob" and a2 == "chip_count_ob", "R20.1", "R20.1|ctor-site|%s" % caller.split("::")[-1],
                          "%s passes chip_orders_ob()/chip_count_ob() in that order" % caller.split("::")[-1], where(n),
                          "%s constructs the lane analyzer with (%s, %s) instead of (chip_orders_ob(), chip_count_ob())" % (caller, a1, a2))
    rep.floor("R20.1-ctor-sites", sites, 1, "construction sites of LaneAlpideFrameAnalyzer in reachable code")

    ifs = ifs_of(ev, LA + "check_chip_count", [Sym("self")])
    inner = "and[symc(isInner(sym(payload(sym(self.from_layer),Some))));symc(isSome(sym(self.from_layer)))]"
    some = "symc(isSome(sym(self.valid_chip_count_ob)))"
    cm = [o for o in ifs if "valid_chip_count_ob" in ckey(o["cond"]) and ckey(o["cond"]) != some]
    ok = len(cm) == 1 and unordered_cmp(cm[0]["cond"], "Ne", r"sym\(call:alloc::vec::Vec::<T, A>::len\(sym\(self\.chip_data\)\)\)",
                                        r"sym\(cast\(sym\(payload\(sym\(self\.valid_chip_count_ob\),Some\)\) as usize\)\)") \
        and tuple(cm[0]["guard"]) == ("not " + inner, some)
    rep.check(ok, "R20.1", "R20.1|chip_count_ob|compare", "chip_count_ob: `chip_data.len() != configured` on non-inner layers under `if let Some`", W2,
              "chip_count_ob is not enforced by exactly `chip_data.len() != configured` on non-inner layers: %s" % [(ckey(o["cond"])[:200], list(o["guard"])) for o in cm])
    ret_err = _returns_err_under(ev, LA + "check_chip_count", cm[0] if cm else None)
    rep.check(ret_err, "R20.1", "R20.1|chip_count_ob|err", "the mismatch branch returns Err", W2)

    ifs = ifs_of(ev, LA + "check_chip_id_order", [Sym("self")])
    some = "symc(isSome(sym(self.valid_chip_order_ob)))"
    cm = [o for o in ifs if "valid_chip_order_ob" in ckey(o["cond"]) and ckey(o["cond"]) != some]
    ok = False
    detail = [(ckey(o["cond"])[:300], list(o["guard"])) for o in cm]
    if len(cm) == 1:
        k = ckey(cm[0]["cond"])
        m = re.fullmatch(r"symc\(sym\(Not\(sym\(call:core::slice::<impl \[T\]>::contains\(sym\(payload\(sym\(self\.valid_chip_order_ob\),Some\)\),(.*)\)\)\)\)\)", k)
        ok = bool(m) and "self.chip_data" in m.group(1) and "Iterator::map" in m.group(1) and "Iterator::collect" in m.group(1)
        g = cm[0]["guard"]
        ok = ok and len(g) == 3 and g[0] == "symc(isSome(sym(self.from_layer)))" and "isMiddle" in g[1] and "isOuter" in g[1] and "isInner" not in g[1] and g[2] == some
        # the mapped closure projects chip_id
        clo = LA + "check_chip_id_order::{closure#0}"
        try:
            cv = ev.call_closure(("closure", clo, {}), [Sym("cd")], 0)
            ok = ok and vkey(cv) == "sym(cd.chip_id)"
            detail.append("closure→" + vkey(cv))
        except Exception as e:  # noqa
            ok = False
            detail.append("closure unevaluable %r" % (e,))
    rep.check(ok, "R20.1", "R20.1|chip_orders_ob|compare", "chip_orders_ob: `!configured.contains(chip ids in arrival order)` on ML/OL under `if let Some`", W2,
              "chip_orders_ob is not enforced by exactly `!configured.contains(chip_ids)` on middle/outer layers: %s" % detail)
    rep.check(_returns_err_under(ev, LA + "check_chip_id_order", cm[0] if cm else None), "R20.1", "R20.1|chip_orders_ob|err", "the mismatch branch returns Err", W2)
    # the collected id list is not modified between collection and the membership test (MIR: no mutable borrow of the local)
    b = cg.body(LA + "check_chip_id_order")
    coll = [t for bb, t, cal, c in b.calls() if cal and cal.endswith("Iterator::collect")]
    muts = []
    if len(coll) == 1 and not coll[0]["dest"].get("p"):
        loc = coll[0]["dest"]["l"]
        for i, j, st in b.stmts():
            if st["k"] != "assign":
                continue
            rv = st["rv"]
            if rv["k"] in ("ref", "rawptr") and rv["pl"]["l"] == loc and rv.get("bk") not in ("shared", "fake"):
                muts.append("%s borrow at %s" % (rv.get("bk"), where(st.get("sp"))))
            if st["lhs"]["l"] == loc:
                muts.append("reassigned at %s" % where(st.get("sp")))
        rep.check(not muts, "R20.1", "R20.1|chip_orders_ob|ids-unmodified", "chip id list is used as collected (arrival order), never mutated", W2,
                  "the collected chip id list is modified before the membership test: %s" % muts)
    else:
        rep.bad("R20.1", "R20.1|chip_orders_ob|ids-unmodified", "expected exactly one collect() into a local in check_chip_id_order, found %d" % len(coll), W2)

    # codes at the single caller: E9004 on Err(count), else E9005 on Err(order)
    # decided for the 8 outcome combinations of the three lane checks (each replaced by Ok / Err)
    from .c13 import lane_check_codes
    dl = LA + "do_lane_alpide_checks"
    tab = lane_check_codes(ev, f)
    wrong = {}
    for (bc, cnt, order), codes_ in tab.items():
        want = ([] if cnt else ["E9004"]) + (["E9005"] if cnt and not order else [])
        if isinstance(codes_, str) or [c_ for c_ in codes_ if c_ in ("E9004", "E9005")] != want:
            wrong[(bc, cnt, order)] = codes_
    okc = bool(tab) and not wrong
    msg = "codes per (bunch counters ok, chip count ok, chip order ok) that deviate: %s" % wrong
    rep.check(okc, "R20.1", "R20.1|chip|codes", "Err(count) → [E9004]; otherwise Err(order) → [E9005] (%s)" % msg, W2,
              "do_lane_alpide_checks does not map Err(check_chip_count) to [E9004] and, only otherwise, Err(check_chip_id_order) to [E9005]: %s" % msg)
    for fn_, nm in ((LA + "check_chip_count", "count"), (LA + "check_chip_id_order", "order")):
        cs = sorted(set(c for c, *_ in cg.call_sites(lambda p_, fn_=fn_: p_ == fn_) if c in reach))
        rep.check(cs == [dl], "R20.1", "R20.1|chip|single-caller-%s" % nm, "%s has the single caller do_lane_alpide_checks" % fn_.split("::")[-1], W2,
                  "callers of %s: %s" % (fn_, cs))

    # --- rdh_version → header id reference of the RDH0 validator (per configuration, see C10 validator_configs)
    W3 = "fastpasta/src/analyze/validators/rdh.rs"
    from .c10 import validator_configs
    rows, problems = validator_configs(ctx)
    for pr in problems:
        rep.bad("R20.1", "R20.1|rdh_version|anchor", pr, W3)
    bad = []
    for conds, header, system in rows:
        want = "Some(rdh_version)" if conds.get("custom") and conds.get("version") else "None"
        if header != want:
            bad.append("%s → header-id reference %s (expected %s)" % (conds, header, want))
    rep.check(not bad and len(rows) >= 4, "R20.1", "R20.1|rdh_version|reference",
              "the RDH0 validator's header-id reference is Some(configured rdh_version) exactly when custom checks are enabled and the key is set — for every target (%d configurations)" % len(rows), W3,
              "the configured rdh_version does not become the validator's header-id reference in every configuration: %s" % bad)
    rep.note("rdh_version: the comparison `rdh0.header_id != reference → [E10]` is part of the C10 predicate table (R10.1b)")


def _peel(tb, i):
    i, n = tb.e(i)
    while n["k"] in ("Borrow", "Deref", "Cast") and "e" in n:
        i, n = tb.e(n["e"])
    return n


def _first_bind(pat):
    if pat["k"] == "Bind":
        return pat["id"]
    for s in pat.get("subs", []):
        r = _first_bind(s["p"])
        if r is not None:
            return r
    if pat.get("sub"):
        return _first_bind(pat["sub"])
    return None


def _is_err_pat(pat):
    return pat["k"] == "Variant" and pat.get("vname") == "Err"


def _callee_chain(tb, i):
    n = _peel(tb, i)
    if n["k"] == "Call":
        return (n.get("fn") or "").split("::")[-1]
    return n["k"]


def _returns_err_under(ev, path, entry):
    """the then-branch of the If contains `return Err(..)`"""
    if entry is None:
        return False
    tb = entry["tb"]
    then = tb.exprs[entry["node"]]["then"]
    for x, n in tb.walk(then):
        if n["k"] == "Return" and n.get("e") is not None:
            r = _peel(tb, n["e"])
            if (r["k"] == "Adt" and r.get("vname") == "Err") or (r["k"] == "Call" and (r.get("fn") or "").endswith("Result::Err")):
                return True
    return False


# ------------------------------------------------------------------ R20.2
def r202(ctx, rep, f, ev, cg, reach):
    W = "fastpasta/src/config.rs"
    # accessors of Cfg: None unless checks_toml given, else same-named field of the parsed file
    for key in KEYS:
        p = CFGIMPL + key
        if p not in f.fns:
            rep.missing("R20.2", p)
            continue
        # decided on the two cases of the option: evaluated with checks_toml = None and = Some(path), the parsed file
        # (the OnceLock's content) being a CustomChecks whose fields are distinct symbols
        from ..thir import Agg as _Agg
        parsed = _Agg(CC, "CustomChecks", {o: Sym("FIELD_%s" % o) for o in KEYS})
        ev.call_hooks = [(lambda fn, res: fn.endswith("OnceLock::<T>::get"), lambda n, a: _Agg("core::option::Option", "Some", {"0": parsed}))]
        res = {}
        try:
            for case, ct in (("none", _Agg("core::option::Option", "None", {})), ("some", _Agg("core::option::Option", "Some", {"0": Sym("PATH")}))):
                try:
                    res[case] = vkey(ev.call_fn(p, [_Agg("fastpasta::config::Cfg", "Cfg", {"checks_toml": ct})]))
                except Unsupported as e:
                    res[case] = "unevaluable: %s" % e
        finally:
            ev.call_hooks = []
        k = "without checks file: %s; with: %s" % (res["none"], res["some"])
        ok = res["none"] == "Option::None()" and ("FIELD_%s" % key) in res["some"] and not any(("FIELD_%s" % o) in res["some"] for o in KEYS if o != key) \
            and "unevaluable" not in res["some"] and "ite(" not in res["some"]
        rep.check(ok, "R20.2", "R20.2|accessor|Cfg::%s" % key, "Cfg::%s = checks_toml.is_some() ? CUSTOM_CHECKS.%s : None" % (key, key), W,
                  "Cfg::%s is not `None unless a checks file was given, else the parsed file's %s`: %s" % (key, key, k[:300]))
    # custom_checks_enabled: is_some_and(|c| *c != default)
    p = CFGIMPL + "custom_checks_enabled"
    ok = False
    k = ""
    tb = ev.tb(p)
    clo = ev.tb(p + "::{closure#0}")
    if tb is not None and clo is not None:
        callees = [(n.get("fn") or "") for _, n in tb.calls()]
        ccal = [(n.get("res") or n.get("fn") or "") for _, n in clo.calls()]
        ok = any(c.endswith("Option::<T>::is_some_and") for c in callees) and any(c.endswith("::custom_checks") for c in callees) \
            and any(c.endswith("PartialEq>::ne") or c.endswith("PartialEq::ne") for c in ccal) and any("Default" in c and c.endswith("::default") for c in ccal)
        k = "%s / %s" % ([c.split("::")[-1] for c in callees], [c.split("::")[-1] for c in ccal])
    rep.check(ok, "R20.2", "R20.2|enabled|Cfg", "custom_checks_enabled = custom_checks().is_some_and(|c| *c != default) (%s)" % k, W,
              "custom_checks_enabled is not `file present and != CustomChecks::default()`: %s" % k)
    # struct shape: all Option fields, derived Default/PartialEq, serde names = keys
    adt = f.adts.get(CC)
    if not adt:
        rep.missing("R20.2", CC)
    else:
        flds = adt["variants"][0]["fields"]
        names = [fd["name"] for fd in flds]
        rep.check(sorted(names) == sorted(KEYS), "R20.2", "R20.2|struct|fields", "CustomChecks fields = the five documented keys", "fastpasta/src/config/custom_checks/custom_checks_cfg.rs",
                  "CustomChecks fields %s differ from the documented keys %s" % (names, KEYS))
        nonopt = [fd["name"] for fd in flds if not fd["ty"]["s"].startswith("core::option::Option<")]
        rep.check(not nonopt, "R20.2", "R20.2|struct|all-option", "every key is an Option (absent key = None)", "fastpasta/src/config/custom_checks/custom_checks_cfg.rs",
                  "fields %s are not Option: an absent key would carry a value" % nonopt)
        for tr in ("core::default::Default", "core::cmp::PartialEq"):
            d = [p_ for p_, fn in f.fns.items() if p_.startswith("<%s as %s>::" % (CC, tr))]
            der = d and all(f.fns[p_].get("derived") for p_ in d)
            rep.check(bool(der), "R20.2", "R20.2|struct|derived-%s" % tr.split("::")[-1], "%s is derived for CustomChecks (field-wise)" % tr.split("::")[-1],
                      "fastpasta/src/config/custom_checks/custom_checks_cfg.rs", "%s for CustomChecks is hand-written: %s" % (tr, d))
        # inherent accessors return their own field
        for key in KEYS:
            p = CC + "::" + key
            try:
                v = vkey(ev.call_fn(p, [Sym("cc")]))
            except Unsupported as e:
                v = "unevaluable %s" % e
            ok = bool(re.search(r"\bcc\.%s\b" % key, v)) and not any(re.search(r"\bcc\.%s\b" % o, v) for o in KEYS if o != key)
            rep.check(ok, "R20.2", "R20.2|accessor|CustomChecks::%s" % key, "CustomChecks::%s returns its own field" % key, "fastpasta/src/config/custom_checks/custom_checks_cfg.rs",
                      "CustomChecks::%s returns %s" % (key, v[:200]))
        # serde: deserialised names
        names_serde = _serde_names(f, CC)
        if names_serde is not None:
            rep.check(sorted(names_serde) == sorted(KEYS), "R20.2", "R20.2|serde|names", "TOML key names = %s" % sorted(names_serde), "fastpasta/src/config/custom_checks/custom_checks_cfg.rs",
                      "TOML key names %s differ from the documented keys" % sorted(names_serde))
        else:
            rep.missing("R20.2", "serde field names of CustomChecks")
    # forwarding impls forward to the same method
    fw = 0
    for p, fn in sorted(f.fns.items()):
        m = re.match(r"^<(&T|alloc::boxed::Box<T>|alloc::sync::Arc<T>) as fastpasta::config::(custom_checks::CustomChecksOpt|check::ChecksOpt)>::(\w+)$", p)
        if not m or not fn.get("thir"):
            continue
        meth = m.group(3)
        tb = ev.tb(p)
        cs = [(n.get("fn") or "") for _, n in tb.calls()]
        own = [c for c in cs if c.startswith("fastpasta::config::")]
        fw += 1
        rep.check(len(own) == 1 and own[0].endswith("::" + meth), "R20.2", "R20.2|forward|%s|%s" % (m.group(1), meth), "forwarding impl %s::%s forwards to %s" % (m.group(1), meth, meth),
                  where(fn), "forwarding impl %s calls %s" % (p, own))
    rep.floor("R20.2-forwarders", fw, 3 * 9, "forwarding impl methods of CustomChecksOpt/ChecksOpt for &T, Box<T>, Arc<T>")
    # accessor call sites = consumers
    # consumers are named by module, not by function: splitting or renaming a consumer is not a change of behaviour
    allowed = {
        "cdps": "fastpasta::stats::stats_validation::",
        "triggers_pht": "fastpasta::stats::stats_validation::",
        "rdh_version": "fastpasta::analyze::validators::rdh::",
        "chip_orders_ob": "fastpasta::analyze::validators::its::alpide",
        "chip_count_ob": "fastpasta::analyze::validators::its::alpide",
    }
    for key in KEYS:
        users = set()
        for p in sorted(reach):
            fn = f.fns.get(p)
            if not fn or not fn.get("thir") or " as fastpasta::config::custom_checks::CustomChecksOpt>" in p:
                continue
            tb = ev.tb(p)
            if tb is None:
                continue
            for _, n in tb.calls():
                if (n.get("fn") or "") == OPT + key:
                    users.add(re.sub(r"(::\{closure#\d+\})+$", "", p))
        rep.check(bool(users) and all(u.startswith(allowed[key]) for u in users), "R20.2", "R20.2|consumers|%s" % key, "%s is read only inside %s (%s)" % (key, allowed[key], sorted(x.split("::")[-1] for x in users)), W,
                  "key %s is consumed by %s, expected only consumers inside %s" % (key, sorted(users), allowed[key]))


def _serde_names(f, adt):
    """field names accepted by the derived Deserialize (its FIELDS const)"""
    from ..thir import TB
    fconst = [k for k in f.consts if k.endswith("<impl serde::de::Deserialize<'de> for %s>::deserialize::FIELDS" % adt)]
    if not fconst:
        return None
    ct = TB(f.consts[fconst[0]], fconst[0])
    return [n["str"] for n in ct.exprs if n["k"] == "Lit" and "str" in n] if ct.ok else None


# ------------------------------------------------------------------ R20.3
def r203(ctx, rep, f, ev, cg, reach):
    W = "fastpasta/src/analyze/validators/its/status_word/tdh.rs"
    mt = TV + "matches_trigger_interval"
    if mt not in f.fns:
        rep.missing("R20.3", mt)
        return
    v = ev.call_fn(mt, [Sym("CUR"), Sym("PREV"), Sym("P")])
    t = parse(vkey(v))
    ok = False
    msg = vkey(v)[:300]
    # ite(Eq(D,P), Ok, Err(D))
    if t[0] == "ite" and t[1][0] == "Eq" and t[2] == ("leaf", "Result::Ok(0=())"):
        d, pp = t[1][1], t[1][2]
        if d == ("leaf", "sym(P)") or d == ("leaf", "P"):
            d, pp = pp, d
        okp = pp in (("leaf", "P"),)
        errd = t[3]
        okerr = errd[0] == "leaf" and errd[1].startswith("Result::Err(0=") and parse(errd[1][len("Result::Err(0="):-1]) == d
        if d[0] == "ite" and d[1][0] in ("Lt", "Gt", "Le", "Ge"):
            op, a, b = d[1]
            la, lb = lin(a), lin(b)
            # condition as sign of (CUR - PREV)
            diff = None
            if la is not None and lb is not None:
                diff = {k: la.get(k, 0) - lb.get(k, 0) for k in set(la) | set(lb)}
                diff = {k: v_ for k, v_ in diff.items() if v_}
            cur_lt_prev = None
            if diff == {"CUR": 1, "PREV": -1}:
                cur_lt_prev = {"Lt": True, "Ge": False}.get(op)
            elif diff == {"CUR": -1, "PREV": 1}:
                cur_lt_prev = {"Gt": True, "Le": False}.get(op)
            wrap, nowrap = (d[2], d[3]) if cur_lt_prev else (d[3], d[2])
            lw, ln_ = lin(wrap), lin(nowrap)
            ok = cur_lt_prev is not None and lw == {"CUR": 1, "PREV": -1, 1: ORBIT} and ln_ == {"CUR": 1, "PREV": -1} and okp and okerr
            msg = "cur<prev: %s ; otherwise: %s ; compared == P: %s ; Err carries the detected period: %s" % (lin_str(lw), lin_str(ln_), okp, okerr)
    rep.check(ok, "R20.3", "R20.3|formula|matches_trigger_interval", "detected period = cur - prev (+%d iff cur < prev); Ok iff == P (%s)" % (ORBIT, msg), W,
              "matches_trigger_interval is not `(cur < prev ? cur - prev + %d : cur - prev) == P`: %s" % (ORBIT, msg))

    # check_trigger_interval passes (tdh.bc, prev.bc, P) and maps Err to [E45]
    ct = TV + "check_trigger_interval"
    ok = False
    msg = ""
    if ct in f.fns:
        # evaluated with the period comparison replaced by each of its two outcomes: the arguments it receives are
        # recorded, Ok must stay Ok and Err must become an Err (carrying the [E45] text) — whatever the control structure
        from ..thir import Agg as _Agg
        from ..emit import all_code_literals
        exp = ["sym(BitAnd(sym(T.trigger_bc_reserved1),0xfff))", "sym(BitAnd(sym(Q.trigger_bc_reserved1),0xfff))", "sym(P)"]
        outcome, seen_args = {}, []
        for case, val in (("ok", _Agg("core::result::Result", "Ok", {"0": ()})), ("err", _Agg("core::result::Result", "Err", {"0": Sym("DETECTED")}))):
            ev.call_hooks = [(lambda fn, res: (res or fn) == mt, lambda n, a, val=val: (seen_args.append([vkey(x) for x in a]), val)[1])]
            try:
                outcome[case] = vkey(ev.call_fn(ct, [Sym("T"), Sym("Q"), Sym("P")]))
            except Unsupported as e:
                outcome[case] = "unevaluable %s" % e
            finally:
                ev.call_hooks = []
        codes = sorted({c_ for c_, fn_, w_ in all_code_literals(f, [q for q in f.fns if q == ct or q.startswith(ct + "::{closure")])})
        ok = seen_args == [exp, exp] and outcome["ok"] == "Result::Ok(0=())" and outcome["err"].startswith("Result::Err(0=") and "DETECTED" in outcome["err"] and codes == ["E45"]
        msg = "args=%s codes=%s ok→%s err→%s" % (seen_args[:1], codes, outcome["ok"][:40], outcome["err"][:40])
    rep.check(ok, "R20.3", "R20.3|args|check_trigger_interval", "period computed from (current.trigger_bc, previous.trigger_bc, P), 12-bit fields; Err → [E45] (%s)" % msg[:200], W,
              "check_trigger_interval does not call matches_trigger_interval(tdh.trigger_bc(), prev.trigger_bc(), period) and map Err to [E45]: %s" % msg)
    cs = sorted(set(c for c, *_ in cg.call_sites(lambda p_: p_ == mt) if c in reach))
    rep.check(cs == [ct], "R20.3", "R20.3|single-caller|matches_trigger_interval", "single caller check_trigger_interval", W, "callers: %s" % cs)

    # the running validator: guards and operands (if-let nesting, let-else and early returns are equivalent here)
    W2 = "fastpasta/src/analyze/validators/its/cdp_running.rs"
    ci = CDP + "check_tdh_trigger_interval"
    ok = False
    msg = ""
    if ci in f.fns:
        from ..thir import canon_guard
        ev.watch = lambda c: c == ct or c.endswith("Sender::<T>::send")
        ev.bitfields = True   # TDH flag word as named bits: internal_trigger is bit 12 however it is masked / shifted
        try:
            recs = ev.collect_ifs(ci, [Sym("self"), Sym("sl")])
        finally:
            ev.watch = None
            ev.bitfields = False
        per = "sym(call:fastpasta::config::check::ChecksOpt::check_its_trigger_period(sym(self.config)))"
        g1 = "symc(isSome(%s))" % per
        g2 = "symc(isSome(sym(self.status_words.tdhs.previous_tdh_with_internal_set)))"
        g3 = "any(unwrap(sym(self.status_words.tdhs.current_tdh)).trigger_type_internal_trigger_no_data_continuation_reserved2[12])"
        calls = [o for o in recs if "call" in o and o["call"] == ct]
        sends = [o for o in recs if "call" in o and o["call"].endswith("::send")]
        exp = ["sym(unwrap(sym(self.status_words.tdhs.current_tdh)))", "sym(payload(sym(self.status_words.tdhs.previous_tdh_with_internal_set),Some))",
               "sym(payload(%s,Some))" % per]
        if len(calls) == 1:
            guard = sorted(set(canon_guard(g) for g in calls[0]["guard"]))
            ok = guard == sorted([g1, g2, g3]) and calls[0]["args"] == exp
            sg = [set(canon_guard(g) for g in o["guard"]) for o in sends]
            ok = ok and len(sends) == 1 and {g1, g2, g3} <= sg[0] and any(g.startswith("symc(isErr(") for g in sg[0]) \
                and sends[0]["args"][1].startswith("StatType::Error(")
            msg = "guard=%s args=%s sends=%d" % ([g[:60] for g in guard], [a[:70] for a in calls[0]["args"]], len(sends))
        else:
            msg = "call sites of check_trigger_interval: %d" % len(calls)
    rep.check(ok, "R20.3", "R20.3|guards|check_tdh_trigger_interval",
              "checked iff period configured ∧ a previous internal-trigger TDH exists ∧ current TDH has internal trigger; operands (current, previous-internal, P); Err → StatType::Error (%s)" % msg[:300], W2,
              "check_tdh_trigger_interval deviates from `period set ∧ previous internal TDH ∧ current internal → compare(current, previous internal, period) → report Err`: %s" % msg)

    # call sites: exactly the TDH and TDH_after_packet_done arms, under running checks, after the word was stored
    host = None
    for c, *_ in cg.call_sites(lambda p_: p_ == ci):
        if c in reach:
            host = c if host in (None, c) else "multiple"
    arms_with = {}
    if host and host != "multiple":
        tbh = ev.tb(host)
        for x, n in tbh.walk():
            if n["k"] != "Match":
                continue
            for a in n["arms"]:
                arm = tbh.arms[a]
                names = _variant_names(arm["pat"])
                if not names or not any(v in ("TDH", "TDH_after_packet_done", "TDH_continuation") for v in names):
                    continue
                calls = [(y, (c.get("res") or c.get("fn") or "")) for y, c in tbh.calls(arm["body"])]
                has = [y for y, c in calls if c == ci]
                if has:
                    pre = [y for y, c in calls if c.endswith("::preprocess_status_word") or c.endswith("::preprocess_tdh")]
                    # enclosing If on running_checks_enabled
                    gated = False
                    for y, m_ in tbh.walk(arm["body"]):
                        if m_["k"] == "If" and any(z == has[0] for z, _ in tbh.walk(m_["then"])):
                            cn_ = _peel(tbh, m_["cond"])
                            if cn_["k"] == "Field" and cn_.get("name") == "running_checks_enabled":
                                gated = True
                    order_ok = bool(pre) and _source_before(tbh, pre[0], has[0])
                    arms_with["|".join(sorted(names))] = (gated, order_ok)
    exp_arms = {"TDH", "TDH_after_packet_done"}
    ok = set(arms_with) == exp_arms and all(g and o for g, o in arms_with.values())
    rep.check(ok, "R20.3", "R20.3|arms|%s" % (host.split("::")[-1] if host else "?"),
              "period check on arms %s only, under running_checks_enabled, after the TDH was stored" % sorted(arms_with), W2,
              "the period check is applied on arms %s (gated, after-store) — expected exactly TDH and TDH_after_packet_done, gated by running_checks_enabled after preprocess_status_word" % arms_with)

    # reference update
    W3 = "fastpasta/src/analyze/validators/its/status_word/util.rs"
    rp = "fastpasta::analyze::validators::its::status_word::util::TdhBuffer::replace"
    # decided per content of the buffer (no current TDH / a current TDH `OLD`): what the three slots hold afterwards
    TBUF = rp.rsplit("::", 1)[0]
    BIT = "any(OLD.trigger_type_internal_trigger_no_data_continuation_reserved2[12])"
    OPT = "core::option::Option"
    final = {}
    ev.bitfields = True
    ev.watch = lambda c: c.startswith("core::option::Option::<T>::replace")
    try:
        for case, cur in (("empty", Agg(OPT, "None", {})), ("holds", Agg(OPT, "Some", {"0": Sym("OLD")}))):
            slots = {"current_tdh": [], "previous_tdh": [], "previous_tdh_with_internal_set": []}
            try:
                slf = Agg(TBUF, "TdhBuffer", {"current_tdh": cur, "previous_tdh": Sym("PRV"), "previous_tdh_with_internal_set": Sym("REF")})
                for o in (ev.collect_ifs(rp, [slf, Sym("tdh")], follow=lambda c: c.startswith(TBUF + "::")) if rp in f.fns else []):
                    g = tuple(x for x in o.get("guard", ()) if x not in ("true", "not false"))
                    if any(x in ("false", "not true") for x in g):
                        continue
                    if "assign" in o and (o.get("place") or "").startswith("self."):
                        slots.setdefault(o["place"][5:], []).append((o["assign"][2], g))
                    elif "call" in o and o["args"][0] == vkey(cur):
                        slots["current_tdh"].append(("Option::Some(0=%s)" % o["args"][1], g))
            except Unsupported as e:
                slots = {"?": [(str(e), ())]}
            final[case] = slots
    finally:
        ev.bitfields = False
        ev.watch = None
    want = {"empty": {"current_tdh": [("Option::Some(0=sym(tdh))", ())], "previous_tdh": [("Option::None()", ())], "previous_tdh_with_internal_set": []},
            "holds": {"current_tdh": [("Option::Some(0=sym(tdh))", ())], "previous_tdh": [("Option::Some(0=sym(OLD))", ())],
                      "previous_tdh_with_internal_set": [("Option::Some(0=sym(OLD))", (BIT,))]}}
    rep.check(final == want, "R20.3", "R20.3|reference|TdhBuffer::replace", "reference := outgoing current TDH iff it had the internal-trigger bit; current := new TDH; previous := outgoing", W3,
              "TdhBuffer::replace does not set previous_tdh_with_internal_set to the outgoing TDH exactly when its internal_trigger bit is 1 (stores per case: %s, expected %s)" % (final, want))
    # writers of the reference field
    writers = set()
    for p in sorted(reach):
        fn = f.fns.get(p)
        if not fn or not fn.get("thir"):
            continue
        tb = ev.tb(p)
        if tb is None:
            continue
        for x, n in tb.walk():
            if n["k"] in ("Assign", "AssignOp"):
                ln = tb.e(n["l"])[1]
                if ln["k"] == "Field" and ln.get("name") == "previous_tdh_with_internal_set":
                    writers.add(p)
    rep.check(writers == {rp}, "R20.3", "R20.3|reference|writers", "only TdhBuffer::replace writes the reference", W3, "writers of previous_tdh_with_internal_set: %s" % sorted(writers))
    # the accessor chain returns that field
    try:
        acc = vkey(ev.call_fn("fastpasta::analyze::validators::its::status_word::util::StatusWordContainer::tdh_previous_with_internal_trg", [Sym("sw")]))
    except Unsupported as e:
        acc = "unevaluable %s" % e
    rep.check("sw.tdhs.previous_tdh_with_internal_set" in acc and "current_tdh" not in acc, "R20.3", "R20.3|reference|accessor",
              "tdh_previous_with_internal_trg() reads the reference field", W3, "tdh_previous_with_internal_trg returns %s" % acc[:200])
    # Cfg accessor of the period
    p = "<fastpasta::config::Cfg as fastpasta::config::check::ChecksOpt>::check_its_trigger_period"
    try:
        acc = vkey(ev.call_fn(p, [Sym("cfg")]))
    except Unsupported as e:
        acc = "unevaluable %s" % e
    rep.check(acc == "sym(cfg.its_trigger_period)", "R20.3", "R20.3|accessor|Cfg::check_its_trigger_period", "period accessor returns the parsed option", "fastpasta/src/config.rs",
              "check_its_trigger_period returns %s" % acc[:200])


def _variant_names(pat):
    if pat["k"] == "Variant" and (pat.get("adt") or "").endswith("result::Result") and len(pat.get("subs", [])) == 1:
        return _variant_names(pat["subs"][0]["p"])      # `Ok(Word::X)` / `Err(Ambiguous::Y)`: the inner variant
    if pat["k"] == "Variant":
        return [pat.get("vname")]
    if pat["k"] == "Or":
        out = []
        for p in pat["pats"]:
            out += _variant_names(p)
        return out
    if pat["k"] in ("Deref",) and pat.get("sub"):
        return _variant_names(pat["sub"])
    return []


def _source_before(tb, a, b):
    for x, _ in tb.walk():
        if x == a:
            return True
        if x == b:
            return False
    return False


def _eval_args_at(ev, tb, if_node, cn, args, path):
    """evaluate the arguments of the call scrutinised by the if-let, with the let-bindings of enclosing scopes"""
    found = {}

    class Stop(Exception):
        pass

    orig = ev._collect

    def hook(tb_, i, env, depth, follow, out, guard, p):
        j, n = tb_.e(i)
        if j == if_node and tb_ is tb:
            call = tb_.e(cn["e"])[1]
            try:
                found["args"] = [vkey(ev.eval(tb_, a, env, depth)) for a in call["args"]]
            except Unsupported as e:
                found["args"] = ["unevaluable %s" % e]
            raise Stop()
        return orig(tb_, i, env, depth, follow, out, guard, p)

    ev._collect = hook
    try:
        # make sure the evaluator uses this very TB instance
        ev._tbs = getattr(ev, "_tbs", {})
        try:
            env = {}
            for p_, a in zip(tb.params, args):
                ev.bind(p_.get("pat"), a, env)
            hook(tb, tb.root, env, 0, None, [], (), path)
        except Stop:
            pass
    finally:
        ev._collect = orig
    return found.get("args")
