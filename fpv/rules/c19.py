"""C19 — views show exactly what is in the data (sibling agreement and decoder tables).

Decided:
R19.1 one row per element: each view loops over every (rdh, payload, offset)
      of the batch without skipping adaptors; the ITS views print the RDH row,
      cut the payload with the checker's own preprocess_payload and hand bytes
      [..10] of every chunk, with the offset computed from (index, data format,
      packet offset), to the word printer; the data view differs only in
      showing data words.
R19.2 the word offset formula idx*(10 + (format==0 ? 6 : 0)) + packet offset
      + 64 (linear normal form; sibling of the checker's formula, C07 R7.3);
      rows print that offset / the packet's own offset in upper hex.
R19.3 the word type shown is ItsPayloadWord::from_id(byte 9): its 256-entry
      table equals the documented identifier sets (the checker's FSM is held
      to the same sets by C09 R9.2); every simple type has a row, data words
      only in the data view; the raw-byte dump prints bytes 0..9 in order.
R19.4 attribute decoders read the documented bits (normal forms over the 80
      wire bits / the RDH layout): TDH trigger kind cascade, continuation,
      no-data, orbit/BC fields; TDT packet status; TDT/DDW0 lane fault masks
      and cascade; RDH trigger-type cascade; detector-field lane status.
R19.5 styled = unstyled: for every `if disable_styled_view` the two branches
      print the same literal text (whitespace collapsed) and the same runtime
      arguments with the same format specs in the same order, after peeling
      colour/style wrappers; likewise Display vs to_styled_row_view of the
      RDH and its sub-words.
Not decided: rendered layout (column widths, colours) and terminal behaviour."""
import re

from ..thir import Evaluator, Bits, Sym, Slice, Obj, Agg, Cond, ckey, vkey, Unsupported
from ..mir import show_origin, origin_calls, Body, inline_fn
from ..emit import format_sites, macro_source
from .c20 import parse, lin, lin_str

EXPLANATION = __doc__

V = "fastpasta::analyze::view::"
IRF = V + "its_readout_frame::"
U = "fastpasta::words::its::status_words::util::"
RC = "alice_protocol_reader::rdh::rdh_cru::RdhCru"
STYLE_PEEL = ("OwoColorize::", "::to_styled_row_view", "ToString>::to_string", "ToString::to_string", "hint::must_use", "Styled::", "owo_colors::")


# ------------------------------------------------------------------ format signatures
PH = re.compile(r"\{\{|\}\}|\{([^{}:]*)(?::([^{}]*))?\}")


def parse_template(t):
    """→ list of ('lit', text) | ('ph', name, spec)"""
    out = []
    pos = 0
    auto = 0
    for m in PH.finditer(t):
        if m.start() > pos:
            out.append(("lit", t[pos:m.start()]))
        pos = m.end()
        if m.group(0) == "{{":
            out.append(("lit", "{"))
        elif m.group(0) == "}}":
            out.append(("lit", "}"))
        else:
            name = (m.group(1) or "").strip()
            if name == "":
                name = "#%d" % auto
                auto += 1
            elif name.isdigit():
                name = "#%s" % name
            out.append(("ph", name, m.group(2) or ""))
    if pos < len(t):
        out.append(("lit", t[pos:]))
    return out


STR = re.compile(r'"((?:[^"\\]|\\.)*)"', re.S)


def _split_args(text, start):
    """top-level comma separated entries of a macro invocation, from `start` up to the closing delimiter"""
    out, cur, depth, i, n = [], [], 0, start, len(text)
    while i < n:
        ch = text[i]
        if ch == '"':
            m = STR.match(text, i)
            if m:
                cur.append(m.group(0))
                i = m.end()
                continue
        if ch in "([{":
            depth += 1
        elif ch in ")]}":
            if depth == 0:
                break
            depth -= 1
        if ch == "," and depth == 0:
            out.append("".join(cur).strip())
            cur = []
        else:
            cur.append(ch)
        i += 1
    last = "".join(cur).strip()
    if last:
        out.append(last)
    return out


def macro_items(text, scope=""):
    """template items of a format macro invocation with nested `format_args!(..)` arguments
    flattened the way rustc does (only through placeholders without format options)."""
    m = STR.search(text)
    if not m:
        return None
    tmpl = re.sub(r"\\\n\s*", "", m.group(1))
    entries = _split_args(text, m.end())
    if entries and entries[0] == "":
        entries = entries[1:]
    named, positional = {}, []
    for e in entries:
        mm = re.match(r"^([A-Za-z_]\w*)\s*=(?!=)\s*(.*)$", e, re.S)
        if mm:
            named[mm.group(1)] = mm.group(2).strip()
        else:
            positional.append(e)
    items = []
    for it in parse_template(tmpl):
        if it[0] == "lit":
            items.append(it)
            continue
        _, name, spec = it
        expr = None
        if name.startswith("#"):
            idx = int(name[1:])
            expr = positional[idx] if idx < len(positional) else None
        else:
            expr = named.get(name)
        if expr is not None and spec.strip() == "":
            mm = re.match(r"^(?:\$crate::|core::|std::)?format_args!\s*\((.*)\)$", expr, re.S)
            if mm:
                inner = macro_items(mm.group(1), scope + name + "/")
                if inner is not None:
                    items.extend(inner)
                    continue
        items.append(("ph", scope + name, spec))
    return items


def spec_trait(spec):
    s = spec.rstrip()
    if s.endswith("x?") or s.endswith("X?") or s.endswith("?"):
        return "debug"
    if s.endswith("X"):
        return "upper_hex"
    if s.endswith("x"):
        return "lower_hex"
    if s.endswith("b"):
        return "binary"
    if s.endswith("o"):
        return "octal"
    if s.endswith("e"):
        return "lower_exp"
    return "display"


def peel(o):
    """strip references and style/colour wrappers from an origin tree"""
    while isinstance(o, tuple) and o:
        if o[0] == "ref":
            o = o[1]
            continue
        if o[0] == "proj" and o[2] == ("*",):
            o = o[1]
            continue
        if o[0] == "call" and o[1] and any(s in o[1] for s in STYLE_PEEL) and o[2]:
            o = o[2][0]
            continue
        break
    return o


class Sigs:
    def __init__(self, facts, body):
        self.facts = facts
        self.sites = format_sites(facts, body)
        self.by_bb = {s["bb"]: s for s in self.sites}
        self.nested = set()
        self.body = body
        self.problems = []
        self._sig = {}
        for s in self.sites:
            self.sig(s)

    def nested_site(self, o):
        """the format site that produces origin o (format!/format_args! result), if any"""
        o = peel(o)
        if isinstance(o, tuple) and o and o[0] == "call" and o[1]:
            if o[1].startswith("core::fmt::Arguments::<'a>::new"):
                return self.by_bb.get(o[3])
            if o[1].endswith("fmt::format") and o[2]:
                return self.nested_site(o[2][0])
        return None

    def sig(self, site):
        if site["bb"] in self._sig:
            return self._sig[site["bb"]]
        toks = []
        items = macro_items(macro_source(self.facts, site["sp"])) if site.get("sp") else None
        if items is None:
            self.problems.append("no template literal recovered for the format at bb%d" % site["bb"])
            items = []
        argmap = {}
        for it in items:
            if it[0] == "lit":
                toks.append(("lit", it[1]))
                continue
            _, name, spec = it
            if "$" in spec:
                self.problems.append("width/precision argument in {%s:%s} is not modelled" % (name, spec))
            key = (name, spec_trait(spec))
            if key not in argmap:
                argmap[key] = len(argmap)
            idx = argmap[key]
            if idx >= len(site["args"]):
                self.problems.append("placeholder {%s:%s} has no argument in the lowered array (bb%d)" % (name, spec, site["bb"]))
                continue
            kind, o = site["args"][idx]
            ns = self.nested_site(o)
            if ns is not None and ns is not site:
                self.nested.add(ns["bb"])
                inner = self.sig(ns)
                if spec.strip() == "":
                    toks.extend(inner)
                else:
                    toks.append(("arg", spec.strip(), "fmt[%s]" % render(inner)))
            else:
                toks.append(("arg", spec.strip(), show_origin(peel(o))))
        if len(argmap) != len(site["args"]):
            self.problems.append("format at bb%d: %d placeholders/arguments recovered from the source but %d lowered arguments" % (site["bb"], len(argmap), len(site["args"])))
        self._sig[site["bb"]] = toks
        return toks

    def top(self, blocks=None):
        out = []
        for s in self.sites:
            if s["bb"] in self.nested:
                continue
            if blocks is not None and s["bb"] not in blocks:
                continue
            out.append(norm(self.sig(s)))
        return out


def norm(toks):
    """merge literals, collapse whitespace, drop leading/trailing blank literals"""
    out = []
    for t in toks:
        if t[0] == "lit":
            if out and out[-1][0] == "lit":
                out[-1] = ("lit", out[-1][1] + t[1])
            else:
                out.append(t)
        else:
            out.append(t)
    res = []
    for t in out:
        if t[0] == "lit":
            s = re.sub(r"\s+", " ", t[1])
            res.append(("lit", s))
        else:
            res.append(t)
    # whitespace-only literals carry no content
    res = [t for t in res if not (t[0] == "lit" and t[1].strip() == "")]
    res = [("lit", t[1].strip()) if t[0] == "lit" else t for t in res]
    return tuple(res)


def render(toks):
    return "".join(t[1] if t[0] == "lit" else "{%s:%s}" % (t[2], t[1]) for t in toks)


def run(ctx, rep):
    f = ctx.facts()
    ev = Evaluator(f)
    cg = ctx.cg()
    reach = ctx.reachable()
    r191(ctx, rep, f, ev, cg, reach)
    r192(ctx, rep, f, ev, cg, reach)
    r193(ctx, rep, f, ev, cg, reach)
    r194(ctx, rep, f, ev, cg, reach)
    r195(ctx, rep, f, ev, cg, reach)


# ------------------------------------------------------------------ R19.1
ADAPT = ("skip", "take", "step_by", "filter", "rev", "skip_while", "take_while", "filter_map", "chain", "zip", "peekable", "last", "nth")


def r191(ctx, rep, f, ev, cg, reach):
    rv = V + "rdh_view::rdh_view"
    if rv in f.fns:
        b = cg.body(rv)
        its = [(bb, t) for bb, t, cal, c in b.calls() if cal and cal.endswith("IntoIterator>::into_iter")]
        src = [show_origin(b.origin(t["args"][0])) for bb, t in its]
        ad = [cal.split("::")[-1] for bb, t, cal, c in b.calls() if cal and cal.split("::")[-1] in ADAPT]
        rows = [s for s in format_sites(f, b) if b.on_cycle(s["bb"]) and (s["template"] or "").strip() not in ("",)]
        ok = len(its) in (1, 2) and all(s == "arg1" for s in src) and not ad    # one loop with the style test inside, or one loop per style
        rep.check(ok, "R19.1", "R19.1|rdh_view|loop", "view rdh iterates over the whole batch in order (both styles)", rv, "loops over %s adaptors %s" % (src, ad))
    else:
        rep.missing("R19.1", rv)
    sigs = {}
    for name, flag in (("its_readout_frame_view::its_readout_frame_view", 0), ("its_readout_frame_data_view::its_readout_frame_data_view", 1)):
        p = IRF + name
        if p not in f.fns:
            rep.missing("R19.1", p)
            continue
        # the view with the helpers of its module inlined (the loop may live in a body shared by both views)
        anchors = ("print_rdh_its_readout_frame_view", "mem_pos_calc_to_string", "generate_status_word_view", "print_start_of_its_readout_frame_header_text")
        b = Body(inline_fn(f, p, lambda c: c.startswith(IRF) and "{closure" not in c and c.split("::")[-1] not in anchors, max_depth=3, max_blocks=1500))
        calls = [(bb, t, cal) for bb, t, cal, c in b.calls() if cal]
        names = [cal.split("::")[-1] for bb, t, cal in calls]
        ad = [n for n in names if n in ADAPT]
        it = [show_origin(b.origin(t["args"][0])) for bb, t, cal in calls if cal.endswith("CdpArray::<T, CAP>::iter")]
        pr = [(bb, t) for bb, t, cal in calls if cal.endswith("::print_rdh_its_readout_frame_view")]
        pp = [(bb, t) for bb, t, cal in calls if cal.endswith("::preprocess_payload")]
        mp = [(bb, t) for bb, t, cal in calls if cal.endswith("::mem_pos_calc_to_string")]
        gs = [(bb, t) for bb, t, cal in calls if cal.endswith("::generate_status_word_view")]
        en = [(bb, t) for bb, t, cal in calls if cal.endswith("Iterator::enumerate")]
        ok = it == ["arg1"] and not ad and len(pr) == 1 and len(pp) == 1 and len(mp) == 1 and len(gs) == 1 and len(en) == 1
        det = {}
        if ok:
            det["rdh_row"] = [show_origin(b.origin(a)) for a in pr[0][1]["args"][:2]]
            det["payload"] = show_origin(b.origin(pp[0][1]["args"][0]))
            det["offset_args"] = [show_origin(b.origin(a)) for a in mp[0][1]["args"][:3]]
            det["word"] = show_origin(b.origin(gs[0][1]["args"][0]))
            det["word_offset"] = show_origin(b.origin(gs[0][1]["args"][1]))
            det["show_data"] = show_origin(b.origin(gs[0][1]["args"][4]))
            ok = b.on_cycle(pr[0][0]) and b.on_cycle(gs[0][0]) and b.dominates(pr[0][0], pp[0][0]) and b.dominates(pp[0][0], gs[0][0])
            ok = ok and "enumerate" in show_origin(b.origin(gs[0][1]["args"][0])) and "preprocess_payload" in det["word"] and re.search(r"RangeTo.*0xa|\.\.0xa|0xa", det["word"]) is not None
            ok = ok and "mem_pos_calc_to_string" in det["word_offset"] and "data_format" in det["offset_args"][1] and det["show_data"] == ("0x1" if flag else "0x0")
        sigs[name] = det
        rep.check(ok, "R19.1", "R19.1|%s|loop" % name.split("::")[-1], "every packet: RDH row, then one word row per chunk [..10] of preprocess_payload(payload) with offset from (index, data_format, packet offset)", p,
                  "view loop structure: iter over %s adaptors %s sites rdh=%d cut=%d offset=%d word=%d details %s" % (it, ad, len(pr), len(pp), len(mp), len(gs), det))
    if len(sigs) == 2:
        a, b_ = list(sigs.values())
        same = {k: v for k, v in a.items() if k != "show_data"} == {k: v for k, v in b_.items() if k != "show_data"}
        rep.check(same, "R19.1", "R19.1|views-agree", "the two ITS views differ only in showing data words", IRF, "its_readout_frame_view %s vs data view %s" % (a, b_))


# ------------------------------------------------------------------ R19.2
def r192(ctx, rep, f, ev, cg, reach):
    p = V + "lib::calc_current_word_mem_pos"
    # decided per concrete data_format value (all 256): offset = IDX × 16 + POS + 64 for format 0, IDX × 10 + POS + 64
    # otherwise — a linear normal form, independent of how the padding / word size is spelled (if, match, constants)
    bad = []
    for df in range(256):
        try:
            v = ev.call_fn(p, [Sym("IDX"), Bits.const(df, 8), Sym("POS")])
            t = parse(vkey(v))
        except Unsupported as e:
            bad.append((df, "unevaluable %s" % e))
            break
        terms = []

        def flat(x):
            if x[0] == "Add":
                flat(x[1])
                flat(x[2])
            else:
                terms.append(x)
        flat(t)
        consts = sum(x[1] for x in terms if x[0] == "const")
        leaves = sorted(x[1] for x in terms if x[0] == "leaf")
        muls = [x for x in terms if x[0] == "Mul"]
        ok = consts == 64 and leaves == ["POS"] and len(muls) == 1
        if ok:
            a_, b_ = muls[0][1], muls[0][2]
            if b_[0] == "leaf":
                a_, b_ = b_, a_
            ok = a_ in (("leaf", "cast(sym(IDX) as u64)"), ("leaf", "IDX")) and b_ == ("const", 16 if df == 0 else 10)
        if not ok:
            bad.append((df, vkey(v)[:200]))
    rep.check(not bad, "R19.2", "R19.2|formula", "word offset = idx × (data_format == 0 ? 16 : 10) + packet offset + 64, for every data_format value", p,
              "calc_current_word_mem_pos deviates for data_format %s" % bad[:3])
    mp = IRF + "mem_pos_calc_to_string"
    if mp in f.fns:
        b = cg.body(mp)
        cs = [(bb, t_) for bb, t_, cal, c in b.calls() if cal == p]
        ok = len(cs) == 1 and [show_origin(b.origin(a)) for a in cs[0][1]["args"]] == ["arg1", "arg2", "arg3"]
        s = Sigs(f, b)
        tops = s.top()
        ok = ok and len(set(tops)) == 1 and len(tops) == 2 and tops[0] == (("arg", ">8X", "lib::calc_current_word_mem_pos(arg1, arg2, arg3)"), ("lit", ":"))
        rep.check(ok, "R19.2", "R19.2|word-offset-text", "the word offset is printed as {:>8X}: in both styles", mp, "mem_pos_calc_to_string prints %s" % [render(x) for x in tops])
    else:
        rep.missing("R19.2", mp)


# ------------------------------------------------------------------ R19.3
def r193(ctx, rep, f, ev, cg, reach):
    fid = "fastpasta::analyze::validators::its::lib::ItsPayloadWord::from_id"
    orc = ctx.oracle("fsm.json")
    dw = ctx.oracle("dw_ids.json")
    data_ids = set()
    for lo, hi in dw["il"] + dw["ol"]:
        data_ids |= set(range(lo, hi + 1))
    want = {i: "DataWord" for i in data_ids}
    for wname, ids in orc["alphabet"].items():
        for i in ids:
            want[i] = wname
    got = {}
    for i in range(256):
        try:
            r = ev.call_fn(fid, [Bits.const(i, 8)])
        except Unsupported as e:
            got[i] = "unevaluable"
            continue
        if isinstance(r, Agg) and r.var == "Ok" and isinstance(r.fields.get("0"), Agg):
            got[i] = r.fields["0"].var
        elif isinstance(r, Agg) and r.var == "Err":
            got[i] = None
        else:
            got[i] = "?" + vkey(r)[:30]
    bad = {hex(i): (got[i], want.get(i)) for i in range(256) if got[i] != want.get(i)}
    rep.check(not bad, "R19.3", "R19.3|from_id|table", "word type by identifier: %d data-word ids + %d status ids, everything else unknown" % (len(data_ids), len(want) - len(data_ids)), fid,
              "ItsPayloadWord::from_id deviates from the documented identifier table at %s" % bad)
    # the printer classifies by byte 9 and has a row for every simple type
    gs = IRF + "generate_status_word_view"
    if gs in f.fns:
        b = cg.body(gs)
        cs = [(bb, t) for bb, t, cal, c in b.calls() if cal == fid]
        ok = len(cs) == 1 and show_origin(b.origin(cs[0][1]["args"][0])).replace(" ", "") in ("arg1[9]", "arg1*[9]", "arg1[0x9]", "arg1*[0x9]")
        rep.check(ok, "R19.3", "R19.3|classify-by-id", "the row type is from_id(word[9])", gs, "from_id argument: %s" % [show_origin(b.origin(t["args"][0])) for bb, t in cs])
        gw = [(bb, t) for bb, t, cal, c in b.calls() if cal == IRF + "generate_its_readout_frame_word_view"]
        ok = len(gw) == 1 and [show_origin(b.origin(a)) for a in gw[0][1]["args"][1:6]] == ["arg1", "arg2", "arg3", "arg4", "arg5"]
        rep.check(ok, "R19.3", "R19.3|row-gets-word", "the row printer receives the same word, offset text and options", gs)
    wv = IRF + "generate_its_readout_frame_word_view"
    tb = ev.tb(wv)
    if tb is not None:
        # decided per (word type, plain/styled, data rows asked for): how many rows are written
        simple = ["DataWord", "TDH", "TDT", "IHW", "DDW0", "CDW"]
        adt = next((p_["adt"] for _, n in tb.walk() if n["k"] == "Match" for a in n["arms"]
                    for p_ in (tb.arms[a]["pat"]["pats"] if tb.arms[a]["pat"]["k"] == "Or" else [tb.arms[a]["pat"]])
                    if p_["k"] == "Variant" and (p_.get("adt") or "").endswith("ItsPayloadWord")), "fastpasta::analyze::validators::its::lib::ItsPayloadWord")
        rows = {}
        ev.watch = lambda c: c.endswith("::write_fmt")
        try:
            for v in simple:
                for plain in (True, False):
                    for show in (True, False):
                        try:
                            recs = ev.collect_ifs(wv, [Agg(adt, v, {}), Slice("W", 0, 10), Sym("pos"), Sym("lock"), Cond("true" if plain else "false"), Cond("true" if show else "false")])
                            rows[(v, plain, show)] = len([o for o in recs if "call" in o and not o.get("closure") and not any(g in ("false", "not true") for g in o["guard"])])
                        except Unsupported as e:
                            rows[(v, plain, show)] = "?%s" % e
        finally:
            ev.watch = None
        missing = sorted(k for k, n in rows.items() if k[0] != "DataWord" and n != 1)
        rep.check(not missing, "R19.3", "R19.3|row-per-type", "every simple word type has exactly one printed row (plain and styled)", wv, "rows written per (type, plain, data rows asked for): %s" % {k: rows[k] for k in missing})
        dw = {k[1:]: n for k, n in rows.items() if k[0] == "DataWord"}
        want = {(pl, sh): (1 if sh else 0) for pl in (True, False) for sh in (True, False)}
        rep.check(dw == want, "R19.3", "R19.3|data-rows-optional", "data-word rows are printed iff the data view asked for them", wv, "data-word rows written per (plain, data rows asked for): %s, expected %s" % (dw, want))
    fw = V + "lib::format_word_slice"
    if fw in f.fns:
        b = cg.body(fw)
        s = Sigs(f, b)
        tops = s.top()
        exp = tuple([("lit", "[")] + [x for i in range(10) for x in ([("arg", "02X", "arg1*[0x%x]" % i)] + ([("lit", "")] if False else []))][:])
        got = [t for t in (tops[0] if tops else ()) if t[0] == "arg"]
        ok = len(tops) == 1 and [g[2].replace(" ", "") for g in got] in ([("arg1*[%d]" % i) for i in range(10)], [("arg1[%d]" % i) for i in range(10)]) and all(g[1] == "02X" for g in got)
        rep.check(ok, "R19.3", "R19.3|raw-bytes", "the raw dump prints bytes 0..9 in order as two upper-hex digits", fw, "format_word_slice prints %s" % [render(x) for x in tops])


# ------------------------------------------------------------------ R19.4
def _cascade(k):
    """sym(ite(c1,sym(str:A),sym(ite(c2,sym(str:B),…sym(str:Z))))) → [(c1,A),(c2,B),…,(None,Z)]"""
    t = k
    out = []
    while True:
        m = re.fullmatch(r"sym\(call:alloc::string::String::into_boxed_str\((.*)\)\)", t)
        if m:
            t = m.group(1)
            continue
        m = re.fullmatch(r"sym\(str:(.*)\)", t, re.S)
        if m and "sym(" not in m.group(1):
            out.append((None, m.group(1).strip()))
            return out
        if not t.startswith("sym(ite("):
            return None
        inner = t[len("sym(ite("):-2]
        # split top-level commas
        parts, depth, cur = [], 0, []
        for ch in inner:
            if ch in "([{":
                depth += 1
            elif ch in ")]}":
                depth -= 1
            if ch == "," and depth == 0:
                parts.append("".join(cur))
                cur = []
            else:
                cur.append(ch)
        parts.append("".join(cur))
        if len(parts) != 3:
            return None
        m = re.fullmatch(r"sym\(str:(.*)\)", parts[1], re.S)
        if not m:
            return None
        out.append((parts[0], m.group(1).strip()))
        t = parts[2]


def r194(ctx, rep, f, ev, cg, reach):
    W = Slice("W", 0, 10)
    table = [
        (U + "tdh_trigger_as_string", [W], [("any(W[9])", "SOC"), ("any(W[12])", "Internal"), ("any(W[4])", "PhT"), (None, "Other")], "TDH trigger kind: SOC (bit 9) > internal (bit 12) > PhT (bit 4) > other"),
        (U + "tdh_continuation_as_string", [W], [("any(W[14])", "Cont."), (None, "")], "TDH continuation = bit 14"),
        (U + "tdh_no_data_as_string", [W], [("any(W[13])", "No data"), (None, "Data!")], "TDH no-data = bit 13"),
        (U + "tdt_packet_done_as_string", [W], [("any(W[64])", "Complete"), (None, "Split")], "TDT packet done = bit 64"),
        (V + "lib::trigger_type_string_from_int", [Bits.inp("T", 0, 32)], [("any(T[9])", "SOC"), ("any(T[7])", "SOT"), ("any(T[1])", "HB"), ("any(T[4])", "PhT"), (None, "Other")], "RDH trigger type: SOC > SOT > HB > PhT > other"),
        (V + "lib::rdh_detector_field_lane_status_as_string", [Obj("R", 0, RC)], [("any(R[387])", "Fatal"), ("any(R[386])", "Error"), ("any(R[385])", "Warning"), ("any(R[384])", "Missing"), (None, "-")],
         "RDH detector field lane status: fatal (bit 3) > error (2) > warning (1) > missing data (0)"),
    ]
    for p, args, exp, what in table:
        if p not in f.fns:
            rep.missing("R19.4", p)
            continue
        try:
            k = vkey(ev.call_fn(p, args))
        except Unsupported as e:
            k = "unevaluable %s" % e
        got = _cascade(k)
        rep.check(got == exp, "R19.4", "R19.4|%s" % p.split("::")[-1], what, p, "%s evaluates to %s" % (p.split("::")[-1], got if got is not None else k[:300]))
    # rdh_trigger_type_as_string forwards the RDH's trigger type
    p = V + "lib::rdh_trigger_type_as_string"
    if p in f.fns:
        b = cg.body(p)
        cs = [(bb, t) for bb, t, cal, c in b.calls() if cal == V + "lib::trigger_type_string_from_int"]
        ok = len(cs) == 1 and "trigger_type(arg1)" in show_origin(b.origin(cs[0][1]["args"][0]))
        rep.check(ok, "R19.4", "R19.4|rdh_trigger_type_as_string", "the RDH row shows the kind of rdh.trigger_type()", p)
    # lane fault masks
    # decided for each of the 256 values of a lane-status byte (four 2-bit lane fields: 01 warning, 10 error, 11 fatal)
    lane = {
        "ddw0_tdt_lane_status_any_fatal": (lambda v: any((v >> s_) & 3 == 3 for s_ in (0, 2, 4, 6)), "some lane field == 0b11"),
        "ddw0_tdt_lane_status_any_error": (lambda v: v & 0xAA != 0, "some lane field has its high bit set"),
        "ddw0_tdt_lane_status_any_warning": (lambda v: v & 0x55 != 0, "some lane field has its low bit set"),
    }
    # decided on the whole function first — whatever its form (per-byte masks in a closure, one wide load and shifted
    # masks, a loop): words with one faulty lane (28 lanes x 3 states), every pair of states on adjacent lanes (27 x 9, also
    # across byte boundaries), no fault, and a fault-free word whose non-status bytes 7..8 are all ones
    def lane_word(st):
        bs = [0] * 10
        for k_, s_ in st.items():
            bs[k_ // 4] |= s_ << (2 * (k_ % 4))
        return bs
    lane_cases = [({}, None)] + [({k_: s_}, None) for k_ in range(28) for s_ in (1, 2, 3)] + \
                 [({k_: a_, k_ + 1: b_}, None) for k_ in range(27) for a_ in (1, 2, 3) for b_ in (1, 2, 3)]
    lane_oracle = {"ddw0_tdt_lane_status_any_fatal": lambda st: any(s_ == 3 for s_ in st.values()),
                   "ddw0_tdt_lane_status_any_error": lambda st: any(s_ & 2 for s_ in st.values()),
                   "ddw0_tdt_lane_status_any_warning": lambda st: any(s_ & 1 for s_ in st.values())}
    for fn, (pred, exp) in lane.items():
        whole_wrong, undecided = [], 0
        for st, _ in lane_cases + [("hi", None)]:
            bs = lane_word(st) if st != "hi" else [0] * 7 + [0xFF, 0xFF, 0xE4]
            want_ = lane_oracle[fn](st) if st != "hi" else False
            try:
                c_ = ev.as_cond(ev.call_fn(U + fn, [("array",) + tuple(Bits.const(x, 8) for x in bs)]))
                k = {"true": True, "false": False}.get(c_.op)
            except Exception:  # noqa
                k = None
            if k is None:
                undecided += 1
                break
            if k != want_:
                whole_wrong.append((st, k))
        if not undecided:
            rep.check(not whole_wrong, "R19.4", "R19.4|lane-mask|%s" % fn, "%s on whole words: %s (%d words evaluated: single faults, adjacent pairs, none, ones in bytes 7..8)" % (fn, exp, len(lane_cases) + 1), U + fn,
                      "%s is not `%s`: (lane→state, result) %s" % (fn, exp, whole_wrong[:6]))
            continue
        clo = U + fn + "::{closure#0}"
        wrong = []
        for v in range(256):
            try:
                c_ = ev.as_cond(ev.call_closure(("closure", clo, {}), [Bits.const(v, 8)], 0))
                k = {"true": True, "false": False}.get(c_.op, ckey(c_)[:60])
            except Exception as e:  # noqa
                k = "unevaluable %r" % (e,)
            if k != pred(v):
                wrong.append((hex(v), k))
        rep.check(not wrong, "R19.4", "R19.4|lane-mask|%s" % fn, "%s per byte: %s (256 byte values evaluated)" % (fn, exp), U + fn,
                  "%s gives the wrong verdict for lane-status bytes %s (documented: %s)" % (fn, wrong[:6], exp))
    p = U + "ddw0_tdt_lane_status_as_string"
    try:
        k = vkey(ev.call_fn(p, [W]))
    except Unsupported as e:
        k = "unevaluable %s" % e
    got = _cascade(k)
    order = []
    ok = got is not None and len(got) == 4
    if ok:
        for (c, s), (fn, lab) in zip(got[:3], (("any_fatal", "Fatal"), ("any_error", "Error"), ("any_warning", "Warning"))):
            ok = ok and s == lab and c is not None and ("ddw0_tdt_lane_status_%s::{closure#0}" % fn) in c and "Iterator>::any(" in c and "iter(Slice(W+0,len=7))" in c
        ok = ok and got[3] == (None, "-")
    rep.check(ok, "R19.4", "R19.4|lane-status-cascade", "lane faults over bytes 0..7 (56 lane-status bits): fatal > error > warning > none", p, "ddw0_tdt_lane_status_as_string: %s" % (got if got else k[:300]))
    # orbit / bc
    p = U + "tdh_trigger_orbit_bc_as_string"
    try:
        k = vkey(ev.call_fn(p, [W]))
    except Unsupported as e:
        k = "unevaluable %s" % e
    ok = "new_display({b0..31=W[63:32]})" in k and "new_display({b0..11=W[27:16]})" in k and k.index("W[63:32]") < k.index("W[27:16]")
    if p in f.fns:
        s = Sigs(f, cg.body(p))
        tops = s.top()
        ok = ok and len(tops) == 1 and [t[:2] for t in tops[0]] == [("arg", ""), ("lit", "_"), ("arg", ">4")]
    rep.check(ok, "R19.4", "R19.4|orbit-bc", "trigger orbit = bits 63:32, trigger BC = bits 27:16, printed as {orbit}_{bc:>4}", p, "tdh_trigger_orbit_bc_as_string: %s" % k[:300])
    # RDH row of the ITS views
    p = IRF + "print_rdh_its_readout_frame_view"
    if p in f.fns:
        b = cg.body(p)
        s = Sigs(f, b)
        rows = sorted(set(t for t in s.top() if len(t) > 4))
        exp_args = [(">8X", "arg2"), ("", "RDH_CRU::version(arg1)"), ("", "RDH_CRU::stop_bit(arg1)"), ("<15", None), ("<35", "lib::rdh_trigger_type_as_string(arg1)"), (">2", None),
                    (">14", "lib::rdh_detector_field_lane_status_as_string(arg1)"), (">14", None), (">4", None)]
        got = [(t[1], t[2]) for t in (rows[0] if rows else ()) if t[0] == "arg"]
        ok = len(rows) == 1 and len(got) == len(exp_args)
        if ok:
            for (gs_, go), (es, eo) in zip(got, exp_args):
                ok = ok and gs_ == es and (eo is None or go == eo)
            ok = ok and "Stave::from_feeid(RDH_CRU::fee_id(arg1))" in got[3][1] and "link_id(arg1)" in got[5][1] and "rdh1(arg1)" in got[7][1] and ".orbit" in got[7][1] and "Rdh1::bc(" in got[8][1]
        rep.check(ok, "R19.4", "R19.4|its-rdh-row", "ITS-view RDH row: offset, version, stop bit, stave(fee id), trigger kind, link, lane status, orbit_bc", p,
                  "RDH row arguments: %s" % got)


# ------------------------------------------------------------------ R19.5
def _branches(b, param_local):
    """(switch block, true target, false target) for switches on the bool parameter"""
    out = []
    for x in sorted(b.live_blocks()):
        t = b.blocks[x]["t"]
        if t["k"] != "switch":
            continue
        so = show_origin(b.origin(t["d"]))
        if so == "arg%d" % param_local and len(t["vals"]) == 1 and t["vals"][0][0] == 0:
            out.append((x, t["else"], t["vals"][0][1]))
    return out


def _dominated(b, root):
    return set(x for x in b.live_blocks() if b.dominates(root, x))


def r195(ctx, rep, f, ev, cg, reach):
    targets = [
        (IRF + "generate_its_readout_frame_word_view", 5, 6),
        (IRF + "print_rdh_its_readout_frame_view", 4, 1),
        (IRF + "print_start_of_its_readout_frame_header_text", 2, 1),
        (IRF + "mem_pos_calc_to_string", 4, 1),
    ]
    for p, param, nmin in targets:
        if p not in f.fns:
            rep.missing("R19.5", p)
            continue
        b = cg.body(p)
        s = Sigs(f, b)
        br = _branches(b, param)
        rep.floor("R19.5-branches|%s" % p.split("::")[-1], len(br), nmin, "`if disable_styled_view` tests in %s" % p.split("::")[-1])
        for sw, tt, ft in br:
            plain = s.top(_dominated(b, tt))
            styled = s.top(_dominated(b, ft))
            key = "R19.5|%s|%s" % (p.split("::")[-1], (render(plain[0])[:28] if plain else "bb%d" % sw))
            rep.check(plain == styled and bool(plain), "R19.5", key, "styled and unstyled branch print the same content: %s" % [render(x)[:80] for x in plain], p,
                      "styled and unstyled output differ in content: unstyled %s vs styled %s" % ([render(x) for x in plain], [render(x) for x in styled]))
        if s.problems:
            rep.bad("R19.5", "R19.5|%s|unsupported" % p.split("::")[-1], "format constructs that could not be analysed: %s" % s.problems[:3], p)
    # rdh view rows (inside the loops; the column header lines are different helper functions and carry no data)
    # decided per style with one batch element (RDHV, PAY, POS) substituted for the iterator's item: besides the header
    # one row is written per element, showing the element's own offset (upper hex) followed by its own RDH
    rv = V + "rdh_view::rdh_view"
    if rv in f.fns:
        rows = {}
        for plain in (True, False):
            ev.call_hooks = [(lambda fn_, r_: (r_ or fn_).endswith("Iterator>::next") or fn_.endswith("Iterator::next"),
                              lambda n, a: Agg("core::option::Option", "Some", {"0": (Sym("RDHV"), Sym("PAY"), Sym("POS"))}))]
            ev.watch = lambda c: c.endswith("::write_fmt")
            try:
                recs = ev.collect_ifs(rv, [Sym("BATCH"), Cond("true" if plain else "false")])
                live = [o["args"][1] for o in recs if "call" in o and not o.get("closure") and not any(g in ("false", "not true") for g in o["guard"])]
                rows[plain] = [k for k in live if "sym(POS)" in k or "sym(RDHV" in k or "sym(PAY)" in k]
            except Unsupported as e:
                rows[plain] = ["unevaluable: %s" % e]
            finally:
                ev.call_hooks = []
                ev.watch = None

        def row_ok(k):
            i_pos, i_rdh = k.find("new_upper_hex(sym(POS))"), k.find("sym(RDHV")
            return k.count("sym(POS)") == 1 and i_pos >= 0 and i_rdh > i_pos and "sym(PAY)" not in k
        ok = all(len(rows[p_]) == 1 and row_ok(rows[p_][0]) for p_ in rows)
        rep.check(ok, "R19.5", "R19.5|rdh_view|row", "view rdh row: `{offset:>8X}: {rdh}` in both styles", rv,
                  "view rdh rows: unstyled %s styled %s" % ([k[:200] for k in rows[True]], [k[:200] for k in rows[False]]))
        rep.check(ok, "R19.5", "R19.5|rdh_view|row-values", "the row shows the element's own offset (.2) and RDH (.0)", rv,
                  "row values are not the element's own offset followed by its own RDH")
    display_vs_styled(ctx, rep, f, cg)


def display_vs_styled(ctx, rep, f, cg):
    """the plain-text (Display) row of an RDH and of its sub-words prints the same fields with the same format specs as
    the styled row (shared with C07: the `current :` context row of an RDH error is the Display row)"""
    # Display vs to_styled_row_view
    pairs = []
    for p in sorted(f.fns):
        m = re.fullmatch(r"<(alice_protocol_reader::rdh::[\w:]+) as alice_protocol_reader::rdh::(RdhSubword|RDH)>::to_styled_row_view", p)
        if m and f.fns[p].get("mir"):
            d = "<%s as core::fmt::Display>::fmt" % m.group(1)
            if d in f.fns:
                pairs.append((m.group(1), d, p))
    used = set()
    row = "<%s as alice_protocol_reader::rdh::RDH>::to_styled_row_view" % RC
    if row in f.fns:
        for bb, t, cal, c in cg.body(row).calls():
            if cal and cal.endswith("::to_styled_row_view"):
                used.add(cal)
        used.add(row)
    n = 0
    for adt, d, st in pairs:
        if st not in used:
            continue
        n += 1
        sd = Sigs(f, cg.body(d))
        ss = Sigs(f, cg.body(st))
        a, b_ = sd.top(), ss.top()
        # sub-word values: Display of a field ↔ styled row of the same field — both peel to the field itself
        rep.check(a == b_ and len(a) == 1, "R19.5", "R19.5|display-vs-styled|%s" % adt.split("::")[-1], "%s: Display and styled row carry the same fields/specs: %s" % (adt.split("::")[-1], [render(x)[:100] for x in a]), st,
                  "%s: unstyled (Display) prints %s but the styled row prints %s" % (adt.split("::")[-1], [render(x) for x in a], [render(x) for x in b_]))
        for pr in sd.problems + ss.problems:
            rep.bad("R19.5", "R19.5|display-vs-styled|%s|unsupported" % adt.split("::")[-1], pr, st)
    rep.floor("R19.5-display-pairs", n, 4, "Display/to_styled_row_view pairs used by the RDH row (RdhCru, Rdh0, Rdh1, Rdh2)")
