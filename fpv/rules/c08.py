"""C08 — filtered output is exact, lossless and partitions the input.

Proof-shaped part (R8.1): the header codec is a bijection on all 2^512 headers —
RdhCru and every nested struct are repr(packed) with no padding (layout offsets
are contiguous and sum to 64), each leaf is decoded from exactly its layout
byte range without masking, and to_byte_slice exposes exactly size_of::<T>()
bytes of the value itself; hence to_bytes ∘ from_buf = id on a little-endian
target.  Structural part: payloads are never mutated between scanner and
writer (R8.2); the writer pushes header and payload pairwise, flushes them in
insertion order header-then-payload with one write, clears afterwards and
flushes on drop (R8.3); only matching packets are returned and payloads are
present in write mode (R8.4).  Not decided: OS write semantics."""
from .. import emit
from ..mir import callee_of, origin_calls, show_origin, op_place
from ..thir import Evaluator, Agg, Sym, Bits, Obj, Cond, ckey, vkey, Unsupported
from ..facts import where
from . import c03

EXPLANATION = __doc__
AP = "alice_protocol_reader::"
RC = AP + "rdh::rdh_cru::RdhCru"
BW = "<fastpasta::write::writer::BufferedWriter<T> as fastpasta::write::writer::Writer<T>>::"
# Vec<u8> fields that are not payloads (one reason each)
EXEMPT_VEC_FIELDS = {
    ("alice_protocol_reader::stats::Stats", "unique_links_observed"): "list of link ids seen by the scanner statistics, not packet data",
}
INT_SIZES = {"u8": 1, "u16": 2, "u32": 4, "u64": 8, "i8": 1, "i16": 2, "i32": 4, "i64": 8}


def packed_closure(f, adt_path, rep, rule, prefix=""):
    """every struct in the type closure is packed, fields contiguous, leaves are integers"""
    a = f.adts.get(adt_path)
    if not a:
        rep.missing(rule, adt_path)
        return 0
    name = adt_path.split("::")[-1]
    fields = a["variants"][0]["fields"]
    ok = a.get("packed") and a["kind"] == "struct"
    rep.check(ok, rule, "%s|packed|%s" % (rule, name), "%s is repr(packed)" % name, where(a.get("span")), "%s is not repr(packed): padding bytes would be exposed / lost" % name)
    pos = 0
    total = 0
    for i, fd in enumerate(fields):
        off, sz = a["offsets"][i], a["field_sizes"][i]
        rep.check(off == pos, rule, "%s|contiguous|%s.%s" % (rule, name, fd["name"]), "%s.%s at offset %d (no gap)" % (name, fd["name"], off), where(a.get("span")),
                  "%s.%s is at offset %d but the previous field ends at %d (padding or reordering)" % (name, fd["name"], off, pos))
        pos = off + sz
        ty = fd["ty"]["s"]
        if ty in INT_SIZES:
            rep.check(INT_SIZES[ty] == sz, rule, "%s|leaf|%s.%s" % (rule, name, fd["name"]), "leaf %s: %s, %d byte(s)" % (fd["name"], ty, sz), where(a.get("span")))
            total += 1
        elif fd["ty"].get("adt") in f.adts and not fd["ty"].get("refs"):
            total += packed_closure(f, fd["ty"]["adt"], rep, rule)
        else:
            rep.bad(rule, "%s|leaf|%s.%s" % (rule, name, fd["name"]), "field %s.%s has type %s: not a plain integer or packed struct" % (name, fd["name"], ty), where(a.get("span")))
    rep.check(pos == a["size"], rule, "%s|size|%s" % (rule, name), "size_of::<%s>() = %d = sum of its fields" % (name, a["size"]), where(a.get("span")),
              "%s: fields end at %d but size is %d" % (name, pos, a["size"]))
    return total


def run(ctx, rep):
    f = ctx.facts()
    cg = ctx.cg()
    reach = ctx.reachable()
    ev = Evaluator(f)
    rep.assumptions.append("little-endian target: from_buf uses LittleEndian reads while to_byte_slice exposes native memory")
    rep.check((f.endian or "").lower() == "little", "R8.1", "R8.1|endian", "target is little-endian (compiler session)", "session")

    # ---------- R8.1 header round trip
    nleaf = packed_closure(f, RC, rep, "R8.1")
    rep.check(f.adts.get(RC, {}).get("size") == 64, "R8.1", "R8.1|size64", "RdhCru is 64 bytes", RC)
    rep.floor("R8.1", nleaf, 23, "integer leaves of RdhCru")
    c03._decode_table(ctx, ev, rep)  # each leaf ← LE read of exactly its layout range (rule ids R3.6)
    # packets that do not match are skipped by exactly their length on both reader back-ends (file and pipe): a
    # partial skip desynchronises the scan and the filtered output contains bytes that are no packet (rule ids R3.9)
    c03._backends(ctx, ev, rep)
    # any_as_u8_slice: from_raw_parts(param as *const u8, size_of::<T>())
    p = AP + "rdh::any_as_u8_slice"
    if p in f.fns:
        b = cg.body(p)
        frp = [(bb, t) for bb, t, cal, c in b.calls() if cal and cal.endswith("slice::raw::from_raw_parts")]
        good = len(frp) == 1
        if good:
            o_ptr = b.origin(frp[0][1]["args"][0])
            o_len = b.origin(frp[0][1]["args"][1])
            so = show_origin(o_ptr)
            good = "arg1" in so and o_len[0] == "call" and bool(o_len[1]) and o_len[1].endswith("mem::size_of") and not o_len[2]
            ga = ((o_len[4] or {}).get("ga") or [{}]) if good else [{}]
            good = bool(good and ga and ga[0].get("param") == "T")
        rep.check(good, "R8.1", "R8.1|any_as_u8_slice", "byte view = (address of the value, size_of::<T>())", p,
                  "any_as_u8_slice builds its slice from %s / %s" % (show_origin(b.origin(frp[0][1]["args"][0])) if frp else None, show_origin(b.origin(frp[0][1]["args"][1])) if frp else None))
    else:
        rep.missing("R8.1", p)
    # ByteSlice implementors: packed, padding-free value types; blanket &T / &mut T never resolved
    impls = [im for im in f.impls if (im.get("trait") or "").endswith("rdh::ByteSlice")]
    rep.floor("R8.1-impls", len(impls), 8, "impls of ByteSlice")
    for im in impls:
        s = im["self"]
        if s.get("refs"):
            continue
        adt = s.get("adt")
        a = f.adts.get(adt)
        if not a:
            rep.bad("R8.1", "R8.1|byteslice|%s" % s["s"], "ByteSlice implemented for %s whose layout is unknown" % s["s"], where(im.get("span")))
            continue
        tot = sum(a["field_sizes"])
        rep.check(a.get("packed") and tot == a["size"], "R8.1", "R8.1|byteslice|%s" % adt.split("::")[-1],
                  "ByteSlice implementor %s is packed and padding-free (%d bytes)" % (adt.split("::")[-1], a["size"]), where(a.get("span")),
                  "ByteSlice implementor %s: packed=%s, field bytes %d vs size %d (uninitialised padding would be exposed)" % (adt, a.get("packed"), tot, a["size"]))
    n_calls = 0
    for path, bb, t, cal, c in cg.call_sites(lambda c: c.endswith("rdh::ByteSlice::to_byte_slice"), within=reach):
        n_calls += 1
        ga = (c.get("ga") or [{}])[0]
        isref = ga.get("s", "").startswith("&")
        rep.check(not isref, "R8.1", "R8.1|receiver|%s" % path.split("::")[-1], "to_byte_slice on a value type (%s)" % ga.get("s"), path,
                  "to_byte_slice is resolved on the reference type %s: the blanket impl would expose the bytes of the pointer" % ga.get("s"))
    rep.floor("R8.1-calls", n_calls, 5, "reachable to_byte_slice call sites")
    # PartialEq via bytes
    pe = "<%s as core::cmp::PartialEq>::eq" % RC
    if pe in f.fns:
        n = sum(1 for bb, t, cal, c in cg.body(pe).calls() if cal and cal.endswith("to_byte_slice"))
        rep.check(n == 2, "R8.1", "R8.1|eq_via_bytes", "RdhCru equality compares both byte views", pe)

    # ---------- R8.2 payload untouched between scanner and writer
    roles, sp = ctx.roles()
    path_fns = set()
    for r in ("spawn_reader", "spawn_writer"):
        path_fns |= roles.get(r, set())
    path_fns = {p for p in path_fns if "fastpasta::write" in p or AP in p}
    fresh_ctor = ("Vec::<T>::new", "Vec::<T>::with_capacity", "vec::from_elem", "Vec::<T, A>::with_capacity_in")
    n_b = 0
    for p in sorted(path_fns):
        fn = f.fns[p]
        if not fn.get("mir") or fn.get("derived"):
            continue
        b = cg.body(p)
        for i, j, s in b.stmts():
            if s["k"] == "assign" and s["rv"]["k"] in ("ref", "rawptr") and s["rv"].get("bk") in ("mut", "Mut"):
                pl = s["rv"]["pl"]
                ty = pl.get("ty") or b.local_ty(pl["l"])["s"]
                if ty != "alloc::vec::Vec<u8>":
                    continue
                o = b.place_origin(pl)
                so = show_origin(o)
                if any(("." + fld) in so and adt.split("::")[-1] in (b.local_ty(1)["s"] if b.argc else "") for (adt, fld) in EXEMPT_VEC_FIELDS):
                    continue
                n_b += 1
                base = o
                while isinstance(base, tuple) and base and base[0] == "ref":
                    base = base[1]
                cands = [base] if base[0] != "local" else b.origins({"cp": {"l": base[1]}})
                fresh = all(oo[0] == "call" and oo[1] and any(x in oo[1] for x in fresh_ctor) for oo in cands) and bool(cands)
                rep.check(fresh, "R8.2", "R8.2|mut_vec|%s|%d" % (p.split("::")[-1], n_b),
                          "mutable borrow of a Vec<u8> created in the same function", p,
                          "%s takes &mut of a Vec<u8> it did not create (%s): a payload could be modified on its way to the writer" % (p.split("::")[-1], show_origin(o)))
    rep.floor("R8.2", n_b, 2, "mutable Vec<u8> borrows on the reader→writer path (payload creation, flush buffer)")
    creators = {path for path, bb, t, cal, c in cg.call_sites(lambda c: c.endswith("::set_len"), within=reach)}
    rep.check(creators == {c03.SCAN + "load_payload_raw"}, "R8.2", "R8.2|creator", "payload buffers are filled only in load_payload_raw", AP,
              "Vec::set_len used in %s" % sorted(creators))

    # ---------- R8.3 writer pairing/order
    # both batch entry points push header (.0) and payload (.1) of the same element, unconditionally, for every
    # element — whether written as `into_iter().for_each(closure)` or as a `for` loop
    for entry in ("push_cdp_arr", "push_cdp_vec"):
        fn_ = BW + entry
        if fn_ not in f.fns:
            if entry == "push_cdp_arr":
                rep.missing("R8.3", fn_)
            continue
        found = None
        for cand in [fn_] + sorted(q for q in f.fns if q.startswith(fn_ + "::{closure#")):
            if cand == fn_:
                # the entry point with the writer's own helper methods inlined (a shared `push` helper is looked through)
                from ..mir import Body as _Body, inline_fn as _inline
                b = _Body(_inline(f, fn_, lambda c: "write::writer::BufferedWriter" in c and "{closure" not in c and c.split("::")[-1] not in ("flush", "write", "new", "drop"), max_depth=3))
            else:
                b = cg.body(cand)
            upv = {}
            if cand != fn_:
                pb = cg.body(fn_)
                for i_, j_, st in pb.stmts():
                    if st["k"] == "assign" and st["rv"]["k"] == "agg" and st["rv"].get("closure") == cand:
                        for k, op_ in enumerate(st["rv"]["ops"]):
                            upv[str(k)] = show_origin(pb.origin(op_)).rsplit(".", 1)[-1]
            pushes = {}
            for bb, t, cal, c in b.calls():
                if cal and cal.endswith("Vec::<T, A>::push"):
                    recv = show_origin(b.origin(t["args"][0]))
                    val = show_origin(b.origin(t["args"][1]))
                    key = recv.rsplit(".", 1)[-1]
                    pushes.setdefault(upv.get(key, key), []).append((val, bb))
            if pushes:
                found = (cand, b, pushes)
                break
        if not found:
            rep.bad("R8.3", "R8.3|pairwise_push|%s" % entry, "%s pushes nothing into the writer's buffers" % entry, fn_)
            continue
        cand, b, pushes = found
        good = set(pushes) == {"filtered_rdhs_buffer", "filtered_payload_buffers"} and all(len(v) == 1 for v in pushes.values())
        detail = {k: [x[0] for x in v] for k, v in pushes.items()}
        if good:
            hv, hb = pushes["filtered_rdhs_buffer"][0]
            pv, pb_ = pushes["filtered_payload_buffers"][0]
            good = hv.endswith(".0") and pv.endswith(".1") and hv[:-2] == pv[:-2]
            if good:
                if cand != fn_:
                    good = hv[:-2] == "arg2" and b.all_paths_pass(0, [hb]) and b.all_paths_pass(0, [pb_])
                else:
                    nxt = [bb for bb, t, cal, c in b.calls() if cal and (cal.endswith("Iterator>::next") or cal.endswith("Iterator::next"))]
                    good = "next(" in hv and len(nxt) == 1 and b.on_cycle(hb) and b.on_cycle(pb_) and b.dominates(nxt[0], hb) \
                        and b.all_paths_pass(hb, [pb_], to=nxt) and b.all_paths_pass(pb_, [hb], to=nxt + b.return_blocks()) is not None
                    # every element: no branch between `next() == Some` and the first push
                    first, second = (hb, pb_) if b.dominates(hb, pb_) else (pb_, hb)
                    good = good and b.dominates(first, second) and b.all_paths_pass(nxt[0], [first] , to=[second])
        rep.check(good, "R8.3", "R8.3|pairwise_push|%s" % entry, "%s: each packet's header (.0) and payload (.1) are pushed together, unchanged, for every element" % entry, cand,
                  "%s pushes %s" % (entry, detail))
    fl = BW + "flush"
    if fl in f.fns:
        b = cg.body(fl)
        calls = list(b.calls())
        zips = [t for bb, t, cal, c in calls if cal and cal.endswith("Iterator::zip")]
        ok = len(zips) == 1 and "filtered_rdhs_buffer" in show_origin(b.origin(zips[0]["args"][0])) and "filtered_payload_buffers" in show_origin(b.origin(zips[0]["args"][1]))
        rep.check(ok, "R8.3", "R8.3|flush|zip", "flush walks headers zipped with payloads in insertion order", fl)
        ext = [(bb, t) for bb, t, cal, c in calls if cal and cal.endswith("Extend<&'a T>>::extend") or (cal and "Extend" in cal and cal.endswith("::extend"))]
        hdr = [bb for bb, t in ext if "to_byte_slice" in show_origin(b.origin(t["args"][1]))]
        pay = [bb for bb, t in ext if "to_byte_slice" not in show_origin(b.origin(t["args"][1]))]
        rep.check(len(hdr) == 1 and len(pay) == 1 and b.dominates(hdr[0], pay[0]) and b.on_cycle(hdr[0]) and b.on_cycle(pay[0]), "R8.3", "R8.3|flush|header_then_payload",
                  "in each iteration the header bytes are appended before the payload bytes", fl, "extend sites: header %s payload %s" % (hdr, pay))
        # with the writer's own `write` inlined: the data reaches the sink (write_all on the file writer or on stdout)
        # after the loop, once per path, and the buffers are cleared only behind it
        from ..mir import Body as _B, inline_fn as _inl
        bi = _B(_inl(f, fl, lambda c: c == BW + "write", max_depth=2, max_blocks=1500))
        wr = [bb for bb, t, cal, c in bi.calls() if cal and cal.endswith("::write_all")]
        clr = [bb for bb, t, cal, c in bi.calls() if cal and cal.endswith("::clear")]
        from ..mir import path_count_range as _pcr
        ok = bool(wr) and not any(bi.on_cycle(w_) for w_ in wr) and len(clr) == 2 and all(bi.all_paths_pass(0, wr, to=[c_]) for c_ in clr) \
            and _pcr(bi, 0, clr[:1], wr) == (1, 1)
        rep.check(ok, "R8.3", "R8.3|flush|write_once_then_clear", "one write after the loop, both buffers cleared only after it succeeded", fl,
                  "write sites %s, clear sites %s" % (wr, clr))
        if wr:
            srcs_ = [show_origin(bi.origin(bi.blocks[w_]["t"]["args"][1])) for w_ in wr]
            rep.check(all("from_elem" not in s_ for s_ in srcs_), "R8.3", "R8.3|flush|writes_data", "the assembled buffer is what is written", fl, "written data: %s" % [s_[:80] for s_ in srcs_])
    else:
        rep.missing("R8.3", fl)
    wimpl = BW + "write"
    if wimpl in f.fns:
        b = cg.body(wimpl)
        n = [cal for bb, t, cal, c in b.calls() if cal and cal.endswith("::write_all")]
        rep.check(len(n) == 2, "R8.3", "R8.3|write_all", "file and stdout sinks both use write_all (no partial writes)", wimpl, "write uses %s" % [c.split("::")[-1] for bb, t, c, ci in b.calls() if c])
    dr = "<fastpasta::write::writer::BufferedWriter<T> as core::ops::drop::Drop>::drop"
    if dr in f.fns:
        b = cg.body(dr)
        nd = [(bb, t) for bb, t, cal, c in b.calls() if cal and cal.endswith("mem::needs_drop")]
        fls = [bb for bb, t, cal, c in b.calls() if cal == BW + "flush"]
        ok = len(fls) == 1
        if ok and nd:
            # fold needs_drop::<BufferedWriter<T>>() to true: the type owns Vecs
            a = f.adts.get("fastpasta::write::writer::BufferedWriter")
            owns_vec = a and any("alloc::vec::Vec" in fd["ty"]["s"] for fd in a["variants"][0]["fields"])
            sw = b.blocks[nd[0][1]["t"]]["t"]
            true_t = sw["else"] if sw["k"] == "switch" else None
            ok = owns_vec and true_t is not None and fls[0] in b.reachable_from(true_t) and b.all_paths_pass(true_t, fls)
        elif ok:
            ok = b.all_paths_pass(0, fls)
        rep.check(ok, "R8.3", "R8.3|drop_flushes", "dropping the writer flushes what is buffered (needs_drop folds to true: the type owns Vecs)", dr,
                  "Drop for BufferedWriter does not flush on all paths")
    else:
        rep.missing("R8.3", dr)
    single = [p for p in (BW + "push_rdhs", BW + "push_payload") if p in reach]
    rep.check(not single, "R8.3", "R8.3|single_sided_unreachable", "single-sided push_rdhs/push_payload are unreachable from production roots", BW, "reachable: %s" % single)
    # spawn_writer: every received batch is pushed (unless stopping), writer owned by the thread closure
    sw_clo = "fastpasta::write::lib::spawn_writer::{closure#0}"
    if sw_clo in f.fns:
        b = cg.body(sw_clo)
        pushes = [bb for bb, t, cal, c in b.calls() if cal == BW + "push_cdp_arr"]
        recvs = [bb for bb, t, cal, c in b.calls() if cal and cal.endswith("Receiver::<T>::recv")]
        rep.check(len(pushes) == 1 and len(recvs) == 1 and b.on_cycle(pushes[0]) and b.dominates(recvs[0], pushes[0]), "R8.3", "R8.3|writer_loop", "each received batch is pushed once, in order", sw_clo)
        if pushes:
            o = b.origin(next(t for bb, t, cal, c in b.calls() if cal == BW + "push_cdp_arr")["args"][1])
            rep.check(any(c[1] and c[1].endswith("Receiver::<T>::recv") for c in origin_calls(o)) or "recv" in show_origin(o), "R8.3", "R8.3|writer_loop_arg", "the pushed batch is the received one", sw_clo)

    # ---------- R8.5 the output file starts empty: a truncating open precedes the append-mode open
    nw = "fastpasta::write::writer::BufferedWriter::<T>::new"
    if nw in f.fns:
        # with the writer module's own helpers inlined (the file may be opened by an extracted helper)
        from ..mir import Body as _B2, inline_fn as _inl2
        b = _B2(_inl2(f, nw, lambda c: c.replace("<", "").startswith("fastpasta::write::writer::") and "{closure" not in c, max_depth=2, max_blocks=1500))
        creates = [bb for bb, t, cal, c in b.calls() if cal == "std::fs::File::create" or cal == "std::fs::File::create_new"]
        opens = [(bb, t) for bb, t, cal, c in b.calls() if cal == "std::fs::OpenOptions::open"]
        truncs = [bb for bb, t, cal, c in b.calls() if cal == "std::fs::OpenOptions::truncate" and t["args"][1].get("c", {}).get("int") == 1]
        appends = [bb for bb, t, cal, c in b.calls() if cal == "std::fs::OpenOptions::append"]
        ok = bool(creates or opens)
        for bb, t in opens:
            ok &= any(b.dominates(cb, bb) for cb in creates) or (any(b.dominates(tb_, bb) for tb_ in truncs) and not appends)
        rep.check(ok, "R8.5", "R8.5|sink_truncated", "the output file is created/truncated before it is opened for appending (%d create, %d open)" % (len(creates), len(opens)), nw,
                  "the output file is opened (append) without a preceding truncating create: existing contents would precede the filtered data")
    else:
        rep.missing("R8.5", nw)

    # ---------- R8.4 only matching packets; payloads present in write mode; writer selection
    CFG = "fastpasta::config::Cfg"
    sp_ = "<%s as %sconfig::filter::FilterOpt>::skip_payload" % (CFG, AP)
    tb = ev.tb(sp_)
    if tb:
        # decided as a truth table: every view (none / each ViewCommands variant) × check (none / All / Sanity, with and
        # without a target): skip_payload ⇔ view rdh ∨ (check without target)
        from ..thir import Agg as _Agg, Sym as _Sym, Unsupported as _Uns
        VC = next((a_ for a_ in sorted(f.adts) if a_.endswith("::ViewCommands")), None)
        CCm = next((a_ for a_ in sorted(f.adts) if a_.endswith("::CheckCommands")), None)
        CMA = next((a_ for a_ in sorted(f.adts) if a_.endswith("::CheckModeArgs")), "CheckModeArgs")
        some = lambda x: _Agg("core::option::Option", "Some", {"0": x})
        none = _Agg("core::option::Option", "None", {})
        views = [("none", none)] + [(v_["name"], some(_Agg(VC, v_["name"], {}))) for v_ in (f.adts.get(VC) or {}).get("variants", [])]
        checks = [("none", none, None)]
        for k_ in ("All", "Sanity"):
            for tgt in (False, True):
                checks.append(("%s%s" % (k_, "+target" if tgt else ""), some(_Agg(CCm, k_, {"0": _Agg(CMA, "CheckModeArgs", {"target": some(_Sym("SYS")) if tgt else none})})), tgt))
        wrong = []
        for vn, vv in views:
            for cn, cv, tgt in checks:
                ev.call_hooks = [(lambda fn_, r_: (r_ or fn_).endswith("::view") and "Opt" in (r_ or fn_), lambda n, a, vv=vv: vv),
                                 (lambda fn_, r_: (r_ or fn_).endswith("::check") and "Opt" in (r_ or fn_), lambda n, a, cv=cv: cv)]
                try:
                    r_ = ev.as_cond(ev.call_fn(sp_, [_Sym("CFG")]))
                    got = {"true": True, "false": False}.get(r_.op, ckey(r_)[:60])
                except _Uns as e:
                    got = "unevaluable: %s" % e
                finally:
                    ev.call_hooks = []
                want = vn == "Rdh" or (cn != "none" and not tgt)
                if got != want:
                    wrong.append("view=%s check=%s → %s" % (vn, cn, got))
        rep.check(not wrong and len(views) >= 3, "R8.4", "R8.4|skip_payload_table", "skip_payload ⇔ view rdh ∨ (check without target): false when neither check nor view is set (%d combinations)" % (len(views) * len(checks)), sp_,
                  "skip_payload decision table changed: %s" % wrong[:5])
    else:
        rep.missing("R8.4", sp_)
    # writer selection in process(), decided for each of the 24 combinations of (check, view, filter, output mode): the
    # writer thread is started exactly when there is no check, no view, a filter and an output destination
    pr = "fastpasta::process"
    if pr in f.fns:
        from . import c05
        table = c05.process_consumers(f, ev)
        wrong = []
        for (chk, vw, flt, om), (names, und) in sorted(table.items()):
            want = (not chk) and (not vw) and flt and om != "None"
            if und or (("spawn_writer" in names) != want) or names.count("spawn_writer") > 1:
                wrong.append("check=%s view=%s filter=%s output=%s → %s%s" % (chk, vw, flt, om, names, " (undecided)" if und else ""))
        rep.check(not wrong and len(table) == 24, "R8.4", "R8.4|writer_selection", "writer thread iff no check, no view, filter enabled, output ≠ None (24 combinations evaluated)", pr,
                  "process() starts the writer in the wrong option combinations: %s" % wrong[:4])
    else:
        rep.missing("R8.4", pr)
    # filter predicate & matching-edge rules are C03's R3.5 (shared)
    rep.note("R3.5 (filter predicate normal form, return only on the matching edge) is evaluated under C03 and re-used here")
    _r35(ctx, ev, rep)


def _pat_summary(pat):
    k = pat["k"]
    if k == "Leaf":
        return [_pat_summary(s["p"]) if s["p"]["k"] in ("Leaf", "Or") else _one(s["p"]) for s in pat.get("subs", [])]
    if k == "Or":
        return ["|".join(str(_pat_summary(p)) for p in pat["pats"])]
    return [_one(pat)]


def _one(p):
    k = p["k"]
    if k == "Wild":
        return "_"
    if k == "Bind":
        return "bind"
    if k == "Variant":
        inner = [x for s in p.get("subs", []) for x in ([_one(s["p"])] if s["p"]["k"] != "Leaf" else _pat_summary(s["p"]))]
        return p["vname"] + ("(%s)" % ",".join(map(str, inner)) if inner and inner != ["_"] else "")
    if k == "Const":
        return "true" if p.get("int") == 1 and p["ty"] == "bool" else ("false" if p["ty"] == "bool" else str(p.get("int")))
    if k == "Deref":
        return _one(p["sub"])
    if k == "Or":
        return "|".join(_one(q) for q in p["pats"])
    return k


def _r35(ctx, ev, rep):
    filter_predicate_rules(ctx, ev, rep)
    # ---------- R8.6 the output file's buffered writer is flushed with the result used (lossless output)
    from .c17 import bufwriter_rules
    bufwriter_rules(ctx, rep, "R8.6")


def filter_predicate_rules(ctx, ev, rep):
    """filter predicate (shared with C03 R3.5 and C06), reported under R8.4"""
    f = ctx.facts()
    fp = AP + "input_scanner::is_rdh_filter_target"
    FT = AP + "config::filter::FilterTarget"
    if fp not in f.fns:
        rep.missing("R8.4", fp)
        return
    for var, w, want in (("Link", 8, ckey(Cond("cmp", "Eq", Bits.inp("RDH", 96, 8), Bits.inp("ARG", 0, 8)))),
                         ("Fee", 16, ckey(Cond("cmp", "Eq", Bits.inp("RDH", 16, 16), Bits.inp("ARG", 0, 16)))),
                         ("ItsLayerStave", 16, ckey(Cond("cmp", "Eq", Bits(16, [("RDH", 16 + i) if (0x703F >> i) & 1 else 0 for i in range(16)]),
                                                        Bits(16, [("ARG", i) if (0x703F >> i) & 1 else 0 for i in range(16)]))))):
        try:
            r = ckey(ev.call_fn(fp, [Obj("RDH", 0, RC), Agg(FT, var, {"0": Bits.inp("ARG", 0, w)})]))
        except Unsupported as e:
            r = "unsupported"
        rep.check(r == want, "R8.4", "R8.4|filter|%s" % var, "a packet matches filter %s ⇔ %s" % (var, want), fp, "filter %s predicate is %s" % (var, r))
