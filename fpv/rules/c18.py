"""C18 — truncated input is handled; the intact prefix is still analysed (input-layer error discipline).

Decided: no error of the input layer is unwrapped or dropped — every call that
reads from the input reader and returns io::Result is consumed by `?`, a match
or is returned (R18.1); at end of input the batch builder keeps the partial
batch (UnexpectedEof / InvalidData break the loop, only an empty batch is an
error) and the reader sends that batch before stopping; a payload cut short is
reported (E100/E101) and the RDH is still delivered (R18.2); the first bytes
of the input are read with error propagation (F2 repaired) (R18.1).
Not decided: equality of findings on the intact prefix (a runtime comparison)."""
from ..mir import callee_of, origin_calls, show_origin
from ..thir import Evaluator, Agg, Sym, Unsupported, vkey
from ..facts import where
from . import c03

EXPLANATION = __doc__
AP = "alice_protocol_reader::"
UNWRAPS = ("core::result::Result::<T, E>::unwrap", "core::result::Result::<T, E>::expect", "core::result::Result::<T, E>::unwrap_or_default",
           "core::result::Result::<T, E>::ok", "core::result::Result::<T, E>::unwrap_or")
INPUT_READERS = ("rdh::RdhSubword::load", "rdh::SerdeRdh::load", "rdh::SerdeRdh::load_from_rdh0", "ScanCDP>::load_payload_raw", "ScanCDP>::load_cdp", "ScanCDP>::load_rdh_cru",
                 "ScanCDP>::load_next_rdh_to_filter", "InputScanner::<R>::seek_to_next_rdh", "BufferedReaderWrapper::seek_relative_offset", "BufferedReaderWrapper>::seek_relative_offset",
                 "alice_protocol_reader::get_array_batch", "alice_protocol_reader::init_reader", "fastpasta::init_processing", "fastpasta::process")


def is_input_read(cal, cinfo):
    if not cal:
        return False
    if not any(cal.endswith(x) for x in INPUT_READERS):
        return False
    # in-memory re-decodes: reader type is a byte slice
    for ga in (cinfo or {}).get("ga", []):
        s = ga.get("s", "")
        if s in ("&[u8]", "&mut &[u8]", "&'a [u8]") or s.startswith("&[u8"):
            return False
    return True


def run(ctx, rep):
    f = ctx.facts()
    cg = ctx.cg()
    reach = ctx.reachable()
    ev = Evaluator(f)

    # ---------- R18.1
    n = 0
    for p in sorted(reach):
        fn = f.fns[p]
        if not fn.get("mir") or fn.get("derived"):
            continue
        b = cg.body(p)
        reads = [(bb, t, cal) for bb, t, cal, c in b.calls() if is_input_read(cal, c)]
        if not reads:
            continue
        unw = [(bb, t, cal) for bb, t, cal, c in b.calls() if cal in UNWRAPS]
        for rb, rt, rcal in reads:
            n += 1
            bad = None
            for ub, ut, ucal in unw:
                o = b.origin(ut["args"][0])
                while isinstance(o, tuple) and o and o[0] == "ref":
                    o = o[1]
                # the unwrapped value is the call's own result (possibly mapped): not a value merely derived from its Err payload
                if o and o[0] == "call" and o[3] == rb and o[1] == rcal:
                    bad = (ucal, ut)
                elif o and o[0] == "call" and o[1] and (o[1].endswith("::map_err") or o[1].endswith("::map") or o[1].endswith("::or_else")) and o[2]:
                    inner = o[2][0]
                    while isinstance(inner, tuple) and inner and inner[0] == "ref":
                        inner = inner[1]
                    if inner and inner[0] == "call" and inner[3] == rb and inner[1] == rcal:
                        bad = (ucal, ut)
            short = p.split("::")[-1] if "{closure" not in p else "::".join(p.split("::")[-2:])
            key = "R18.1|%s|%s|%d" % (short, rcal.split("::")[-1], len([1 for x in rep.instances if x["key"].startswith("R18.1|%s|%s|" % (short, rcal.split("::")[-1]))]))
            # result must be used at all (dest local read somewhere) unless unit
            dest = rt["dest"]["l"]
            used = dest == 0 or _local_used(b, dest)
            rep.check(bad is None and used, "R18.1", key, "%s: result of %s is propagated or matched" % (short, rcal.split("::")[-1]), "%s (%s)" % (p, where(rt["sp"])),
                      "%s %s the io::Result of %s: end of input at this point %s" % (
                          short, ("calls `%s` on" % bad[0].split("::")[-1]) if bad else "ignores", rcal.split("::")[-1], "panics" if bad else "goes unnoticed"))
    rep.floor("R18.1", n, 14, "calls that read from the input and return io::Result")

    # ---------- R18.2 batch builder keeps the partial batch
    gb = AP + "get_array_batch"
    tb = ev.tb(gb)
    if tb:
        # the guard of each `Err(e) if …` arm is evaluated (local predicate helpers inlined) to the set of
        # io::ErrorKind values it accepts: a pure disjunction of `e.kind() == ErrorKind::X`
        def kinds_of(c):
            from ..thir import Cond as _C, Agg as _A
            if isinstance(c, _C) and c.op == "cmp" and c.a[0] == "Eq":
                for x, y in ((c.a[1], c.a[2]), (c.a[2], c.a[1])):
                    if isinstance(y, _A) and y.adt.endswith("ErrorKind") and "kind" in vkey(x):
                        return {y.var}
                return None
            if isinstance(c, _C) and c.op == "or":
                out_ = set()
                for x in c.a:
                    k_ = kinds_of(x)
                    if k_ is None:
                        return None
                    out_ |= k_
                return out_
            return None

        arms = []
        for i, nd in tb.walk():
            if nd["k"] == "Match":
                for a in nd["arms"]:
                    arm = tb.arms[a]
                    pat = arm["pat"]
                    if pat["k"] == "Variant" and pat["vname"] == "Err":
                        kinds = []
                        if arm.get("guard") is not None:
                            env_ = {}
                            ev.bind(pat, Agg("core::result::Result", "Err", {"0": Sym("e")}), env_)
                            try:
                                gc = ev.as_cond(ev.eval(tb, arm["guard"], env_, 0))
                                ks = kinds_of(gc)
                            except Unsupported:
                                ks = None
                            kinds = sorted(ks) if ks is not None else ["+extra-condition"]
                        body_kinds = {x["k"] for _, x in tb.walk(arm["body"])}
                        act = "break" if "Break" in body_kinds else ("return" if "Return" in body_kinds else "other")
                        for k_ in kinds or [None]:
                            arms.append(((k_,) if k_ else (), act))
        want = {(("InvalidData",), "break"), (("UnexpectedEof",), "break")}
        rep.check(want <= set(arms) and ((), "return") in arms, "R18.2", "R18.2|builder|eof_breaks", "get_array_batch: InvalidData / UnexpectedEof keep the partial batch, other errors are returned", gb,
                  "error arms of the batch builder are %s" % arms)
        # R18.3 every error kind the input layer itself constructs for an end-of-input condition is one the builder keeps
        kept = {k[0] for k, act in arms if act == "break" and len(k) == 1}
        made = {}
        for p_ in sorted(reach):
            if AP not in p_ or p_.startswith(AP + "init_reader") or p_ == gb or "get_vec_batch" in p_:
                continue
            tbx = ev.tb(p_)
            if not tbx:
                continue
            for i, nd in tbx.walk():
                if nd["k"] == "Call" and (nd.get("fn") or "").endswith("io::error::Error::new"):
                    ks = [x.get("vname") for a in nd["args"][:1] for _, x in tbx.walk(a) if x["k"] == "Adt" and x.get("adt", "").endswith("ErrorKind")]
                    for k_ in ks or ["<computed kind>"]:
                        made.setdefault(k_, set()).add(p_.split("::")[-1])
                elif nd["k"] == "Call" and (nd.get("fn") or "").endswith("io::error::Error::other"):
                    made.setdefault("Other", set()).add(p_.split("::")[-1])
                elif nd["k"] == "Call" and "io::error::Error" in (nd.get("fn") or "") and (nd.get("fn") or "").endswith("::from") and \
                        any(x["k"] == "Adt" and x.get("adt", "").endswith("ErrorKind") for a in nd["args"] for _, x in tbx.walk(a)):
                    for a in nd["args"]:
                        for _, x in tbx.walk(a):
                            if x["k"] == "Adt" and x.get("adt", "").endswith("ErrorKind"):
                                made.setdefault(x.get("vname"), set()).add(p_.split("::")[-1])
        for k_, where_ in sorted(made.items()):
            rep.check(k_ in kept, "R18.3", "R18.3|eof_kinds_kept|%s" % k_, "io::ErrorKind::%s (constructed in %s) keeps the partial batch" % (k_, sorted(where_)), gb,
                      "the input layer constructs io::ErrorKind::%s in %s for an end-of-input condition, but the batch builder answers it with `return Err(e)`: "
                      "every packet of the current batch read before the cut is discarded" % (k_, sorted(where_)))
        rep.floor("R18.3", len(made), 2, "error kinds constructed by the input layer")
        b = cg.body(gb)
        emp = [bb for bb, t, cal, c in b.calls() if cal and cal.endswith("CdpArray::<T, CAP>::is_empty")]
        rep.check(len(emp) == 1 and not b.on_cycle(emp[0]), "R18.2", "R18.2|builder|empty_only_error", "only an empty batch is turned into Err after the loop", gb)
    else:
        rep.missing("R18.2", gb)
    # reader: partial batch is sent before stopping; Err → break
    rd = AP + "spawn_reader::{closure#0}"
    if rd in f.fns:
        b = cg.body(rd)
        sends = [bb for bb, t, cal, c in b.calls() if cal and cal.endswith("Sender::<T>::send")]
        gbc = [bb for bb, t, cal, c in b.calls() if cal == gb]
        rep.check(len(sends) == 1 and len(gbc) == 1 and b.on_cycle(sends[0]), "R18.2", "R18.2|reader|send_every_ok_batch", "every Ok batch (also the short last one) is sent", rd)
        if sends and gbc:
            # from the Ok edge of the builder result every path reaches the send (the len<CAP branch only sets the local flag)
            ok = False
            for x in b.live_blocks():
                tt = b.blocks[x]["t"]
                if tt["k"] == "switch":
                    o = b.origin(tt["d"])
                    if o[0] == "disc" and any(c_[3] == gbc[0] for c_ in origin_calls(o[1])):
                        oks = [v[1] for v in tt["vals"] if v[0] == 0]
                        ok = bool(oks) and all(b.all_paths_pass(k_, sends, to=[gbc[0]] + b.return_blocks()) for k_ in oks)
            rep.check(ok, "R18.2", "R18.2|reader|short_batch_sent", "a batch shorter than CAP is still sent (the stop is taken after the send)", rd,
                      "a path from an Ok batch to the next iteration/return skips the send: the packets before the cut are lost")
    else:
        rep.missing("R18.2", rd)
    # load_cdp: payload EOF is reported and the RDH still returned
    lc = c03.SCAN + "load_cdp"
    tb = ev.tb(lc)
    if tb:
        found = {}
        for i, nd in tb.walk():
            if nd["k"] == "Match":
                for a in nd["arms"]:
                    arm = tb.arms[a]
                    if arm["pat"]["k"] == "Variant" and arm["pat"]["vname"] == "Err" and arm.get("guard") is not None:
                        kinds = [x.get("vname") for _, x in tb.walk(arm["guard"]) if x["k"] == "Adt" and x.get("adt", "").endswith("ErrorKind")]
                        ks = {x["k"] for _, x in tb.walk(arm["body"])}
                        reports = any((c.get("fn") or "").endswith("InputScanner::<R>::report") for _, c in tb.calls(arm["body"]))
                        found[tuple(kinds)] = ("Return" not in ks, reports)
        rep.check(found.get(("UnexpectedEof",)) == (True, True), "R18.2", "R18.2|load_cdp|payload_eof", "a payload cut short is reported (E100) and the RDH is still returned", lc,
                  "payload-EOF arm of load_cdp: %s" % found)
        # skip path: InvalidInput from the seek → E101, continue
        conds = []
        for i, nd in tb.walk():
            if nd["k"] == "If":
                kinds = [x.get("vname") for _, x in tb.walk(nd["cond"]) if x["k"] == "Adt" and x.get("adt", "").endswith("ErrorKind")]
                if kinds:
                    then_ret = any(x["k"] == "Return" for _, x in tb.walk(nd["then"]))
                    else_ret = nd.get("else") is not None and any(x["k"] == "Return" for _, x in tb.walk(nd["else"]))
                    conds.append((tuple(kinds), then_ret, else_ret))
        rep.check((("InvalidInput",), False, True) in conds, "R18.2", "R18.2|load_cdp|seek_eof", "a skip past the end (InvalidInput) is reported (E101) and processing continues; other errors are returned", lc,
                  "seek-error handling in load_cdp: %s" % conds)
    else:
        rep.missing("R18.2", lc)
    # ---------- R18.4 the truncation messages keep the canonical shape (the statistics thread parses `^0x[0-9A-F]+`)
    from . import c07
    bad = c07.message_shape_violations(ctx, "dev", only_codes=("[E100]", "[E101]"))
    rep.check(not bad, "R18.4", "R18.4|truncation_message_shape", "[E100]/[E101] start with an upper-hex offset like every other error (sortable by the statistics thread)", "input_scanner.rs",
              "truncation message(s) %s do not start with `{pos:#X}: `: ErrorStats::sort_error_msgs_by_mem_pos panics on them and the findings for the intact prefix are lost" % bad)
    # analysis: every received batch is processed (recv loop) — shared with C17 R17.2


def _local_used(b, l):
    """is local l read by any statement/terminator (not just dropped)"""
    for i in b.live_blocks():
        blk = b.blocks[i]
        for s in blk["s"]:
            if s["k"] == "assign":
                rv = s["rv"]
                for key in ("op", "a", "b"):
                    o = rv.get(key)
                    if isinstance(o, dict):
                        pl = o.get("cp") or o.get("mv")
                        if pl and pl["l"] == l:
                            return True
                for o in rv.get("ops", []):
                    pl = o.get("cp") or o.get("mv")
                    if pl and pl["l"] == l:
                        return True
                pl = rv.get("pl")
                if pl and pl["l"] == l:
                    return True
        t = blk["t"]
        for o in t.get("args", []) + ([t["d"]] if "d" in t else []):
            if isinstance(o, dict):
                pl = o.get("cp") or o.get("mv")
                if pl and pl["l"] == l:
                    return True
    return False
