"""C18 — truncated input is handled; the intact prefix is still analysed (input-layer error discipline).

Decided: no error of the input layer is unwrapped or dropped — every call that
reads from the input reader and returns io::Result is consumed by `?`, a match
or is returned (R18.1); at end of input the batch builder keeps the partial
batch (UnexpectedEof / InvalidData break the loop, only an empty batch is an
error) and the reader sends that batch before stopping; a payload cut short is
reported (E100/E101) and the RDH is still delivered (R18.2); the first bytes
of the input are read with error propagation (F2 repaired) (R18.1).
Not decided: equality of findings on the intact prefix (a runtime comparison)."""
import re

from ..mir import callee_of, origin_calls, show_origin
from ..thir import Evaluator, Agg, Sym, Unsupported, vkey
from ..facts import where
from . import c03

EXPLANATION = __doc__
AP = "alice_protocol_reader::"
UNWRAPS = ("core::result::Result::<T, E>::unwrap", "core::result::Result::<T, E>::expect", "core::result::Result::<T, E>::unwrap_or_default",
           "core::result::Result::<T, E>::ok", "core::result::Result::<T, E>::unwrap_or")
INPUT_READERS = ("rdh::RdhSubword::load", "rdh::SerdeRdh::load", "rdh::SerdeRdh::load_from_rdh0", "ScanCDP>::load_payload_raw", "ScanCDP>::load_cdp", "ScanCDP>::load_rdh_cru",
                 "ScanCDP>::load_next_rdh_to_filter", "InputScanner::<R>::seek_to_next_rdh", "BufferedReaderWrapper::seek_relative_offset", "BufferedReaderWrapper>::seek_relative_offset",
                 "alice_protocol_reader::get_array_batch", "alice_protocol_reader::init_reader", "fastpasta::init_processing", "fastpasta::process")


def is_input_read(cal, cinfo):
    if not cal:
        return False
    if not any(cal.endswith(x) for x in INPUT_READERS):
        return False
    # in-memory re-decodes: reader type is a byte slice
    for ga in (cinfo or {}).get("ga", []):
        s = ga.get("s", "")
        if s in ("&[u8]", "&mut &[u8]", "&'a [u8]") or s.startswith("&[u8"):
            return False
    return True


def run(ctx, rep):
    f = ctx.facts()
    cg = ctx.cg()
    reach = ctx.reachable()
    ev = Evaluator(f)

    # ---------- R18.1
    n = 0
    for p in sorted(reach):
        fn = f.fns[p]
        if not fn.get("mir") or fn.get("derived"):
            continue
        b = cg.body(p)
        reads = [(bb, t, cal) for bb, t, cal, c in b.calls() if is_input_read(cal, c)]
        if not reads:
            continue
        unw = [(bb, t, cal) for bb, t, cal, c in b.calls() if cal in UNWRAPS]
        for rb, rt, rcal in reads:
            n += 1
            bad = None
            for ub, ut, ucal in unw:
                o = b.origin(ut["args"][0])
                while isinstance(o, tuple) and o and o[0] == "ref":
                    o = o[1]
                # the unwrapped value is the call's own result (possibly mapped): not a value merely derived from its Err payload
                if o and o[0] == "call" and o[3] == rb and o[1] == rcal:
                    bad = (ucal, ut)
                elif o and o[0] == "call" and o[1] and (o[1].endswith("::map_err") or o[1].endswith("::map") or o[1].endswith("::or_else")) and o[2]:
                    inner = o[2][0]
                    while isinstance(inner, tuple) and inner and inner[0] == "ref":
                        inner = inner[1]
                    if inner and inner[0] == "call" and inner[3] == rb and inner[1] == rcal:
                        bad = (ucal, ut)
            short = p.split("::")[-1] if "{closure" not in p else "::".join(p.split("::")[-2:])
            key = "R18.1|%s|%s|%d" % (short, rcal.split("::")[-1], len([1 for x in rep.instances if x["key"].startswith("R18.1|%s|%s|" % (short, rcal.split("::")[-1]))]))
            # result must be used at all (dest local read somewhere) unless unit
            dest = rt["dest"]["l"]
            used = dest == 0 or _local_used(b, dest)
            rep.check(bad is None and used, "R18.1", key, "%s: result of %s is propagated or matched" % (short, rcal.split("::")[-1]), "%s (%s)" % (p, where(rt["sp"])),
                      "%s %s the io::Result of %s: end of input at this point %s" % (
                          short, ("calls `%s` on" % bad[0].split("::")[-1]) if bad else "ignores", rcal.split("::")[-1], "panics" if bad else "goes unnoticed"))
    rep.floor("R18.1", n, 14, "calls that read from the input and return io::Result")

    # ---------- R18.2 batch builder keeps the partial batch
    gb = AP + "get_array_batch"
    tb = ev.tb(gb)
    if tb:
        # the guard of each `Err(e) if …` arm is evaluated (local predicate helpers inlined) to the set of
        # io::ErrorKind values it accepts: a pure disjunction of `e.kind() == ErrorKind::X`
        def kinds_of(c):
            from ..thir import Cond as _C, Agg as _A
            if isinstance(c, _C) and c.op == "cmp" and c.a[0] == "Eq":
                for x, y in ((c.a[1], c.a[2]), (c.a[2], c.a[1])):
                    if isinstance(y, _A) and y.adt.endswith("ErrorKind") and "kind" in vkey(x):
                        return {y.var}
                return None
            if isinstance(c, _C) and c.op == "sym":
                m_ = re.fullmatch(r"is(\w+)\((.*)\)", str(c.a[0]), re.S)
                if m_ and "kind" in m_.group(2):
                    return {m_.group(1)}
                return None
            if isinstance(c, _C) and c.op == "or":
                out_ = set()
                for x in c.a:
                    k_ = kinds_of(x)
                    if k_ is None:
                        return None
                    out_ |= k_
                return out_
            return None

        arms = []
        for i, nd in tb.walk():
            if nd["k"] == "Match":
                for a in nd["arms"]:
                    arm = tb.arms[a]
                    pat = arm["pat"]
                    if pat["k"] == "Variant" and pat["vname"] == "Err":
                        kinds = []
                        if arm.get("guard") is not None:
                            env_ = {}
                            ev.bind(pat, Agg("core::result::Result", "Err", {"0": Sym("e")}), env_)
                            try:
                                gc = ev.as_cond(ev.eval(tb, arm["guard"], env_, 0))
                                ks = kinds_of(gc)
                            except Unsupported:
                                ks = None
                            kinds = sorted(ks) if ks is not None else ["+extra-condition"]
                        body_kinds = {x["k"] for _, x in tb.walk(arm["body"])}
                        act = "break" if "Break" in body_kinds else ("return" if "Return" in body_kinds else "other")
                        for k_ in kinds or [None]:
                            arms.append(((k_,) if k_ else (), act))
        want = {(("InvalidData",), "break"), (("UnexpectedEof",), "break")}
        rep.check(want <= set(arms) and ((), "return") in arms, "R18.2", "R18.2|builder|eof_breaks", "get_array_batch: InvalidData / UnexpectedEof keep the partial batch, other errors are returned", gb,
                  "error arms of the batch builder are %s" % arms)
        # R18.3 every error kind the input layer itself constructs for an end-of-input condition is one the builder keeps
        kept = {k[0] for k, act in arms if act == "break" and len(k) == 1}
        made = {}
        for p_ in sorted(reach):
            if AP not in p_ or p_.startswith(AP + "init_reader") or p_ == gb or "get_vec_batch" in p_:
                continue
            tbx = ev.tb(p_)
            if not tbx:
                continue
            for i, nd in tbx.walk():
                if nd["k"] == "Call" and (nd.get("fn") or "").endswith("io::error::Error::new"):
                    ks = [x.get("vname") for a in nd["args"][:1] for _, x in tbx.walk(a) if x["k"] == "Adt" and x.get("adt", "").endswith("ErrorKind")]
                    for k_ in ks or ["<computed kind>"]:
                        made.setdefault(k_, set()).add(p_.split("::")[-1])
                elif nd["k"] == "Call" and (nd.get("fn") or "").endswith("io::error::Error::other"):
                    made.setdefault("Other", set()).add(p_.split("::")[-1])
                elif nd["k"] == "Call" and "io::error::Error" in (nd.get("fn") or "") and (nd.get("fn") or "").endswith("::from") and \
                        any(x["k"] == "Adt" and x.get("adt", "").endswith("ErrorKind") for a in nd["args"] for _, x in tbx.walk(a)):
                    for a in nd["args"]:
                        for _, x in tbx.walk(a):
                            if x["k"] == "Adt" and x.get("adt", "").endswith("ErrorKind"):
                                made.setdefault(x.get("vname"), set()).add(p_.split("::")[-1])
        for k_, where_ in sorted(made.items()):
            rep.check(k_ in kept, "R18.3", "R18.3|eof_kinds_kept|%s" % k_, "io::ErrorKind::%s (constructed in %s) keeps the partial batch" % (k_, sorted(where_)), gb,
                      "the input layer constructs io::ErrorKind::%s in %s for an end-of-input condition, but the batch builder answers it with `return Err(e)`: "
                      "every packet of the current batch read before the cut is discarded" % (k_, sorted(where_)))
        rep.floor("R18.3", len(made), 2, "error kinds constructed by the input layer")
        b = cg.body(gb)
        emp = [bb for bb, t, cal, c in b.calls() if cal and cal.endswith("CdpArray::<T, CAP>::is_empty")]
        rep.check(len(emp) == 1 and not b.on_cycle(emp[0]), "R18.2", "R18.2|builder|empty_only_error", "only an empty batch is turned into Err after the loop", gb)
    else:
        rep.missing("R18.2", gb)
    # reader: partial batch is sent before stopping; Err → break
    rd = AP + "spawn_reader::{closure#0}"
    if rd in f.fns:
        b = cg.body(rd)
        sends = [bb for bb, t, cal, c in b.calls() if cal and cal.endswith("Sender::<T>::send")]
        gbc = [bb for bb, t, cal, c in b.calls() if cal == gb]
        rep.check(len(sends) == 1 and len(gbc) == 1 and b.on_cycle(sends[0]), "R18.2", "R18.2|reader|send_every_ok_batch", "every Ok batch (also the short last one) is sent", rd)
        if sends and gbc:
            # from the Ok edge of the builder result every path reaches the send (the len<CAP branch only sets the local flag)
            ok = False
            cands = []
            for x in b.live_blocks():
                tt = b.blocks[x]["t"]
                if tt["k"] == "switch":
                    o = b.origin(tt["d"])
                    if o[0] == "disc" and any(c_[3] == gbc[0] for c_ in origin_calls(o[1])) and b.dominates(x, sends[0]):
                        cands.append(x)
            # the test of the builder's result that decides between "send" and "leave" (later tests of the same
            # discriminant belong to drop elaboration)
            first = [x for x in cands if all(b.dominates(x, y) for y in cands)]
            if first:
                tt = b.blocks[first[0]]["t"]
                oks = [v[1] for v in tt["vals"] if v[0] == 0]
                ok = bool(oks) and all(b.all_paths_pass(k_, sends, to=[gbc[0]] + b.return_blocks()) for k_ in oks)
            rep.check(ok, "R18.2", "R18.2|reader|short_batch_sent", "a batch shorter than CAP is still sent (the stop is taken after the send)", rd,
                      "a path from an Ok batch to the next iteration/return skips the send: the packets before the cut are lost")
    else:
        rep.missing("R18.2", rd)
    # load_cdp: payload EOF is reported and the RDH still returned
    lc = c03.SCAN + "load_cdp"
    if lc in f.fns:
        # guarded records (if/else, early return, match guard are equivalent here): the report of [E100]/[E101] runs
        # exactly under `kind == K`, processing continues there, and every other kind is returned
        from ..thir import canon_guard
        ev.watch = lambda c: c.endswith("InputScanner::<R>::report")
        ev.watch_codes = True
        # reporting helpers of the scanner (methods that only wrap `report`) are expanded in place
        rp_ = [p_ for p_ in f.fns if p_.endswith("InputScanner::<R>::report")]
        helpers = {c_ for c_ in (cg.callers(rp_[0]) if rp_ else ()) if c_ != lc and not c_.split("::")[-1].startswith("load_") and "{closure" not in c_}
        try:
            recs = [o for o in ev.collect_ifs(lc, [Sym("self")], follow=lambda c: c in helpers) if "ret" not in o or o.get("fn") == lc]
        finally:
            ev.watch = None
            ev.watch_codes = False
        KIND = re.compile(r"^(Eq|Ne)\(sym\(call:std::io::error::Error::kind\((.*)\)\),ErrorKind::(\w+)\(\)\)$", re.S)

        def kinds(guard):
            pos, neg = set(), set()
            for g in guard:
                for part in ([g] if not g.startswith("and[") else _split_top(g[4:-1], ";")):
                    cg_ = canon_guard(part)
                    m_ = KIND.search(cg_)
                    if m_ and not cg_.startswith("not "):
                        (pos if m_.group(1) == "Eq" else neg).add(m_.group(3))
            return pos, neg

        rets = [o for o in recs if "ret" in o]
        for code, kind, what in (("E100", "UnexpectedEof", "a payload cut short is reported (E100) and the RDH is still returned"),
                                 ("E101", "InvalidInput", "a skip past the end (InvalidInput) is reported (E101) and processing continues; other errors are returned")):
            # the report that runs exactly under `kind == K` (identified by its guard, not by the text of its code)
            cr = [o for o in recs if "call" in o and kinds(o["guard"])[0] == {kind}]
            codes_here = [o["code"] for o in recs if "code" in o and kinds(o["guard"])[0] == {kind}]
            ok = len(cr) == 1 and (not codes_here or codes_here == [code])
            det = "reports under kind == %s: %d, code literals there: %s" % (kind, len(cr), codes_here)
            if ok:
                g0 = set(canon_guard(x) for x in cr[0]["guard"])
                # no return under the reporting condition
                early = [o for o in rets if g0 <= set(canon_guard(x) for x in o["guard"])]
                # the other kinds are returned
                other = [o for o in rets if kind in kinds(o["guard"])[1] or (o["ret"].startswith("Result::Err(") and any("isErr(" in x for x in o["guard"]) and kind not in kinds(o["guard"])[0] and len(o["guard"]) >= len(cr[0]["guard"]) - 0)]
                ok = not early and bool(other)
                det = "returns under the reporting condition: %d, returns for other kinds: %d" % (len(early), len(other))
            key = "R18.2|load_cdp|payload_eof" if code == "E100" else "R18.2|load_cdp|seek_eof"
            rep.check(ok, "R18.2", key, what, lc, "%s handling in load_cdp: %s" % (code, det))
    else:
        rep.missing("R18.2", lc)
    # ---------- R18.4 the truncation messages keep the canonical shape (the statistics thread parses `^0x[0-9A-F]+`)
    from . import c07
    # every Error message built by the input layer (the scanner crate) — the truncation messages, whether the code is
    # written in the template or passed to a shared helper/constructor
    n_msgs = []
    bad = c07.message_shape_violations(ctx, "dev", within_prefix="alice_protocol_reader::", counter=n_msgs)
    rep.floor("R18.4", len(n_msgs), 1, "Error messages built by the input layer")
    rep.check(not bad, "R18.4", "R18.4|truncation_message_shape", "[E100]/[E101] start with an upper-hex offset like every other error (sortable by the statistics thread)", "input_scanner.rs",
              "truncation message(s) %s do not start with `{pos:#X}: `: ErrorStats::sort_error_msgs_by_mem_pos panics on them and the findings for the intact prefix are lost" % bad)
    # ---------- R18.5 an input that merely ends is never Fatal
    # Controller::update answers a Fatal by raising the stop flag and dropping every later Error message, so a Fatal
    # from the input layer erases the findings of the intact prefix.  The only condition the input layer may report
    # that way is the invalid RDH offset (InvalidData) in sanity_check_offset_next; end-of-input conditions are Errors.
    from .. import emit as _emit
    fatals = sorted({s_["fn"] for s_ in _emit.error_sites(f, cg, reach) if s_["variant"] == "Fatal" and "InputStatType" in (s_.get("adt") or "") and s_["fn"].replace("<", "").startswith(AP)})
    allowed = {p_ for p_ in f.fns if p_.startswith(AP) and p_.split("::")[-1] == "sanity_check_offset_next"}
    rep.check(bool(fatals) and set(fatals) <= allowed, "R18.5", "R18.5|input_layer_fatal_sites", "the input layer reports Fatal only for an invalid RDH offset (%s)" % [x.split("::")[-1] for x in fatals],
              "alice_protocol_reader/src/input_scanner.rs",
              "InputStatType::Fatal is constructed in %s: after a Fatal the controller discards every later error message, so the findings of the packets "
              "before an end-of-input condition are lost" % [x for x in fatals if x not in allowed])
    # analysis: every received batch is processed (recv loop) — shared with C17 R17.2


def _split_top(text, sep):
    """split on `sep` outside any bracket"""
    out, depth, start = [], 0, 0
    for i, ch in enumerate(text):
        if ch in "([{":
            depth += 1
        elif ch in ")]}":
            depth -= 1
        elif ch == sep and depth == 0:
            out.append(text[start:i])
            start = i + 1
    out.append(text[start:])
    return out


def _local_used(b, l):
    """is local l read by any statement/terminator (not just dropped)"""
    for i in b.live_blocks():
        blk = b.blocks[i]
        for s in blk["s"]:
            if s["k"] == "assign":
                rv = s["rv"]
                for key in ("op", "a", "b"):
                    o = rv.get(key)
                    if isinstance(o, dict):
                        pl = o.get("cp") or o.get("mv")
                        if pl and pl["l"] == l:
                            return True
                for o in rv.get("ops", []):
                    pl = o.get("cp") or o.get("mv")
                    if pl and pl["l"] == l:
                        return True
                pl = rv.get("pl")
                if pl and pl["l"] == l:
                    return True
        t = blk["t"]
        for o in t.get("args", []) + ([t["d"]] if "d" in t else []):
            if isinstance(o, dict):
                pl = o.get("cp") or o.get("mv")
                if pl and pl["l"] == l:
                    return True
    return False
