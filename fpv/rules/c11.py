"""C11 — word-level sanity predicates are exact for all 80-bit values.

Decided for all 2^80 values at once: for each StatusWordValidator::sanity_check
the error predicate, normalised to wire bits (byte placement from from_buf,
accessor masks inlined), equals  id != K  ∨  reserved-mask ≠ 0  ∨  word rule
from oracles/its_words.json; data-word ID set, IB/OB lane maps, lane-active bit
and connector-input limit equal oracles/dw_ids.json (the u8 identifier domain
is enumerated by constant folding of the extracted expressions)."""
from ..mir import show_origin
from ..thir import Evaluator, Obj, Agg, Sym, Bits, Cond, Slice, ckey, vkey, oracle_cond, Unsupported
from ..facts import where

EXPLANATION = __doc__
W = "fastpasta::words::its::status_words::"
SV = "fastpasta::analyze::validators::its::status_word::"
WORDS = {
    "Ihw": (W + "ihw::Ihw", SV + "ihw::IhwValidator"),
    "Tdh": (W + "tdh::Tdh", SV + "tdh::TdhValidator"),
    "Tdt": (W + "tdt::Tdt", SV + "tdt::TdtValidator"),
    "Ddw0": (W + "ddw::Ddw0", SV + "ddw::Ddw0Validator"),
}


def check_placement(ctx, ev, rep, rule, name, adt, root="W", size=10):
    """from_buf places wire bytes [off, off+size) of each field at the field's packed-layout offset"""
    f = ctx.facts()
    a = f.adts.get(adt)
    if not a:
        rep.missing(rule, adt)
        return False
    ok = rep.check(a.get("packed") and a.get("size") == size, rule, "%s|layout|%s" % (rule, name),
                   "%s is repr(packed), size %s" % (name, a.get("size")), where(a.get("span")),
                   "%s: packed=%s size=%s (expected packed, %d bytes)" % (name, a.get("packed"), a.get("size"), size))
    fb = "<%s as %sStatusWord>::from_buf" % (adt, W)
    if fb not in f.fns:
        rep.missing(rule, fb)
        return False
    try:
        v = ev.call_fn(fb, [Slice(root, 0, size)])
    except Unsupported as e:
        rep.bad(rule, "%s|from_buf|%s" % (rule, name), "from_buf not evaluable: %s" % e, fb)
        return False
    if not (isinstance(v, Agg) and v.var == "Ok" and isinstance(v.fields.get("0"), Agg)):
        rep.bad(rule, "%s|from_buf|%s" % (rule, name), "UNRECOGNISED from_buf result %s" % vkey(v)[:200], fb)
        return False
    st = v.fields["0"]
    fields = a["variants"][0]["fields"]
    for i, fd in enumerate(fields):
        off, sz = a["offsets"][i], a["field_sizes"][i]
        val = st.fields.get(fd["name"])
        exp = Bits.inp(root, 8 * off, 8 * sz)
        good = isinstance(val, Bits) and val.w == exp.w and val.b == exp.b
        ok &= rep.check(good, rule, "%s|placement|%s.%s" % (rule, name, fd["name"]),
                        "%s.%s ← little-endian wire bits [%d:%d]" % (name, fd["name"], 8 * off + 8 * sz - 1, 8 * off), fb,
                        "%s.%s is decoded from %s but lives at byte offset %d (size %d): to_byte_slice/accessors would not denote the wire bits" % (
                            name, fd["name"], vkey(val)[:160], off, sz))
    return ok


def run(ctx, rep):
    f = ctx.facts()
    ev = Evaluator(f)
    orc = ctx.oracle("its_words.json")
    dwo = ctx.oracle("dw_ids.json")
    ev1 = Evaluator(None)

    # ---- R11.1 status words
    impls = [im for im in f.impls if (im.get("trait") or "").endswith("status_word::StatusWordValidator")]
    rep.floor("R11.1", len(impls), 4, "impls of StatusWordValidator")
    for name, (adt, val) in WORDS.items():
        o = orc["words"][name]
        check_placement(ctx, ev, rep, "R11.1", name, adt)
        fn = "<%s as %sStatusWordValidator<%s>>::sanity_check" % (val, SV, adt)
        if fn not in f.fns:
            rep.missing("R11.1", fn)
            continue
        out = ev.collect_ifs(fn, [Obj("W", 0, adt)])
        # (1) the atomic tests of the function, each in its positive (error) polarity — `reserved == 0` in an
        # if/else with the error in the else branch is the same atom as `reserved != 0`
        from ..thir import cnot as _cnot
        def positive(c):
            # the atom, whichever way round it is tested (`any(bits)` / `Ne(..)` form); which outcome is the error
            # is decided by the truth table below
            k = ckey(c)
            if k.startswith("none(") or k.startswith("Eq("):
                return ckey(_cnot(c))
            return k
        conds = [(positive(c["cond"]), c) for c in out if "cond" in c and "is_empty" not in ckey(c["cond"]) and ckey(c["cond"]) not in ("true", "false")]
        keys = []
        for k, _ in conds:
            if k not in keys:
                keys.append(k)
        k_id = ckey(oracle_cond({"cmp": "Ne", "bits": [79, 72], "const": o["id"]}, "W"))
        k_res = ckey(oracle_cond({"any": o["reserved"]}, "W"))
        want = [k_id, k_res]
        names = ["id != %#x" % o["id"], "reserved bits %s set" % o["reserved"]]
        witness = [("id", lambda on, o=o: [(72, 8, (o["id"] ^ 0x01) if on else o["id"])]),
                   ("reserved", lambda on, o=o: [(o["reserved"][-1][1], 1, 1 if on else 0)])]
        if o.get("extra_error"):
            xe = o["extra_error"]
            want.append(positive(oracle_cond(xe, "W")))
            names.append(o["extra_name"])
            if "none" in xe:
                # error when all of these bits are clear
                xb = xe["none"][0]
                witness.append(("extra", lambda on, xb=xb: [(xb[1], 1, 0 if on else 1)]))
            else:
                xb = xe.get("bits") or xe["any"][0]
                witness.append(("extra", lambda on, xb=xb: [(xb[1], 1, 1 if on else 0)]))
        for k, nm in zip(want, names):
            rep.check(k in keys, "R11.1", "R11.1|%s|%s" % (name, nm), "%s: error iff %s ⇔ %s" % (name, nm, k), fn,
                      "%s sanity check: documented condition '%s' (normal form %s) not found; conditions present: %s" % (name, nm, k, keys))
        for k in keys:
            if k not in want:
                rep.bad("R11.1", "R11.1|%s|extra|%s" % (name, k), "%s sanity check tests an undocumented/altered condition %s" % (name, k), fn)
        # (2) how the atoms are combined: the function is evaluated on one witness word for each truth assignment of
        # the atoms (they read disjoint bits) — Err exactly when at least one atom holds.  Together with (1) this
        # fixes the verdict for every one of the 2^80 words.
        wrong = []
        for mask in range(1 << len(witness)):
            ev.assume = {}
            ev.assume_bits("W", 0, 80, 0)
            on_any = False
            for j, (wn, wf) in enumerate(witness):
                on = bool(mask >> j & 1)
                on_any = on_any or on
                for lo_, w_, v_ in wf(on):
                    ev.assume_bits("W", lo_, w_, v_)
            ev.strings = True
            try:
                r = vkey(ev.call_fn(fn, [Obj("W", 0, adt)]))
            except Unsupported as e:
                r = "unevaluable %s" % e
            finally:
                ev.assume = {}
                ev.strings = False
            verdict = "Err" if r.startswith("Result::Err(") else ("Ok" if r.startswith("Result::Ok(") else r[:60])
            if verdict != ("Err" if on_any else "Ok"):
                wrong.append(({wn: bool(mask >> j & 1) for j, (wn, _) in enumerate(witness)}, verdict))
        rep.check(not wrong, "R11.1", "R11.1|%s|combination" % name, "%s: Err exactly when at least one documented condition holds (%d assignments of the atoms evaluated)" % (name, 1 << len(witness)), fn,
                  "%s sanity check combines its conditions wrongly: %s" % (name, wrong[:4]))
        # accessor fields denote the documented bits
        for fld, (hi, lo) in o["fields"].items():
            acc = "%s::%s" % (adt, fld)
            if acc not in f.fns:
                continue
            try:
                v = ev.call_fn(acc, [Obj("W", 0, adt)])
            except Unsupported:
                v = None
            exp_bits = Bits.inp("W", lo, hi - lo + 1)
            good = False
            if isinstance(v, Bits):
                vv = v.resize(max(v.w, exp_bits.w))
                good = vv.b[:exp_bits.w] == exp_bits.b and all(x == 0 for x in vv.b[exp_bits.w:])
            elif isinstance(v, Cond):
                good = ckey(v) == ckey(Cond("any", frozenset(exp_bits.b), True))
            rep.check(good, "R11.3", "R11.3|%s.%s" % (name, fld), "%s::%s() denotes wire bits [%d:%d]" % (name, fld, hi, lo), acc,
                      "%s::%s() evaluates to %s, documented bits are [%d:%d]" % (name, fld, vkey(v)[:160] if v is not None else "?", hi, lo))
        # ID constants
        c = f.consts.get(adt + "::ID")
        rep.check(c is not None and c.get("int") == o["id"], "R11.1", "R11.1|%s|ID" % name, "%s::ID == %#x" % (name, o["id"]), adt,
                  "%s::ID is %s, documented %#x" % (name, c.get("int") if c else None, o["id"]))
    # CDW
    cdw = W + "cdw::Cdw"
    check_placement(ctx, ev, rep, "R11.1", "Cdw", cdw)
    c = f.consts.get(cdw + "::ID")
    rep.check(c is not None and c.get("int") == orc["words"]["Cdw"]["id"], "R11.1", "R11.1|Cdw|ID", "Cdw::ID == 0xF8", cdw)
    for fld, (hi, lo) in orc["words"]["Cdw"]["fields"].items():
        acc = "%s::%s" % (cdw, fld)
        try:
            v = ev.call_fn(acc, [Obj("W", 0, cdw)])
        except Unsupported:
            v = None
        exp_bits = Bits.inp("W", lo, hi - lo + 1)
        good = isinstance(v, Bits) and v.resize(max(v.w, exp_bits.w)).b[:exp_bits.w] == exp_bits.b and all(x == 0 for x in v.resize(max(v.w, exp_bits.w)).b[exp_bits.w:])
        rep.check(good, "R11.3", "R11.3|Cdw.%s" % fld, "Cdw::%s() denotes wire bits [%d:%d]" % (fld, hi, lo), acc,
                  "Cdw::%s() evaluates to %s" % (fld, vkey(v)[:160] if v is not None else "?"))

    # ---- R11.3 slice helpers used by FSM and views
    U = W + "util::"
    for h, (hi, lo) in orc["slice_helpers"].items():
        p = U + h
        if p not in f.fns:
            rep.missing("R11.3", p)
            continue
        try:
            v = ev.call_fn(p, [Slice("W", 0, 10)])
        except Unsupported:
            v = None
        exp = ckey(Cond("any", frozenset((("W", j) for j in range(lo, hi + 1))), True))
        rep.check(isinstance(v, Cond) and ckey(v) == exp, "R11.3", "R11.3|util::%s" % h, "%s ⇔ %s" % (h, exp), p,
                  "%s evaluates to %s, documented %s" % (h, ckey(v) if v is not None else "?", exp))

    # ---- R11.2 data words
    DW = "fastpasta::analyze::validators::its::data_words::"
    valid = set()
    for lo, hi in dwo["il"] + dwo["ml"] + dwo["ol"]:
        valid.update(range(lo, hi + 1))
    fnv = DW + "DataWordSanityChecker::is_valid_any_id"
    if fnv in f.fns:
        got = set()
        bad_eval = []
        for i in range(256):
            try:
                r = ev.call_fn(fnv, [Bits.const(i, 8)])
            except Unsupported as e:
                r = None
            if isinstance(r, Cond) and r.op in ("true", "false"):
                if r.op == "true":
                    got.add(i)
            else:
                bad_eval.append(i)
        rep.check(not bad_eval, "R11.2", "R11.2|valid_ids|foldable", "is_valid_any_id folds to a constant for all 256 identifiers", fnv,
                  "UNRECOGNISED form for ids %s" % bad_eval[:8])
        rep.check(got == valid, "R11.2", "R11.2|valid_ids|set", "valid data-word ID set = documented %d IDs" % len(valid), fnv,
                  "valid ID set differs from the documented one: extra %s missing %s" % (sorted(hex(x) for x in got - valid), sorted(hex(x) for x in valid - got)))
        rep.extra["id_domain_enumerated"] = 256
    else:
        rep.missing("R11.2", fnv)
    # check_any: error iff !is_valid_any_id(data_word[9])
    ca = DW + "DataWordSanityChecker::check_any"
    if ca in f.fns:
        # decided per concrete identifier (all 256): Err exactly for the identifiers outside the documented set
        wrong, k = [], ""
        for i in range(256):
            ev.assume = {}
            ev.assume_bits("W", 72, 8, i)
            try:
                r = vkey(ev.call_fn(ca, [Slice("W", 0, 10)]))
            except Unsupported as e:
                r = "unevaluable %s" % e
            finally:
                ev.assume = {}
            verdict = "Ok" if r.startswith("Result::Ok(") else ("Err" if r.startswith("Result::Err(") else r[:80])
            if verdict != ("Ok" if i in valid else "Err"):
                wrong.append((hex(i), verdict))
        ok = not wrong
        k = "identifiers with the wrong verdict: %s" % wrong[:8]
        rep.check(ok, "R11.2", "R11.2|check_any", "check_any: [E70] iff byte 9 is outside all documented ID ranges", ca,
                  "check_any: %s" % k)
    else:
        rep.missing("R11.2", ca)
    # IB lane and lane-active
    ibc = DW + "ib::IbDataWordValidator::check"
    if ibc in f.fns:
        out = ev.collect_ifs(ibc, [Slice("W", 0, 10), Bits.inp("ACTIVE", 0, 32)])
        cs = [ckey(c["cond"]) for c in out if "cond" in c]
        rep.check(len(cs) == 1 and "W[76:72]" in cs[0] and "ACTIVE" in cs[0], "R11.2", "R11.2|ib|lane_expr",
                  "IB check tests active_lanes bit of lane = id & 0x1F: %s" % cs, ibc,
                  "IB lane check condition is %s (expected lane = byte9[4:0] looked up in active_lanes)" % cs)
    else:
        rep.missing("R11.2", ibc)
    ila = W + "util::is_lane_active"
    if ila in f.fns:
        okc = 0
        for lane in range(32):
            r = ev.call_fn(ila, [Bits.const(lane, 8), Bits.inp("ACTIVE", 0, 32)])
            exp = ckey(Cond("any", frozenset([("ACTIVE", lane)]), True))
            if isinstance(r, Cond) and ckey(r) == exp:
                okc += 1
        rep.check(okc == 32, "R11.2", "R11.2|is_lane_active", "is_lane_active(l, a) ⇔ bit l of a, for l in 0..32", ila,
                  "is_lane_active does not denote bit `lane` of active_lanes for %d of 32 lanes" % (32 - okc))
    else:
        rep.missing("R11.2", ila)
    # the lanes a data word is checked against are those of the IHW currently held by the status-word container (the
    # IHW that governs this word — also on a continuation page), read where the word is checked
    lane_src = []
    cg, reach = ctx.cg(), ctx.reachable()
    for path_, bb_, t_, cal_, c_ in cg.call_sites(lambda c__: c__.endswith("IbDataWordValidator::check") or c__.endswith("ObDataWordValidator::check"), within=reach):
        so_ = show_origin(cg.body(path_).origin(t_["args"][1]))
        lane_src.append((path_.split("::")[-1], "Ihw::active_lanes(" in so_ and "StatusWordContainer::ihw(" in so_, so_[:120]))
    rep.check(len(lane_src) >= 2 and all(x[1] for x in lane_src), "R11.2", "R11.2|lanes|current_ihw", "data words are checked against the active lanes of the current IHW (%d call sites)" % len(lane_src),
              "fastpasta/src/analyze/validators/its/cdp_running.rs",
              "the active-lanes argument of a data-word check is not read from the status-word container's current IHW: %s" % [(x[0], x[2]) for x in lane_src if not x[1]])
    ihw_al = W + "ihw::Ihw::active_lanes"
    # OB lane table
    obl = "fastpasta::words::its::data_words::ob_data_word_id_to_lane"
    obi = "fastpasta::words::its::data_words::ob_data_word_id_to_input_number_connector"
    ibl = "fastpasta::words::its::data_words::ib_data_word_id_to_lane"
    if obl in f.fns and obi in f.fns:
        bad = []
        n_ids = 0
        for lo, hi in dwo["ol"]:
            for i in range(lo, hi + 1):
                n_ids += 1
                r = ev.call_fn(obl, [Bits.const(i, 8)])
                exp = 7 * ((i >> 3) & 3) + (i & 7)
                if not (isinstance(r, Bits) and r.is_const() and r.value() == exp):
                    bad.append((hex(i), vkey(r)[:40], exp))
        rep.check(not bad, "R11.2", "R11.2|ob|lane_table", "OB lane = 7*connector + input on all %d OL identifiers" % n_ids, obl,
                  "OB lane map differs from 7*connector+input: %s" % bad[:6])
        r = ev.call_fn(obi, [Bits.inp("ID", 0, 8)])
        rep.check(isinstance(r, Bits) and r.b[:3] == Bits.inp("ID", 0, 3).b and all(x == 0 for x in r.b[3:]), "R11.2", "R11.2|ob|input_expr",
                  "connector input = id[2:0]", obi, "connector input evaluates to %s" % vkey(r))
    else:
        rep.missing("R11.2", obl)
    if ibl in f.fns:
        r = ev.call_fn(ibl, [Bits.inp("ID", 0, 8)])
        rep.check(isinstance(r, Bits) and r.b[:5] == Bits.inp("ID", 0, 5).b and all(x == 0 for x in r.b[5:]), "R11.2", "R11.2|ib|lane_fn",
                  "IB lane = id[4:0]", ibl, "IB lane evaluates to %s" % vkey(r))
    obc = DW + "ob::ObDataWordValidator::check"
    # the verdict of the IB / OB word checks, decided per identifier (all 256) and per state of the lane's bit in the
    # IHW active-lanes mask: IB → Err iff the bit of lane id[4:0] is clear; OB → Err iff the bit of lane
    # 7*id[4:3] + id[2:0] is clear or id[2:0] > 6.  (The verdict, not the way the function collects its messages.)
    for fn_, barrel in ((ibc, "ib"), (obc, "ob")):
        if fn_ not in f.fns:
            rep.missing("R11.2", fn_)
            continue
        wrong = []
        for i in range(256):
            if (i >> 5) != (1 if barrel == "ib" else 2):
                continue       # the barrel dispatch (decided above) hands this function only its own identifiers
            lane = (i & dwo["ib_lane_mask"]) if barrel == "ib" else 7 * ((i >> 3) & 3) + (i & 7)
            for active in (True, False):
                mask = 0xFFFFFFFF if active else (0xFFFFFFFF & ~(1 << lane)) if lane < 32 else 0xFFFFFFFF
                if not active and lane >= 32:
                    continue
                want_err = (not active) or (barrel == "ob" and (i & 7) > dwo["ob_input_max"])
                word = ("array",) + tuple(Bits.const(0, 8) for _ in range(9)) + (Bits.const(i, 8),)
                ev.strings = True
                try:
                    r = vkey(ev.call_fn(fn_, [word, Bits.const(mask, 32)]))
                except Unsupported as e:
                    r = "unevaluable %s" % e
                finally:
                    ev.strings = False
                verdict = "Err" if r.startswith("Result::Err(") else ("Ok" if r.startswith("Result::Ok(") else r[:60])
                if verdict != ("Err" if want_err else "Ok"):
                    wrong.append((hex(i), "lane bit %s" % ("set" if active else "clear"), verdict))
        rep.check(not wrong, "R11.2", "R11.2|%s|verdict" % barrel,
                  "%s data word check: error exactly when the lane's active bit is clear%s (its 32 identifiers × 2)" % (barrel.upper(), " or the connector input is above 6" if barrel == "ob" else ""), fn_,
                  "%s data word check gives the wrong verdict for %s" % (barrel.upper(), wrong[:6]))
    # barrel dispatch
    pdw = "fastpasta::analyze::validators::its::cdp_running::CdpRunningValidator::<T, C>::preprocess_data_word"
    if pdw in f.fns:
        # decided per identifier (all 256, the word not being a calibration word): the inner-barrel handler runs exactly
        # for id[7:5] == 1, the outer-barrel handler exactly for id[7:5] == 2
        wrong = []
        # (the handlers may be separate methods or one shared method: what counts is which barrel's validator sees the word)
        ev.watch = lambda c: c.endswith("IbDataWordValidator::check") or c.endswith("ObDataWordValidator::check")
        CRV_ = pdw.rsplit("::", 1)[0] + "::"
        slf_ = Agg("CdpRunningValidator", "CdpRunningValidator", {"tracker": Agg("CdpTracker", "CdpTracker", {"is_start_of_data": Cond("false")}),
                                                                  "running_checks_enabled": Cond("true")})
        try:
            for i in range(256):
                ev.assume = {}
                ev.assume_bits("W", 72, 8, i)
                try:
                    recs_ = [o for o in ev.collect_ifs(pdw, [slf_, Slice("W", 0, 10)], follow=lambda c: c.startswith(CRV_)) if "call" in o and not any(g in ("false", "not true") for g in o["guard"])]
                except Unsupported as e:
                    wrong.append((hex(i), "unevaluable %s" % e))
                    break
                got_ = sorted(o["call"].split("::")[-2] for o in recs_ if all(g in ("true", "not false") for g in o["guard"]))
                und_ = [o for o in recs_ if not all(g in ("true", "not false") for g in o["guard"])]
                want_ = {1: ["IbDataWordValidator"], 2: ["ObDataWordValidator"]}.get(i >> 5, [])
                if got_ != want_ or und_:
                    wrong.append((hex(i), got_ + ["undecided:%d" % len(und_)] if und_ else got_))
        finally:
            ev.watch = None
            ev.assume = {}
        cs = wrong
        k_ib, k_ob = "id[7:5]==1", "id[7:5]==2"
        rep.check(not wrong, "R11.2", "R11.2|barrel_dispatch", "IB iff id[7:5]==1, OB iff id[7:5]==2", pdw,
                  "barrel dispatch is wrong for identifiers %s" % wrong[:6])
    else:
        rep.missing("R11.2", pdw)


def _neg(c):
    from ..thir import cnot
    return cnot(c)


def _has_code(f, tb, eid, code):
    """error-code literal inside a format! in the subtree: look at source lines of the span"""
    for _, x in tb.walk(eid):
        sp = x.get("sp")
        if sp and "mac" in sp:
            lines = f.src_lines(sp["f"])
            txt = "\n".join(lines[sp["l"] - 1: sp.get("l2", sp["l"])])
            if code in txt:
                return True
    return False
