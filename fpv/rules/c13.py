"""C13 — stave-level ALPIDE frame checks (partial; table part written first because C04 reuses it)."""
from ..thir import Evaluator, Bits, Agg, Sym, Cond, ckey, vkey, Unsupported

EXPLANATION = __doc__
AW = "fastpasta::words::its::alpide::alpide_word::"


def alpide_class_table(facts):
    """byte -> class name ('DataLong', 'Ape:Padding', 'Err', …) by constant folding of AlpideWord::from_byte"""
    ev = Evaluator(facts)
    out = {}
    for b in range(256):
        try:
            r = ev.call_fn(AW + "AlpideWord::from_byte", [Bits.const(b, 8)])
        except Unsupported as e:
            out[b] = "UNSUPPORTED:%s" % e
            continue
        if isinstance(r, Agg) and r.var == "Ok":
            w = r.fields.get("0")
            if isinstance(w, Agg):
                if w.var == "Ape" and isinstance(w.fields.get("0"), Agg):
                    out[b] = "Ape:" + w.fields["0"].var
                else:
                    out[b] = w.var
            else:
                out[b] = "UNRECOGNISED:" + vkey(w)[:40]
        elif isinstance(r, Agg) and r.var == "Err":
            out[b] = "Err"
        else:
            out[b] = "UNRECOGNISED:" + vkey(r)[:60]
    return out
