"""C13 — stave-level ALPIDE frame checks are exact and ignore hit content (structural part).

Decided:
R13.1 the lane decoder as a table: the class of each of the 256 byte values
      (constant folding of AlpideWord::from_byte with first-match semantics)
      and the state effect of each byte value in LaneAlpideFrameAnalyzer::decode
      equal oracles/alpide.json; the three early exits (hit bytes being
      skipped, the bunch-counter byte, padding) end the step; the byte is
      looked at only for classification, the padding test, the bunch counter,
      the low nibble of a chip header/empty frame and the trailer flags —
      never in the data-word arms or while skipping (hit content cannot
      influence verdict or counters); every byte of a lane is fed in order;
      the readout-flag counters per trailer value.
R13.2 frame rules: lanes per frame 3/8/14 lowered only by the number of fatal
      lanes; the three inner groups and their fatal-lane pruning; lane data is
      keyed by byte 9 and holds bytes 0..=8; a frame opens at a TDH with
      continuation 0 when none is open (start offset = that word's position)
      and is processed at a TDT with packet_done; per-lane and cross-lane
      bunch-counter comparison over validated lanes only; IB chip count 1 and
      chip id == lane; codes E72/E73, E74/E75, E701, E59, E9003 at the frame
      start offset.
R13.3 fatal lanes come only from the fatal APE classes.
Not decided: the verdict on actual frames (needs executing the decoder over
generated streams — a different technique family)."""
import re

from ..thir import Evaluator, Bits, Agg, Sym, Cond, Obj, ckey, vkey, Unsupported
from ..emit import codes_in, first_literal, macro_source
from ..mir import show_origin

EXPLANATION = __doc__
AW = "fastpasta::words::its::alpide::alpide_word::"
LA = "fastpasta::analyze::validators::its::alpide::lane_alpide_frame_analyzer::LaneAlpideFrameAnalyzer::<'a>::"
ARF = "fastpasta::analyze::validators::its::alpide::alpide_readout_frame::"
RFV = "fastpasta::analyze::validators::its::cdp_running::readout_frame::ItsReadoutFrameValidator::<C>::"
CDP = "fastpasta::analyze::validators::its::cdp_running::CdpRunningValidator::<T, C>::"
ALP = "fastpasta::analyze::validators::its::alpide::"
RF = "fastpasta::stats::stats_collector::its_stats::alpide_stats::ReadoutFlags::log"
LAYER = "fastpasta::words::its::Layer"
STATE_FIELDS = ("skip_n_bytes", "next_is_bc", "is_header_seen", "last_chip_id", "lane_status_fatal")


def alpide_class_table(facts):
    """byte -> class name ('DataLong', 'Ape:Padding', 'Err', …) by constant folding of AlpideWord::from_byte"""
    ev = Evaluator(facts)
    out = {}
    for b in range(256):
        try:
            r = ev.call_fn(AW + "AlpideWord::from_byte", [Bits.const(b, 8)])
        except Unsupported as e:
            out[b] = "UNSUPPORTED:%s" % e
            continue
        if isinstance(r, Agg) and r.var == "Ok":
            w = r.fields.get("0")
            if isinstance(w, Agg):
                if w.var == "Ape" and isinstance(w.fields.get("0"), Agg):
                    out[b] = "Ape:" + w.fields["0"].var
                else:
                    out[b] = w.var
            else:
                out[b] = "UNRECOGNISED:" + vkey(w)[:40]
        elif isinstance(r, Agg) and r.var == "Err":
            out[b] = "Err"
        else:
            out[b] = "UNRECOGNISED:" + vkey(r)[:60]
    return out


def _noise(n):
    mac = (n.get("sp") or {}).get("mac") or []
    return any(m.startswith(("debug_assert", "assert")) or "log::" in m or m.startswith("log!") for m in mac)


def _fields_in(tb, i):
    return sorted(set(n.get("name") for _, n in tb.walk(i) if n["k"] == "Field" and n.get("name")))


def _variant_names(pat):
    if pat["k"] == "Variant":
        sub = [x for s in pat.get("subs", []) for x in _variant_names(s["p"])]
        return [pat.get("vname")] + sub if pat.get("vname") not in ("Ok", "Err", "Some") else (sub or [pat.get("vname")])
    if pat["k"] == "Or":
        return [x for p in pat["pats"] for x in _variant_names(p)]
    if pat["k"] == "Deref" and pat.get("sub"):
        return _variant_names(pat["sub"])
    if pat["k"] == "Bind":
        return ["bind:" + pat.get("name", "?")]
    if pat["k"] == "Wild":
        return ["_"]
    return [pat["k"]]


def byte_uses(tb, byte_id, ev=None, local=None):
    """contexts in which the decoder looks at its byte parameter (log/assert macros excluded); a helper of the decoder
    (`local(path)`) that gets the byte as an argument is looked into, its uses count for the calling context"""
    found = []

    def rec(tb, i, ctx, byte_id, depth):
        i, n = tb.e(i)
        if _noise(n):
            return
        k = n["k"]
        if k in ("Var", "Upvar") and n.get("id") == byte_id:
            found.append(ctx)
            return
        if k == "If":
            fl = ",".join(_fields_in(tb, n["cond"]))
            rec(tb, n["cond"], ctx + ("cond[%s]" % fl,), byte_id, depth)
            rec(tb, n["then"], ctx + ("then[%s]" % fl,), byte_id, depth)
            if n.get("else") is not None:
                rec(tb, n["else"], ctx + ("else[%s]" % fl,), byte_id, depth)
            return
        if k == "Match":
            rec(tb, n["scrut"], ctx + ("scrutinee",), byte_id, depth)
            for a in n["arms"]:
                arm = tb.arms[a]
                rec(tb, arm["body"], ctx + ("arm:" + "|".join(_variant_names(arm["pat"])),), byte_id, depth)
            return
        if k == "Call" and ev is not None and local is not None and depth < 3:
            tgt = n.get("res") or n.get("fn") or ""
            tbc = ev.tb(tgt) if local(tgt) else None
            if tbc is not None and len(tbc.params) == len(n["args"]):
                for p_, a_ in zip(tbc.params, n["args"]):
                    ai, an = tb.e(a_)
                    if an["k"] in ("Var", "Upvar") and an.get("id") == byte_id and (p_.get("pat") or {}).get("k") == "Bind":
                        # helper-internal branches keep the caller's context (the rule is about which byte classes are looked at)
                        n0 = len(found)
                        rec(tbc, tbc.root, ctx, p_["pat"]["id"], depth + 1)
                        found[n0:] = [ctx for _ in found[n0:]]
                    else:
                        rec(tb, a_, ctx, byte_id, depth)
                return
        for ch in tb.children(i):
            rec(tb, ch, ctx, byte_id, depth)

    rec(tb, tb.root, (), byte_id, 0)
    return found


def run(ctx, rep):
    f = ctx.facts()
    ev = Evaluator(f)
    cg = ctx.cg()
    reach = ctx.reachable()
    O = ctx.oracle("alpide.json")
    r131(ctx, rep, f, ev, cg, reach, O)
    r132(ctx, rep, f, ev, cg, reach, O)
    r133(ctx, rep, f, ev, cg, reach, O)


def _ranges(bs):
    bs = sorted(bs)
    out = []
    i = 0
    while i < len(bs):
        j = i
        while j + 1 < len(bs) and bs[j + 1] == bs[j] + 1:
            j += 1
        out.append("0x%02X" % bs[i] if i == j else "0x%02X-0x%02X" % (bs[i], bs[j]))
        i = j + 1
    return ",".join(out)


# ------------------------------------------------------------------ R13.1
def r131(ctx, rep, f, ev, cg, reach, O):
    W = "fastpasta/src/words/its/alpide/alpide_word.rs"
    WL = "fastpasta/src/analyze/validators/its/alpide/lane_alpide_frame_analyzer.rs"
    table = alpide_class_table(f)
    norm = {b: ("Busy" if c in ("BusyOn", "BusyOff") else c) for b, c in table.items()}
    want = {}
    for r in O["classes"]:
        for b in range(r["lo"], r["hi"] + 1):
            want[b] = r["class"]
    rep.floor("R13.1-oracle-bytes", len(want), 256, "byte values covered by the oracle class table")
    for r in O["classes"]:
        bad = [b for b in range(r["lo"], r["hi"] + 1) if norm.get(b) != r["class"] and not (b == 0 and norm.get(b) in ("DataLong",))]
        rep.check(not bad, "R13.1", "R13.1|class|%s|0x%02X" % (r["class"], r["lo"]),
                  "bytes 0x%02X-0x%02X classify as %s" % (r["lo"], r["hi"], r["class"]), W,
                  "bytes %s classify as %s, documented class is %s" % (_ranges(bad), sorted(set(norm.get(b) for b in bad)), r["class"]))

    # per-byte state effect of decode()
    dec = LA + "decode"
    if dec not in f.fns:
        rep.missing("R13.1", dec)
        return
    per_class = {}
    pad_conds = {}
    for b in range(256):
        try:
            out = ev.collect_ifs(dec, [Sym("self"), Bits.const(b, 8)], follow=lambda c: c.startswith(LA))
        except Unsupported as e:
            rep.bad("R13.1", "R13.1|effect|unevaluable", "decode(0x%02X) cannot be evaluated: %s" % (b, e), WL)
            return
        eff = {}
        for o in out:
            if "assign" in o and o["guard"] and any(g == "true" for g in o["guard"]) and all(g == "true" or g.startswith("not ") for g in o["guard"]):
                op, lhs, rhs = o["assign"]
                m = re.fullmatch(r"sym\(self\.(\w+)\)", lhs)
                name = m.group(1) if m else lhs
                eff[name] = ("" if op == "=" else op + ":") + rhs
        if "last_chip_id" in eff:
            eff["last_chip_id"] = "low4" if eff["last_chip_id"] == hex(b & 0xF) else eff["last_chip_id"]
        per_class.setdefault(want[b], {}).setdefault(tuple(sorted(eff.items())), []).append(b)
        conds = [ckey(o["cond"]) for o in out if "cond" in o]
        pc = [c for c in conds if c in ("false", "true") or "is_header_seen" in c]
        pad_conds[b] = pc[-1] if pc else "?"
    for cls, variants in sorted(per_class.items()):
        exp = tuple(sorted(O["effects"].get(cls, {}).items()))
        bad = {k: v for k, v in variants.items() if k != exp}
        rep.check(not bad, "R13.1", "R13.1|effect|%s" % cls, "%s: state effect %s for all %d byte values" % (cls, dict(exp), sum(len(v) for v in variants.values())), WL,
                  "decoder effect of class %s: %s — documented effect is %s" % (cls, "; ".join("%s → %s" % (_ranges(v), dict(k)) for k, v in bad.items()), dict(exp)))
    # padding: only 0x00 while no header was seen
    pad_ok = all((pad_conds[b] == "false") for b in range(1, 256)) and pad_conds[0] == "symc(sym(Not(sym(self.is_header_seen))))"
    rep.check(pad_ok, "R13.1", "R13.1|padding", "a byte is dropped as padding iff it is 0x00 and no chip header is open", WL,
              "padding test is not `byte == 0 && !is_header_seen`: byte 0 → %s; other bytes with a non-false test: %s" % (pad_conds[0], _ranges([b for b in range(1, 256) if pad_conds[b] != "false"])))

    # early exits end the step
    tb = ev.tb(dec)
    ifs = [(x, n) for x, n in tb.walk() if n["k"] == "If" and not _noise(n)]
    labels = {}
    for x, n in ifs:
        fl = tuple(_fields_in(tb, n["cond"]))
        labels.setdefault(fl, []).append((x, n))
    for fl, name in ((("skip_n_bytes",), "skip"), (("next_is_bc",), "bunch-counter"), (("is_header_seen",), "padding")):
        cand = labels.get(fl, [])
        ok = len(cand) == 1 and ev._ends_in_return(tb, cand[0][1]["then"])
        rep.check(ok, "R13.1", "R13.1|early-exit|%s" % name, "the %s branch ends the step with `return`" % name, WL,
                  "the %s branch of decode() does not end with `return`: the same byte would also be classified" % name)
    # order of the early exits: skip, then bunch counter, then padding, then classification
    order = [tuple(_fields_in(tb, n["cond"])) for x, n in ifs if tuple(_fields_in(tb, n["cond"])) in (("skip_n_bytes",), ("next_is_bc",), ("is_header_seen",))]
    rep.check(order[:3] == [("skip_n_bytes",), ("next_is_bc",), ("is_header_seen",)], "R13.1", "R13.1|early-exit|order", "skip → bunch-counter → padding → classify", WL,
              "early exits are tested in the order %s" % order)
    # skip branch: decrement by one
    out = ev.collect_ifs(dec, [Sym("self"), Sym("B")])
    sk = [o for o in out if "assign" in o and o["assign"][1] == "sym(self.skip_n_bytes)" and o["guard"] == ("Gt(sym(self.skip_n_bytes),0x0)",)]
    rep.check(len(sk) == 1 and sk[0]["assign"][0] == "SubAssign" and sk[0]["assign"][2] == "0x1", "R13.1", "R13.1|skip|decrement", "while skip_n_bytes > 0 one byte is consumed and the counter decremented by 1", WL,
              "skip branch: %s" % [o["assign"] for o in sk])
    bc = [o for o in out if "assign" in o and o["assign"][1] == "sym(self.next_is_bc)" and tuple(o["guard"]) == ("not Gt(sym(self.skip_n_bytes),0x0)", "symc(sym(self.next_is_bc))")]
    rep.check(len(bc) == 1 and bc[0]["assign"][2] == "false", "R13.1", "R13.1|bc|cleared", "the bunch-counter flag is cleared after its byte", WL)

    # where the byte is looked at
    byte_id = None
    if len(tb.params) >= 2:
        pat = tb.params[1].get("pat") or {}
        byte_id = pat.get("id")
    uses = byte_uses(tb, byte_id, ev, lambda c: c.startswith(LA)) if byte_id is not None else []
    rep.floor("R13.1-byte-uses", len(uses), 6, "non-log uses of the byte parameter in decode()")
    allowed = {
        ("then[next_is_bc]",): "bunch-counter byte",
        ("cond[is_header_seen]",): "padding test",
        ("scrutinee",): "classification",
        ("arm:ChipHeader",): "arm:ChipHeader",
        ("arm:ChipEmptyFrame",): "arm:ChipEmptyFrame",
        ("arm:ChipTrailer",): "arm:ChipTrailer",
    }

    def norm_ctx(c):
        c = tuple(x for x in c if not x.startswith("arm:bind:") and x not in ("arm:_",))
        # drop the enclosing Ok(word) arm and if-let wrappers inside an allowed branch
        c = tuple(x for x in c if x not in ("arm:Ok",))
        if c and c[0] == "then[next_is_bc]":
            return ("then[next_is_bc]",)
        if len(c) >= 2 and c[0] == "scrutinee":
            return ("scrutinee",)
        return c[-1:] if c and c[-1].startswith("arm:") else c

    seen = {}
    for u in uses:
        seen.setdefault(norm_ctx(u), 0)
        seen[norm_ctx(u)] += 1
    extra = sorted(k for k in seen if k not in allowed)
    missing = sorted(v for k, v in allowed.items() if k not in seen)
    rep.check(not extra and not missing, "R13.1", "R13.1|byte-uses", "the byte is inspected only for: %s" % sorted(allowed.values()), WL,
              "decode() inspects its byte in contexts %s (missing: %s) — hit bytes must not influence state" % (extra, missing))
    # arms of data words and region header carry no call besides logging
    calls_in_arms = {}
    for x, n in tb.walk():
        if n["k"] != "Match":
            continue
        for a in n["arms"]:
            arm = tb.arms[a]
            names = _variant_names(arm["pat"])
            for nm in names:
                if nm in ("DataShort", "DataLong", "RegionHeader", "BusyOn", "BusyOff"):
                    cs = [(c.get("res") or c.get("fn") or "") for y, c in tb.calls(arm["body"]) if not _noise(c) and not _noise(tb.exprs[y])]
                    cs = [c for c in cs if not c.startswith(("core::fmt", "log::", "core::panicking")) and "__private_api" not in c and not c.endswith("Level::as_str") and "max_level" not in c and "PartialOrd" not in c]
                    calls_in_arms[nm] = cs
    rep.check(set(calls_in_arms) >= {"DataShort", "DataLong", "RegionHeader"} and not any(calls_in_arms.values()), "R13.1", "R13.1|data-arms-pure",
              "data-word/region-header/busy arms only set decoder state (no call)", WL, "calls in hit-content arms: %s" % {k: v for k, v in calls_in_arms.items() if v})

    # trailer flags go to the statistics exactly once, from the trailer arm
    lrf = [c for c, *_ in cg.call_sites(lambda p_: p_.endswith("AlpideStats::log_readout_flags")) if c in reach]
    rep.check(lrf == [dec], "R13.1", "R13.1|flags|single-site", "log_readout_flags is called only by decode() (trailer arm)", WL, "callers: %s" % lrf)
    if RF in f.fns:
        rows = {}
        for b in range(0xB0, 0xC0):
            out = ev.collect_ifs(RF, [Sym("self"), Bits.const(b, 8)])
            eff = {}
            for o in out:
                if "assign" in o and all(g == "true" for g in o["guard"]):
                    op, lhs, rhs = o["assign"]
                    nm = re.fullmatch(r"sym\(self\.(\w+)\)", lhs)
                    val = {"0x1": 1, "0x0": 0, "sym(boolcast(true))": 1, "sym(boolcast(false))": 0}.get(rhs, rhs)
                    if op == "AddAssign" and nm:
                        if val != 0:
                            eff[nm.group(1)] = val
                    else:
                        eff[lhs] = op + rhs
            rows[b] = eff
        badrows = {}
        for b, eff in rows.items():
            exp = {"chip_trailers_seen": 1}
            if str(b) in O["readout_flags"]["exact"]:
                exp[O["readout_flags"]["exact"][str(b)]] = 1
            else:
                for bit, nm in O["readout_flags"]["bits"].items():
                    if (b >> int(bit)) & 1:
                        exp[nm] = 1
            if eff != exp:
                badrows["0x%02X" % b] = (eff, exp)
        rep.check(not badrows, "R13.1", "R13.1|flags|table", "readout-flag counters per trailer value 0xB0-0xBF equal the documented table", "fastpasta/src/stats/stats_collector/its_stats/alpide_stats.rs",
                  "readout-flag counters deviate: %s" % {k: "got %s want %s" % v for k, v in badrows.items()})
    else:
        rep.missing("R13.1", RF)

    # every byte of the lane is decoded, in order
    an = LA + "analyze_alpide_frame"
    b = cg.body(an) if an in f.fns else None
    if b is None:
        rep.missing("R13.1", an)
    else:
        chain = [cal.split("::")[-1] for bb, t, cal, c in b.calls() if cal and (cal.startswith("core::iter") or cal.startswith("core::slice") or "Iterator" in cal)]
        ADAPT = ("skip", "take", "step_by", "filter", "rev", "skip_while", "take_while", "filter_map", "chain", "zip", "peekable", "last", "nth", "chunks", "windows")
        ok = not any(c in ADAPT for c in chain)
        fe = [(bb, t) for bb, t, cal, c in b.calls() if cal and cal.endswith("::for_each")]
        direct = [(bb, t) for bb, t, cal, c in b.calls() if cal == dec]
        nxt = []
        if fe:
            # closure form: data().iter().for_each(|b| self.decode(*b))
            ok = ok and len(fe) == 1 and not direct
            if ok:
                so = show_origin(b.origin(fe[0][1]["args"][0]))
                ok = so.startswith("<impl [T]>::iter(&LaneDataFrame::data(arg2)")
            clo = an + "::{closure#0}"
            if ok and clo in f.fns:
                cb = cg.body(clo)
                dcalls = [(bb, t) for bb, t, cal, c in cb.calls() if cal == dec]
                ok = len(dcalls) == 1 and cb.all_paths_pass(0, [dcalls[0][0]]) and show_origin(cb.origin(dcalls[0][1]["args"][1])) in ("arg2.*", "*arg2", "arg2*")
                if not ok:
                    chain.append("closure arg: %s" % (show_origin(cb.origin(dcalls[0][1]["args"][1])) if dcalls else None))
            else:
                ok = False
        else:
            # loop form: for b in data().iter() { self.decode(*b) }
            nxt = [(bb, t) for bb, t, cal, c in b.calls() if cal and cal.endswith("Iterator>::next")]
            ok = ok and len(direct) == 1 and len(nxt) == 1 and b.on_cycle(direct[0][0]) and b.dominates(nxt[0][0], direct[0][0])
            if ok:
                arg = show_origin(b.origin(direct[0][1]["args"][1]))
                src = show_origin(b.origin(nxt[0][1]["args"][0]))
                ok = "next(" in arg and arg.rstrip(")").endswith("@Some.0*") or ("next(" in arg and "@Some.0" in arg and arg.endswith("*"))
                # the slice itself (`for &b in frame.data()`) or its iter() — both visit every byte in order
                ok = ok and ("<impl [T]>::iter(&LaneDataFrame::data(arg2)" in src or re.search(r"IntoIterator for &'a \[T\]>::into_iter\(&?LaneDataFrame::data\(arg2\)\)", src) is not None)
                # decode on every iteration that yielded a byte
                ok = ok and b.all_paths_pass(direct[0][0], [nxt[0][0]], to=b.return_blocks()) and not [x for x in b.succ[nxt[0][0]] if False]
                some_t = None
                sw = b.blocks[nxt[0][1]["t"]]["t"] if nxt[0][1].get("t") is not None else None
                if sw and sw["k"] == "switch":
                    some_t = [v[1] for v in sw["vals"] if v[0] == 1] or [sw["else"]]
                    ok = ok and b.all_paths_pass(some_t[0], [direct[0][0]], to=[nxt[0][0]])
                if not ok:
                    chain.append("loop arg: %s from %s" % (arg, src[:80]))
        # the feed is unconditional: every path through analyze_alpide_frame passes it (no shortcut decides from a few
        # bytes that the rest of the lane data need not be decoded)
        feed = fe[0][0] if fe else (nxt[0][0] if not fe and nxt else None)
        uncond = feed is not None and b.all_paths_pass(0, [feed], to=b.return_blocks())
        rep.check(uncond, "R13.1", "R13.1|all-bytes-unconditional", "the lane data is fed to the decoder on every path through analyze_alpide_frame", WL,
                  "the decode loop of analyze_alpide_frame is bypassed on some path: lane data can be accepted without being decoded byte by byte")
        rep.check(ok, "R13.1", "R13.1|all-bytes-in-order", "every byte of the lane data is decoded once, in order (data().iter().for_each(decode))", WL,
                  "analyze_alpide_frame does not feed every lane byte in order to decode(): %s" % chain)
        # checks are run unless the lane is fatal
        ifs_ = [o for o in ev.collect_ifs(an, [Sym("self"), Sym("ldf")]) if "cond" in o]
        fat = [o for o in ifs_ if ckey(o["cond"]) == "symc(sym(self.lane_status_fatal))"]
        dl = [bb for bb, t, cal, c in b.calls() if cal == LA + "do_lane_alpide_checks"]
        rep.check(len(fat) == 1 and len(dl) == 1, "R13.1", "R13.1|checks-unless-fatal", "lane checks run iff the lane did not announce a fatal state", WL)


# ------------------------------------------------------------------ R13.2
def codes_under(facts, tb, i):
    out = set()
    seen = set()
    for x, n in tb.walk(i):
        s = n.get("str")
        if s:
            out.update(codes_in(s))
            if re.fullmatch(r"E\d{2,4}", s):
                out.add(s)
        sp = n.get("sp")
        if sp and sp.get("mac"):
            key = (sp["f"], sp["l"], sp.get("l2"))
            if key not in seen:
                seen.add(key)
                out.update(codes_in(first_literal(macro_source(facts, sp)) or ""))
    return out


def r132(ctx, rep, f, ev, cg, reach, O):
    WA = "fastpasta/src/analyze/validators/its/alpide/alpide_readout_frame.rs"
    WR = "fastpasta/src/analyze/validators/its/cdp_running/readout_frame.rs"
    WC = "fastpasta/src/analyze/validators/its/cdp_running.rs"
    WL = "fastpasta/src/analyze/validators/its/alpide/lane_alpide_frame_analyzer.rs"
    # lanes per frame
    cf = ARF + "AlpideReadoutFrame::check_frame_lanes_valid"
    if cf not in f.fns:
        rep.missing("R13.2", cf)
    else:
        for lay, cnt in O["lanes_per_frame"].items():
            slf = Agg(ARF + "AlpideReadoutFrame", "AlpideReadoutFrame", {
                "from_layer": Agg("core::option::Option", "Some", {"0": Agg(LAYER, lay, {})}),
                "lane_data_frames": Sym("LDF"), "frame_end_mem_pos": Sym("END"), "frame_start_mem_pos": Sym("START")})
            # decided on the two cases of the fatal-lane option (none yet / some list FL)
            ok = True
            cmp_ = []
            for fatal, want in ((Agg("core::option::Option", "None", {}), hex(cnt)),
                                (Agg("core::option::Option", "Some", {"0": Sym("FL")}), "sym(Sub(%s,sym(call:core::slice::<impl [T]>::len(sym(FL)))))" % hex(cnt))):
                out = [o for o in ev.collect_ifs(cf, [slf, fatal]) if "cond" in o]
                exp = "Ne(sym(call:alloc::vec::Vec::<T, A>::len(sym(LDF))),%s)" % want
                c_ = [o for o in out if ckey(o["cond"]).startswith("Ne(")]
                cmp_ += c_
                ok = ok and len(c_) == 1 and ckey(c_[0]["cond"]).replace("alloc::vec::Vec::<T, A>::len(sym(FL))", "core::slice::<impl [T]>::len(sym(FL))") == exp \
                    and not [g for g in c_[0]["guard"] if g not in ("true", "not false")]
            # grouping only for the inner barrel
            grp = [o for o in out if "Layer::" in ckey(o["cond"]) or ckey(o["cond"]) in ("true", "false")]
            gcalls = []
            rep.check(ok, "R13.2", "R13.2|lanes|%s" % lay, "%s: error iff lane count != %d − number of fatal lanes" % (lay, cnt), WA,
                      "%s barrel: lane-count test is %s, expected `len != %d - fatal.len()`" % (lay, [ckey(o["cond"])[:200] for o in cmp_], cnt))
        # decided per (barrel, lane count as expected / one too many): the grouping is validated exactly for an inner-barrel
        # frame whose count matched
        calls_ = {}
        for lay, cnt in O["lanes_per_frame"].items():
            for delta in (0, 1):
                slf = Agg(ARF + "AlpideReadoutFrame", "AlpideReadoutFrame", {
                    "from_layer": Agg("core::option::Option", "Some", {"0": Agg(LAYER, lay, {})}),
                    "lane_data_frames": Sym("LDF"), "frame_end_mem_pos": Sym("END"), "frame_start_mem_pos": Sym("START")})
                ev.call_hooks = [(lambda fn_, r_: (r_ or fn_).endswith("::len"), lambda n, a, v=cnt + delta: Bits.const(v, 64) if vkey(a[0]) == "sym(LDF)" else None)]
                ev.watch = lambda c: c.endswith("::validate_inner_lane_groupings")
                try:
                    recs_ = ev.collect_ifs(cf, [slf, Agg("core::option::Option", "None", {})])
                    calls_[(lay, delta)] = len([o for o in recs_ if "call" in o and all(g in ("true", "not false") for g in o["guard"])]) \
                        if not [o for o in recs_ if "call" in o and any(g not in ("true", "not false", "false", "not true") for g in o["guard"])] else "undecided"
                except Unsupported as e:
                    calls_[(lay, delta)] = "unevaluable: %s" % e
                finally:
                    ev.call_hooks = []
                    ev.watch = None
        want_ = {(lay, d_): (1 if lay == "Inner" and d_ == 0 else 0) for lay in O["lanes_per_frame"] for d_ in (0, 1)}
        rep.check(calls_ == want_, "R13.2", "R13.2|groups|inner-only", "lane grouping is validated for the inner barrel only, after the count matched", WA,
                  "calls of validate_inner_lane_groupings per (barrel, lanes beyond the expected count): %s, expected %s" % (calls_, want_))
    # inner groups
    vg = ARF + "validate_inner_lane_groupings"
    tb = ev.tb(vg)
    if tb is None:
        rep.missing("R13.2", vg)
    else:
        arrays = []
        for x, n in tb.walk():
            if n["k"] == "Array":
                els = [tb.e(e)[1] for e in n["es"]]
                if els and all(e["k"] == "Lit" and "int" in e for e in els):
                    arrays.append([e["int"] for e in els])
        rep.check(arrays == O["inner_groups"], "R13.2", "R13.2|groups|table", "inner lane groups %s" % arrays, WA, "inner lane groups are %s, documented %s" % (arrays, O["inner_groups"]))
        prune = {}
        by_index = False
        for a in tb.arms:
            p = a["pat"]
            while p["k"] == "Deref":
                p = p["sub"]
            if p["k"] == "Range":
                # the group a fatal lane is removed from: `groups.get_mut(K)` in the arm, or the arm yields the index K
                idx = [tb.e(c["args"][1])[1].get("int") for _, c in tb.calls(a["body"]) if (c.get("fn") or "").endswith("<impl [T]>::get_mut")]
                bn = tb.e(a["body"])[1]
                while bn["k"] == "Block" and not tb.blocks[bn["b"]]["stmts"] and tb.blocks[bn["b"]].get("expr") is not None:
                    bn = tb.e(tb.blocks[bn["b"]]["expr"])[1]
                if not idx and bn["k"] == "Lit" and "int" in bn:
                    idx = [bn["int"]]
                    by_index = True
                prune[(p["lo"], p["hi"] if p["incl"] else p["hi"] - 1)] = idx
        exp = {(g[0], g[-1]): [i] for i, g in enumerate(O["inner_groups"])}
        rep.check(prune == exp, "R13.2", "R13.2|groups|fatal-pruning", "a fatal lane is removed from the group that contains it", WA, "fatal-lane pruning table %s, expected %s" % (prune, exp))
        clos = sorted(p_ for p_ in f.fns if p_.startswith(vg + "::{closure#"))
        # the closures handed to `retain`: each keeps exactly the lanes != the fatal lane; one per pruning arm, or a
        # single one applied to the group selected by the arm's index
        rclos = []
        for _, c in tb.calls():
            if (c.get("fn") or "").endswith("::retain"):
                for a_ in c["args"]:
                    for _, x in tb.walk(a_):
                        if x["k"] == "Closure" and x.get("def"):
                            rclos.append(x["def"])
        retain_ok = 0
        for c in rclos:
            ctb = ev.tb(c)
            ops = [n["op"] for _, n in ctb.walk() if n["k"] == "Binary"] if ctb is not None else []
            # `x != *fl` on the values is a Binary Ne; `x != fl` on the two references is the call PartialEq::ne
            necalls = [c_.get("fn") or "" for _, c_ in ctb.calls()] if ctb is not None else []
            if ops == ["Ne"] or (not ops and len(necalls) == 1 and necalls[0].startswith("core::cmp::PartialEq::ne")):
                retain_ok += 1
        want_n = 1 if by_index else len(O["inner_groups"])
        if by_index:
            # the selected index is the one used to pick the group that is pruned
            ixs = [n for _, n in tb.walk() if n["k"] == "Index"]
            by_ok = len(ixs) == 1 and tb.e(ixs[0]["i"])[1]["k"] in ("Var", "Upvar")
        else:
            by_ok = True
        rep.check(retain_ok == want_n and len(rclos) == want_n and by_ok, "R13.2", "R13.2|groups|retain", "pruning keeps every lane != the fatal lane", WA,
                  "retain predicates that are a single `!=`: %d of %d (retain sites %d)" % (retain_ok, want_n, len(rclos)))
        b = cg.body(vg)
        names = [cal.split("::")[-1] for bb, t, cal, c in b.calls() if cal]
        iseq = lambda cal: cal and (cal.endswith("PartialEq>::eq") or cal.endswith("PartialEq::eq") or "PartialEq" in cal and cal.endswith("::eq"))
        eqs = [(bb, t) for bb, t, cal, c in b.calls() if iseq(cal)]
        srt = [bb for bb, t, cal, c in b.calls() if cal and cal.endswith("::sort_unstable") or cal and cal.endswith("::sort")]
        ok = len(srt) == 1 and len(eqs) >= 1 and all(b.dominates(srt[0], e[0]) for e in eqs)
        if len(srt) == 1 and not eqs:
            # the comparison sits in a closure of an `any(..)` over the groups, called after the sort
            anys = [bb for bb, t, cal, c in b.calls() if cal and cal.endswith("::any")]
            ceq = [c_ for c_ in clos if any(iseq(cal) for bb, t, cal, c in cg.body(c_).calls())]
            ok = len(anys) == 1 and b.dominates(srt[0], anys[0]) and len(ceq) == 1
            eqs = ceq
        try:
            m = vkey(ev.call_closure(("closure", clos[0], {}), [Sym("ldf")], 0)) if clos else ""
        except Exception as e:  # noqa
            m = "unevaluable %r" % (e,)
        ok = ok and "ldf.lane_id" in m
        rep.check(ok, "R13.2", "R13.2|groups|compare", "sorted lane numbers (from the lane ids) must equal one pruned group", WA,
                  "grouping comparison: sort sites %d, eq sites %d, lane mapping %s" % (len(srt), len(eqs), m[:160]))
    # lane data keyed by byte 9, bytes 0..=8 stored
    sl = ARF + "AlpideReadoutFrame::store_lane_data"
    tb = ev.tb(sl)
    if tb is None:
        rep.missing("R13.2", sl)
    else:
        idx = []
        rng = []
        for x, n in tb.walk():
            if n["k"] == "Index":
                i_ = tb.e(n["i"])[1]
                if i_["k"] == "Lit" and "int" in i_:
                    idx.append(i_["int"])
        for p_ in [sl] + sorted(q for q in f.fns if q.startswith(sl + "::{closure#")):
            t2 = ev.tb(p_)
            for x, n in t2.walk():
                if n["k"] == "Index":
                    i_ = t2.e(n["i"])[1]
                    if i_["k"] == "Lit" and "int" in i_ and p_ != sl:
                        idx.append(i_["int"])
                if n["k"] == "Call" and (n.get("fn") or "").endswith("RangeInclusive::<Idx>::new"):
                    rng.append(tuple(t2.e(a)[1].get("int") for a in n["args"]))
        ok = sorted(set(idx)) == [9] and len(idx) == 2 and rng and set(rng) == {(0, O["lane_word_data_bytes"] - 1)} and len(rng) == 2
        rep.check(ok, "R13.2", "R13.2|lane-data|bytes", "lane key = byte 9 (find and new), lane data = bytes 0..=8 (append and new)", WA,
                  "store_lane_data uses index constants %s and ranges %s; expected key byte 9 twice and 0..=8 twice" % (idx, rng))
    # frame open/close
    # decided per case: the word's flag bit (continuation / packet_done, set in the wire image of the parsed word) ×
    # readout-frame validator absent / present and idle / present and inside a frame — whether the flag is read from the
    # parsed word before it is stored or from the container afterwards
    SW = "fastpasta::words::its::status_words::"
    RFVT = RFV.rsplit("::", 2)[0]

    def _frame_events(fn_, word_adt, bit, load_sfx, getter_sfx, callee_sfx):
        res = {}
        for flag, bg in ((0, 0), (1, 0), (0, (1 << 80) - 1), (1, (1 << 80) - 1)):      # every other bit of the word 0, then 1
            for val in ("none", "idle", "in-frame"):
                if (flag, val) in res and res[(flag, val)][0] in ("undecided", "unevaluable"):
                    continue
                prev = res.get((flag, val))
                rv = Agg("core::option::Option", "None", {}) if val == "none" else \
                    Agg("core::option::Option", "Some", {"0": Agg(RFVT, "ItsReadoutFrameValidator", {"is_readout_frame": Cond("true" if val == "in-frame" else "false")})})
                slf = Agg("CdpRunningValidator", "CdpRunningValidator", {"readout_frame_validator": rv, "status_words": Sym("SWC"), "tracker": Sym("TRK")})
                word = Obj("WORD", 0, word_adt)
                ev.assume = {}
                ev.assume_bits("WORD", 0, 80, bg)
                ev.assume_bits("WORD", bit, 1, flag)
                ev.call_hooks = [(lambda f_, r_: (r_ or f_).endswith(load_sfx), lambda n, a: Agg("core::result::Result", "Ok", {"0": word})),
                                 (lambda f_, r_: (r_ or f_).endswith(getter_sfx), lambda n, a: Agg("core::option::Option", "Some", {"0": word})),
                                 (lambda f_, r_: (r_ or f_).endswith("::current_word_mem_pos"), lambda n, a: Sym("WORD_POS")),
                                 (lambda f_, r_: (r_ or f_).endswith(("::sanity_check_tdh", "::sanity_check_tdt")), lambda n, a: Agg("core::result::Result", "Ok", {"0": ()}))]
                ev.watch = lambda c: c.endswith(callee_sfx) or c.endswith(("::replace_tdh", "::replace_tdt"))
                try:
                    recs = [o for o in ev.collect_ifs(fn_, [slf, Sym("sl")], follow=lambda c: c.startswith(RFV) and c.endswith(("::is_in_frame", "::is_readout_frame")))
                            if "call" in o and not any(g in ("false", "not true") for g in o["guard"])]
                    und = [g for o in recs for g in o["guard"] if g not in ("true", "not false")]
                    names = [o["call"].split("::")[-1] for o in recs]
                    tgt = [o for o in recs if o["call"].endswith(callee_sfx)]
                    res[(flag, val)] = ("undecided", und[:1]) if und else (len(tgt), [o["args"][1:] for o in tgt], names.index(callee_sfx.split("::")[-1]) > min([i for i, n_ in enumerate(names) if n_.startswith("replace_")] or [99]) if tgt else None)
                except Unsupported as e:
                    res[(flag, val)] = ("unevaluable", str(e)[:80])
                finally:
                    ev.call_hooks = []
                    ev.watch = None
                    ev.assume = {}
                if prev is not None and res[(flag, val)] != prev:
                    res[(flag, val)] = ("depends on other bits of the word", [prev, res[(flag, val)]])
        return res
    pt = CDP + "preprocess_tdh"
    if pt in f.fns:
        got = _frame_events(pt, SW + "tdh::Tdh", 14, "::load", "StatusWordContainer::tdh", "::new_frame")
        want = {(fl_, val_): ((1, [["sym(WORD_POS)"]], True) if (fl_ == 0 and val_ == "idle") else (0, [], None)) for fl_ in (0, 1) for val_ in ("none", "idle", "in-frame")}
        rep.check(got == want, "R13.2", "R13.2|open", "a frame opens at a TDH with continuation == 0 when no frame is open; start = that word's position (after the TDH was stored)", WC,
                  "frame opening per (continuation, validator state) deviates: %s" % {k_: v_ for k_, v_ in got.items() if v_ != want[k_]})
    else:
        rep.missing("R13.2", pt)
    ptt = CDP + "preprocess_tdt"
    if ptt in f.fns:
        got = _frame_events(ptt, SW + "tdt::Tdt", 64, "::load", "StatusWordContainer::tdt", "::process_readout_frame")
        want = {(fl_, val_): ((1, [[]], True) if (fl_ == 1 and val_ != "none") else (0, [], None)) for fl_ in (0, 1) for val_ in ("none", "idle", "in-frame")}
        rep.check(got == want, "R13.2", "R13.2|close", "a frame is closed and processed at a TDT with packet_done (after the TDT was stored)", WC,
                  "frame closing per (packet_done, validator state) deviates: %s" % {k_: v_ for k_, v_ in got.items() if v_ != want[k_]})
    else:
        rep.missing("R13.2", ptt)
    prf = CDP + "process_readout_frame"
    tb = ev.tb(prf)
    if tb is not None:
        # decided per outcome of try_close_frame: Ok → the frame is processed and nothing is reported; Err → [E59] at the
        # position of the closing TDT and the frame is not processed (whatever form the test has)
        got = {}
        for outcome in ("Ok", "Err"):
            ev.call_hooks = [(lambda fn_, r_: (r_ or fn_).endswith("::try_close_frame"), lambda n, a, outcome=outcome: Agg("core::result::Result", outcome, {"0": ()})),
                             (lambda fn_, r_: (r_ or fn_).endswith("::current_word_mem_pos"), lambda n, a: Sym("WORD_POS"))]
            ev.watch = lambda c: c.endswith("::process_frame") or c.endswith("::send")
            try:
                evs = []
                for o in ev.collect_ifs(prf, [Sym("self")], follow=lambda c: c.startswith(CDP)):
                    if "call" not in o or any(g in ("false", "not true") for g in o["guard"]):
                        continue
                    und = tuple(g for g in o["guard"] if g not in ("true", "not false"))
                    if o["call"].endswith("::process_frame"):
                        evs.append(("process_frame", (), "", und))
                    else:
                        k_ = o["args"][1]
                        evs.append((k_.split("(")[0], tuple(sorted(set(re.findall(r"\[(E\d+)\]", k_)))), "word-position" if _first_fmt_arg(k_) == "upper_hex:sym(WORD_POS)" else "other offset", und))
                got[outcome] = evs
            except Unsupported as e:
                got[outcome] = [("unevaluable: %s" % e, (), "", ())]
            finally:
                ev.call_hooks = []
                ev.watch = None
        want = {"Ok": [("process_frame", (), "", ())], "Err": [("StatType::Error", (O["codes"]["close_without_open"],), "word-position", ())]}
        rep.check(got == want, "R13.2", "R13.2|close|codes", "try_close_frame() Ok → process_frame, otherwise [E59] at the closing TDT and the frame is not processed", WC,
                  "process_readout_frame does %s, expected %s" % (got, want))
        b = cg.body(prf)
        tc = [(bb, t) for bb, t, cal, c in b.calls() if cal and cal.endswith("::try_close_frame")]
        rep.check(len(tc) == 1 and "current_word_mem_pos" in show_origin(b.origin(tc[0][1]["args"][1])), "R13.2", "R13.2|close|end-pos", "frame end = position of the closing TDT", WC)
    else:
        rep.missing("R13.2", prf)
    tcf = RFV + "try_close_frame"
    if tcf in f.fns:
        out = ev.collect_ifs(tcf, [Sym("self"), Sym("END")])
        a = [o for o in out if "assign" in o and o["assign"][1] == "sym(self.is_readout_frame)"]
        rep.check(len(a) == 1 and a[0]["assign"][2] == "false" and not a[0]["guard"], "R13.2", "R13.2|close|flag", "closing always clears the in-frame flag", WR)
    nfp = RFV + "new_frame"
    if nfp in f.fns:
        out = ev.collect_ifs(nfp, [Sym("self"), Sym("POS")])
        a = {o["assign"][1]: o["assign"][2] for o in out if "assign" in o and not o["guard"]}
        ok = a.get("sym(self.is_readout_frame)") == "true" and "frame_start_mem_pos=sym(POS)" in a.get("sym(self.alpide_readout_frame)", "")
        rep.check(ok, "R13.2", "R13.2|open|state", "new_frame stores the start position and sets the in-frame flag", WR, "new_frame assigns %s" % a)
    try:
        sp_ = vkey(ev.call_fn(ARF + "AlpideReadoutFrame::start_mem_pos", [Sym("fr")]))
    except Unsupported as e:
        sp_ = "unevaluable %s" % e
    rep.check(sp_ == "sym(fr.frame_start_mem_pos)", "R13.2", "R13.2|offset|accessor", "start_mem_pos() returns the stored start position", WA, "start_mem_pos returns %s" % sp_)

    # process_frame: codes and offsets
    pf = RFV + "process_frame"
    tb = ev.tb(pf)
    if tb is None:
        rep.missing("R13.2", pf)
    else:
        facts = ctx.facts()
        # decided per case (frame empty?, barrel, lane set valid?, any lane error?): which messages and statistics are sent
        OPT, RES = "core::option::Option", "core::result::Result"
        table = {}
        for empty in (True, False):
            for layer in ("Inner", "Middle", "Outer"):
                for valid in (True, False):
                    for noerrs in (True, False):
                        ev.call_hooks = [
                            (lambda fn, r: (r or fn).endswith("AlpideReadoutFrame::is_empty"), lambda n, a, empty=empty: Cond("true" if empty else "false")),
                            (lambda fn, r: (r or fn).endswith("AlpideReadoutFrame::from_layer"), lambda n, a, layer=layer: Agg(LAYER, layer, {})),
                            (lambda fn, r: (r or fn).endswith("::check_alpide_data_frame"), lambda n, a: (Sym("IDS"), Sym("LEM"), Sym("STATS"), Agg(OPT, "None", {}))),
                            (lambda fn, r: (r or fn).endswith("::check_frame_lanes_valid"), lambda n, a, valid=valid: Agg(RES, "Ok", {"0": ()}) if valid else Agg(RES, "Err", {"0": Sym("WHY")})),
                            (lambda fn, r: (r or fn).endswith("::is_empty"), lambda n, a, noerrs=noerrs: (Cond("true" if noerrs else "false") if vkey(a[0]) == "sym(LEM)" else None))]
                        ev.watch = lambda c: c.endswith("::send")
                        try:
                            out = ev.collect_ifs(pf, [Sym("self"), Sym("ch"), Sym("sw"), Sym("rdh")], follow=lambda c: c.startswith(RFV))
                            evs = []
                            for o in out:
                                if "call" not in o or any(g in ("false", "not true") for g in o["guard"]):
                                    continue
                                k_ = o["args"][1]
                                und = [g for g in o["guard"] if g not in ("true", "not false")]
                                if k_.startswith("StatType::Error("):
                                    m_ = re.fullmatch(r"upper_hex:sym\(.*self\.alpide_readout_frame.*\.frame_start_mem_pos\)", _first_fmt_arg(k_) or "")
                                    codes_ = tuple(sorted(set(re.findall(r"str:(E\d+)", k_)) | set(re.findall(r"\[(E\d+)\]", k_))))
                                    evs.append(("Error", codes_, "frame-start" if m_ else "other offset", tuple(und)))
                                else:
                                    evs.append((k_[:60], (), "", tuple(und)))
                            table[(empty, layer, valid, noerrs)] = sorted(evs)
                        except Unsupported as e:
                            table[(empty, layer, valid, noerrs)] = [("unevaluable: %s" % e, (), "", ())]
                        finally:
                            ev.call_hooks = []
                            ev.watch = None
        cd = O["codes"]
        bad_sel, bad_g, bad_ib, bad_off, bad_stats, bad_empty = [], [], [], [], [], []
        for (empty, layer, valid, noerrs), evs in sorted(table.items()):
            case = "empty=%s barrel=%s lanes-valid=%s lane-errors=%s" % (empty, layer, valid, not noerrs)
            errs = [e for e in evs if e[0] == "Error"]
            stats = [e for e in evs if e[0].startswith("StatType::AlpideStats(0=sym(STATS))")]
            other = [e for e in evs if e not in errs and e not in stats]
            if any(e[3] for e in evs) or other:
                bad_g.append((case, evs))
                continue
            if any(e[2] != "frame-start" for e in errs):
                bad_off.append((case, errs))
            if empty:
                if len(errs) != 1 or errs[0][1] != (cd["empty_frame"],) or stats:
                    bad_empty.append((case, evs))
                continue
            if len(stats) != 1:
                bad_stats.append((case, len(stats)))
            ib = layer == "Inner"
            want = sorted(([(cd["lane_set_ib"] if ib else cd["lane_set_ob"],)] if not valid else []) + ([(cd["lane_errors_ib"] if ib else cd["lane_errors_ob"],)] if not noerrs else []))
            got = sorted(e[1] for e in errs)
            if got != want:
                if len(got) != len(want):
                    bad_g.append((case, got, want))
                else:
                    bad_sel.append((case, got, want))
        rep.check(not bad_sel, "R13.2", "R13.2|codes|selection", "code = E72 / E74 for an inner-barrel frame (from_layer() == Inner), E73 / E75 for a middle- or outer-barrel frame", WR, "codes sent deviate (case, sent, expected): %s" % bad_sel[:4])
        rep.check(not bad_g, "R13.2", "R13.2|codes|guards", "E72/E73 iff check_frame_lanes_valid returned Err; E74/E75 iff a lane reported errors", WR, "messages sent deviate (case, sent, expected): %s" % bad_g[:4])
        rep.check(not bad_off, "R13.2", "R13.2|offset|messages", "E72–E75 and E701 messages start with the frame's start offset (upper hex)", WR, "message not headed by the frame start: %s" % bad_off[:4])
        rep.check(not bad_stats, "R13.2", "R13.2|stats|once", "the frame's ALPIDE statistics are sent exactly once per processed frame", WR, "AlpideStats sends per case: %s" % bad_stats[:4])
        rep.check(not bad_empty, "R13.2", "R13.2|empty|only-report", "an empty frame produces its report and nothing else", WR, "empty frame: %s" % bad_empty[:4])
        rep.floor("R13.2", len(table), 24)
        # empty frame
        emp = [x for x, n in tb.walk() if n["k"] == "If" and _calls(tb, n["cond"], "AlpideReadoutFrame::is_empty")]
        oke = False
        if len(emp) == 1:
            n = tb.exprs[emp[0]]
            tc = [(c.get("fn") or "").split("::")[-1] for _, c in tb.calls(n["then"])]
            oke = "report_empty_alpide_frame_error" in tc and ev._ends_in_return(tb, n["then"])
        re_ = RFV + "report_empty_alpide_frame_error"
        ec = codes_under(facts, ev.tb(re_), ev.tb(re_).root) if ev.tb(re_) is not None else set()
        rep.check(oke and ec == {O["codes"]["empty_frame"]}, "R13.2", "R13.2|codes|empty", "an empty frame is reported with [E701] and not processed further", WR, "empty-frame branch ok=%s codes=%s" % (oke, sorted(ec)))
        from ..emit import format_sites
        if ev.tb(re_) is not None:
            rb = cg.body(re_)
            st2 = []
            for fs in format_sites(facts, rb):
                t_ = fs["template"] or ""
                if "[E701]" in t_:
                    st2.append((t_.strip()[:30], show_origin(fs["args"][0][1])[:160] if fs["args"] else None))
            rep.check(len(st2) == 1 and st2[0][0].startswith("{mem_pos_start:#X}: [E701]") and "start_mem_pos" in (st2[0][1] or ""), "R13.2", "R13.2|offset|empty-message", "E701 message starts with the frame's start offset", WR, "E701 head: %s" % st2)

    # per-lane bunch counters
    cb_ = LA + "check_bunch_counters"
    if cb_ in f.fns:
        # decided per number of distinct bunch counters among the lane's chips (0..3 substituted for the length of the
        # unique_by list): Ok up to one, Err from two on — however the comparison and the branches are written
        verdicts, lists = {}, set()
        for n_ in (0, 1, 2, 3):
            def hk(n, a, n_=n_):
                k_ = vkey(a[0])
                if "unique_by" in k_:
                    lists.add(k_)
                    return Bits.const(n_, 64)
                return None
            ev.call_hooks = [(lambda fn_, r_: (r_ or fn_).endswith("::len"), hk)]
            try:
                r_ = vkey(ev.call_fn(cb_, [Sym("self")]))
                verdicts[n_] = "Err" if r_.startswith("Result::Err(") else ("Ok" if r_.startswith("Result::Ok(") else r_[:60])
            except Unsupported as e:
                verdicts[n_] = "unevaluable: %s" % e
            finally:
                ev.call_hooks = []
        first = None
        ok = verdicts == {0: "Ok", 1: "Ok", 2: "Err", 3: "Err"} and len(lists) == 1 and \
            re.fullmatch(r"sym\(call:itertools::Itertools::collect_vec\(sym\(call:itertools::Itertools::unique_by\(sym\(call:core::slice::<impl \[T\]>::iter\(.*self\.chip_data.*\)\)\)", next(iter(lists))) is not None
        clo = cb_ + "::{closure#0}"
        try:
            kv = vkey(ev.call_closure(("closure", clo, {}), [Sym("cd")], 0))
        except Exception as e:  # noqa
            kv = "unevaluable %r" % (e,)
        ok = ok and kv == "sym(cd.bunch_counter)"
        rep.check(ok, "R13.2", "R13.2|bc|per-lane", "lane error iff more than one distinct chip bunch counter (unique_by bunch_counter)", WL,
                  "check_bunch_counters: verdict per number of distinct values %s over %s keyed by %s" % (verdicts, [l_[:160] for l_ in lists], kv))
    tab = lane_check_codes(ev, f)
    bad = {k_: v_ for k_, v_ in tab.items() if (O["codes"]["chip_bc"] in v_) != (not k_[0]) or isinstance(v_, str)}
    rep.check(bool(tab) and not bad, "R13.2", "R13.2|bc|code", "Err(check_bunch_counters) → [E9003] (decided for the 8 outcome combinations of the three lane checks)", WL,
              "codes recorded per (bunch counters ok, chip count ok, chip order ok): %s" % bad)
    # IB chip rules
    ifs_ = [o for o in ev.collect_ifs(LA + "check_chip_count", [Sym("self")]) if "cond" in o]
    inner = "and[symc(isInner(sym(payload(sym(self.from_layer),Some))));symc(isSome(sym(self.from_layer)))]"
    ibc = [o for o in ifs_ if tuple(o["guard"]) == (inner,)]
    ok = len(ibc) == 1 and ckey(ibc[0]["cond"]) == "Ne(sym(call:alloc::vec::Vec::<T, A>::len(sym(self.chip_data))),%s)" % hex(O["inner_chip_count"])
    rep.check(ok, "R13.2", "R13.2|ib|chip-count", "IB: error iff the lane carries != 1 chip", WL, "IB chip-count test: %s" % [(ckey(o["cond"])[:120]) for o in ibc])
    ifs_ = [o for o in ev.collect_ifs(LA + "check_chip_id_order", [Sym("self")]) if "cond" in o]
    ibo = [o for o in ifs_ if any("isInner" in g for g in o["guard"])]
    ok = len(ibo) == 1 and ckey(ibo[0]["cond"]).startswith("Ne(sym(index(") and ckey(ibo[0]["cond"]).endswith(",0x0)),sym(self.lane_number))")
    rep.check(ok, "R13.2", "R13.2|ib|chip-id", "IB: error iff the chip id differs from the lane number", WL, "IB chip-id test: %s" % [ckey(o["cond"])[-80:] for o in ibo])
    out = ev.collect_ifs(LA + "analyze_alpide_frame", [Sym("self"), Sym("ldf")])
    ln = [o for o in out if "assign" in o and o["assign"][1] == "sym(self.lane_number)"]
    rep.check(len(ln) == 1 and not ln[0]["guard"] and "ldf.lane_id" in ln[0]["assign"][2] and "self.from_layer" in ln[0]["assign"][2], "R13.2", "R13.2|ib|lane-number",
              "lane number = lane_number(lane id, barrel) set before decoding", WL)

    # cross-lane comparison over validated lanes only
    vb = ALP + "validate_lane_bcs"
    if vb in f.fns:
        out = [o for o in ev.collect_ifs(vb, [Sym("VL"), Sym("msgs"), Sym("ids")]) if "cond" in o]
        c0 = ckey(out[0]["cond"]) if out else ""
        ok = c0.startswith("Gt(sym(call:alloc::vec::Vec::<T, A>::len(") and c0.endswith(",0x1)") and "Itertools::unique(" in c0 and "sym(VL)" in c0
        try:
            kv = vkey(ev.call_closure(("closure", vb + "::{closure#0}", {}), [Sym("lane")], 0))
        except Exception as e:  # noqa
            kv = "unevaluable %r" % (e,)
        rep.check(ok and kv == "sym(lane.bunch_counter)", "R13.2", "R13.2|bc|cross-lane", "frame error iff validated lanes carry more than one distinct bunch counter", "fastpasta/src/analyze/validators/its/alpide.rs",
                  "cross-lane condition %s keyed by %s" % (c0[:160], kv))
        b = cg.body(vb)
        pushes = [bb for bb, t, cal, c in b.calls() if cal and cal.endswith("Vec::<T, A>::push") and "arg2" in show_origin(b.origin(t["args"][0]))]
        rep.check(len(pushes) == 1, "R13.2", "R13.2|bc|cross-lane-message", "one message is added for a cross-lane mismatch", "fastpasta/src/analyze/validators/its/alpide.rs")
    lce = lane_case_events(ev, f)
    WA = "fastpasta/src/analyze/validators/its/alpide.rs"
    if lce is not None:
        def pushes(case):
            return [a_[1] for n_, a_, g_ in lce[case] if n_ == "push"]
        vl = {c_: [x for x in pushes(c_) if x.startswith("ValidatedLane::ValidatedLane(")] for c_ in lce}
        okv = vl["err"] == [] and vl["fatal"] == [] and len(vl["valid"]) == 1 and "lane_id=sym(LANE_NUMBER)" in vl["valid"][0] and "bunch_counter=sym(VALIDATED_BC)" in vl["valid"][0]
        rep.check(okv, "R13.2", "R13.2|bc|validated-only", "only lanes without errors and not fatal enter the cross-lane comparison (with their own lane number and validated bunch counter)", WA,
                  "ValidatedLane pushes per case (decode error / fatal / healthy): %s" % {c_: [x[:90] for x in v_] for c_, v_ in vl.items()})
        sums = {c_: [g_ for n_, a_, g_ in lce[c_] if n_ == "sum"] for c_ in lce}
        oks = all(len(v_) == 1 for v_ in sums.values()) and len({v_[0] for v_ in sums.values()}) == 1
        rep.check(oks, "R13.2", "R13.2|stats|every-lane", "each lane's readout-flag counters are added exactly once in all three cases", WA,
                  "AlpideStats::sum calls per case: %s" % {c_: len(v_) for c_, v_ in sums.items()})
        # every lane is decoded by a decoder created for it: the receiver of analyze_alpide_frame comes from a
        # LaneAlpideFrameAnalyzer::new call inside the per-lane body (the closure, or the loop body) — a decoder that
        # lives across lanes carries state (fatal flag, counters, chip data) from one lane into the next
        fresh_decoder_per_lane(ctx, rep, f, cg, WA)
        errp = [x for x in pushes("err") if x == "sym(LANE_NUMBER)"]
        rep.check(len(errp) == 1 and "sym(MSGS)" in pushes("err"), "R13.2", "R13.2|lane-errors|collected", "a lane whose decode failed contributes its messages and its lane number once", WA,
                  "pushes in the decode-error case: %s" % [x[:60] for x in pushes("err")])
    else:
        rep.bad("R13.2", "R13.2|bc|validated-only", "check_alpide_data_frame cannot be evaluated per lane case", WA)


def lane_case_events(ev, f):
    """Events of the per-lane step of check_alpide_data_frame in each of its three cases — the lane's decode returned
    Err / returned Ok and the lane is FATAL / returned Ok and is healthy — obtained by evaluating the function (closure
    or loop form) with `analyze_alpide_frame` and `is_fatal_lane` replaced by the case's outcome.  Returns
    {case: [(callee, args, argv)]} or None when the function cannot be evaluated."""
    fn = ALP + "check_alpide_data_frame"
    cands = [q for q in [fn] + sorted(q for q in f.fns if q.startswith(fn + "::{closure")) if ev.tb(q) is not None]
    if fn not in f.fns or not cands:
        return None
    cases = {"err": (Agg("core::result::Result", "Err", {"0": Sym("MSGS")}), False), "fatal": (Agg("core::result::Result", "Ok", {"0": ()}), True),
             "valid": (Agg("core::result::Result", "Ok", {"0": ()}), False)}
    out = {}
    for case, (ares, fat) in cases.items():
        ev.call_hooks = [(lambda fn_, res: (res or fn_).endswith("::analyze_alpide_frame"), lambda n, a, ares=ares: ares),
                         (lambda fn_, res: (res or fn_).endswith("::is_fatal_lane"), lambda n, a, fat=fat: Cond("true" if fat else "false")),
                         (lambda fn_, res: (res or fn_).endswith("::validated_bc"), lambda n, a: Agg("core::option::Option", "Some", {"0": Sym("VALIDATED_BC")})),
                         (lambda fn_, res: (res or fn_).endswith("LaneDataFrame::lane_number"), lambda n, a: Sym("LANE_NUMBER"))]
        ev.watch = lambda c: c.endswith("::push") or c.endswith("AlpideStats::sum")
        evs = []
        try:
            for c in cands:
                for o in ev.collect_ifs(c, [Sym("A%d" % i) for i in range(len(ev.tb(c).params))]):
                    if "call" in o and not o.get("closure") and not any(x in ("false", "not true") for x in o["guard"]):
                        evs.append((o["call"].split("::")[-1], o["args"], tuple(g for g in o["guard"] if g not in ("true", "not false"))))
        except Unsupported:
            return None
        finally:
            ev.call_hooks = []
            ev.watch = None
        out[case] = evs
    return out



def fresh_decoder_per_lane(ctx, rep, f, cg, WA="fastpasta/src/analyze/validators/its/alpide.rs"):
    """R13.2|decoder|fresh-per-lane (shared with C20: the custom chip checks of a lane rely on that lane's own decoder state)"""
    fn_ = ALP + "check_alpide_data_frame"
    fresh = []
    for q in [fn_] + sorted(q for q in f.fns if q.startswith(fn_ + "::{closure")):
        bq = cg.body(q)
        for bb, t, cal, c in bq.calls():
            if cal and cal.endswith("::analyze_alpide_frame"):
                o = bq.origin(t["args"][0])
                while isinstance(o, tuple) and o and o[0] in ("ref", "proj"):
                    o = o[1]
                is_new = isinstance(o, tuple) and o and o[0] == "call" and (o[1] or "").endswith("LaneAlpideFrameAnalyzer::<'a>::new") or \
                    (isinstance(o, tuple) and o and o[0] == "call" and (o[1] or "").split("::")[-1] == "new" and "LaneAlpideFrameAnalyzer" in (o[1] or ""))
                per_lane = is_new and (q != fn_ or bq.on_cycle(o[3]))
                fresh.append((bool(per_lane), show_origin(o)[:70]))
    rep.check(bool(fresh) and all(x for x, _ in fresh), "R13.2", "R13.2|decoder|fresh-per-lane", "each lane is decoded by a decoder created for that lane", WA,
              "the decoder handed to analyze_alpide_frame is not created inside the per-lane step (%s): its state (fatal flag, chip data, counters) leaks from one lane into the next" % [y for _, y in fresh])


def lane_check_codes(ev, f):
    """{(bunch counters ok, chip count ok, chip order ok): sorted codes appended to the lane's error text} —
    do_lane_alpide_checks evaluated with the three checks replaced by each combination of outcomes (helpers followed)"""
    dl = LA + "do_lane_alpide_checks"
    if dl not in f.fns:
        return {}
    out = {}
    for bc in (True, False):
        for cnt in (True, False):
            for order in (True, False):
                res = lambda ok_, nm: Agg("core::result::Result", "Ok", {"0": ()}) if ok_ else Agg("core::result::Result", "Err", {"0": Sym(nm)})
                ev.call_hooks = [(lambda fn_, r_: (r_ or fn_).endswith("::check_bunch_counters"), lambda n, a, bc=bc: res(bc, "BCMSG")),
                                 (lambda fn_, r_: (r_ or fn_).endswith("::check_chip_count"), lambda n, a, cnt=cnt: res(cnt, "CNTMSG")),
                                 (lambda fn_, r_: (r_ or fn_).endswith("::check_chip_id_order"), lambda n, a, order=order: res(order, "ORDMSG"))]
                ev.watch = lambda c: c.endswith("::push_str") or c.endswith("::write_fmt") or c.endswith("::push")
                try:
                    recs = ev.collect_ifs(dl, [Sym("self")], follow=lambda c: c.startswith(LA) and not c.endswith(("::check_bunch_counters", "::check_chip_count", "::check_chip_id_order")))
                    live = [o for o in recs if "call" in o and not o.get("closure") and not any(g in ("false", "not true") for g in o["guard"])]
                    if any(g not in ("true", "not false") for o in live for g in o["guard"]):
                        out[(bc, cnt, order)] = "undecided"
                    else:
                        out[(bc, cnt, order)] = sorted(c_ for o in live for c_ in re.findall(r"\[(E\d{4})\]", " ".join(o["args"])))
                except Unsupported as e:
                    out[(bc, cnt, order)] = "unevaluable: %s" % e
                finally:
                    ev.call_hooks = []
                    ev.watch = None
    return out


def _bind_params(ev, tb, args):
    env = {}
    for p_, a in zip(tb.params, args):
        ev.bind(p_.get("pat"), a, env)
    return env


def _first_fmt_arg(key):
    """'<kind>:<value>' of the first argument of the outermost format! inside a message value, or None"""
    m0 = re.search(r"Arguments::<'a>::new\(sym\((?:lit|bytes:[^()]*)\),\('array',sym\(call:core::fmt::rt::Argument::<'_>::new_", key)
    if not m0:
        return None
    i, head = m0.start(), m0.group(0)
    j = key.find("(", i + len(head))
    kind = key[i + len(head):j]
    depth, k = 0, j
    while k < len(key):
        if key[k] == "(":
            depth += 1
        elif key[k] == ")":
            depth -= 1
            if depth == 0:
                return "%s:%s" % (kind, key[j + 1:k])
        k += 1
    return None


def _single_str(tb, i):
    lits = [n["str"] for _, n in tb.walk(i) if n["k"] == "Lit" and "str" in n]
    others = [n for _, n in tb.walk(i) if n["k"] in ("Call", "If", "Match")]
    return lits[0] if len(lits) == 1 and not others else None


def _calls(tb, i, suffix):
    return any((n.get("res") or n.get("fn") or "").endswith(suffix) for _, n in tb.calls(i))


def _has_not(tb, i):
    return any(n["k"] == "Unary" and n.get("op") == "Not" for _, n in tb.walk(i))


def _inside(tb, outer, inner):
    n = tb.exprs[outer]
    return any(y == inner for y, _ in tb.walk(n["then"]))


# ------------------------------------------------------------------ R13.3
def r133(ctx, rep, f, ev, cg, reach, O):
    WL = "fastpasta/src/analyze/validators/its/alpide/lane_alpide_frame_analyzer.rs"
    WR = "fastpasta/src/analyze/validators/its/cdp_running/readout_frame.rs"
    # writers of lane_status_fatal
    writers = set()
    for p in sorted(reach):
        fn = f.fns.get(p)
        if not fn or not fn.get("thir"):
            continue
        tb = ev.tb(p)
        if tb is None:
            continue
        for x, n in tb.walk():
            if n["k"] in ("Assign", "AssignOp"):
                ln = tb.e(n["l"])[1]
                if ln["k"] == "Field" and ln.get("name") == "lane_status_fatal":
                    writers.add(p)
    def _only_from_decode(q, depth=0):
        # a helper of the decoder: every caller is decode() or another such helper (its writes are then covered by the
        # per-byte effect table of R13.1, which follows the decoder's helpers)
        if q == LA + "decode":
            return True
        if depth > 3 or not q.startswith(LA):
            return False
        cs_ = [c for c, *_ in cg.call_sites(lambda p_: p_ == q) if c in reach]
        return bool(cs_) and all(_only_from_decode(c, depth + 1) for c in cs_)
    rep.check(bool(writers) and all(_only_from_decode(w_) for w_ in writers), "R13.3", "R13.3|fatal|writers", "lane_status_fatal is set only by the decoder (fatal APE classes, see R13.1 effect table)", WL, "writers: %s" % sorted(writers))
    try:
        v = vkey(ev.call_fn(LA + "is_fatal_lane", [Sym("an")]))
    except Unsupported as e:
        v = "unevaluable %s" % e
    rep.check(v == "sym(an.lane_status_fatal)", "R13.3", "R13.3|fatal|accessor", "is_fatal_lane() returns the flag", WL, "is_fatal_lane returns %s" % v)
    # fatal lanes list: pushed with the lane number under is_fatal_lane
    lce = lane_case_events(ev, f)
    if lce is not None:
        fatal_only = {c_: [a_[1] for n_, a_, g_ in lce[c_] if n_ == "push" and a_[1] == "sym(LANE_NUMBER)"] for c_ in lce}
        ok = len(fatal_only["fatal"]) == 1 and fatal_only["valid"] == [] and len(fatal_only["err"]) == 1 and \
            [a_[0] for n_, a_, g_ in lce["fatal"] if n_ == "push"] != [a_[0] for n_, a_, g_ in lce["err"] if n_ == "push" and a_[1] == "sym(LANE_NUMBER)"]
        rep.check(ok, "R13.3", "R13.3|fatal|collected", "a lane number joins the fatal list exactly when its decode succeeded and is_fatal_lane() holds", "fastpasta/src/analyze/validators/its/alpide.rs",
                  "lane-number pushes per case: %s" % {c_: [(a_[0][:50], a_[1][:30]) for n_, a_, g_ in lce[c_] if n_ == "push"] for c_ in lce})
    else:
        rep.bad("R13.3", "R13.3|fatal|collected", "check_alpide_data_frame cannot be evaluated per lane case", "fastpasta/src/analyze/validators/its/alpide.rs")
    # add_fatal_lanes single caller with the 4th result
    afl = RFV + "add_fatal_lanes"
    cs = sorted(set(c for c, *_ in cg.call_sites(lambda p_: p_ == afl) if c in reach))
    rep.check(cs == [RFV + "process_frame"], "R13.3", "R13.3|fatal|single-source", "fatal lanes are added only by process_frame from the frame analysis result", WR, "callers of add_fatal_lanes: %s" % cs)
    wr = set()
    for p in sorted(reach):
        fn = f.fns.get(p)
        if not fn or not fn.get("thir"):
            continue
        tb = ev.tb(p)
        if tb is None:
            continue
        for x, n in tb.walk():
            if n["k"] in ("Assign", "AssignOp"):
                ln = tb.e(n["l"])[1]
                if ln["k"] == "Field" and ln.get("name") == "fatal_lanes" and (ln.get("adt") or "").endswith("ItsReadoutFrameValidator"):
                    wr.add(p)
    rep.check(wr <= {afl}, "R13.3", "R13.3|fatal|field-writers", "the running fatal-lane list is written only by add_fatal_lanes", WR, "writers: %s" % sorted(wr))
    pf = RFV + "process_frame"
    if pf in f.fns:
        b = cg.body(pf)
        cv = [(bb, t) for bb, t, cal, c in b.calls() if cal and cal.endswith("::check_frame_lanes_valid")]
        ad = [bb for bb, t, cal, c in b.calls() if cal == afl]
        ok = len(cv) == 1 and "fatal_lanes" in show_origin(b.origin(cv[0][1]["args"][1]))
        ads = [(bb, t) for bb, t, cal, c in b.calls() if cal == afl]
        srcs = [show_origin(b.origin(t["args"][1])) for bb, t in ads]
        rep.check(len(ads) == 1 and re.search(r"alpide::check_alpide_data_frame\(.*\)\.3", srcs[0]) is not None, "R13.3", "R13.3|fatal|source-value",
                  "the only value added to the fatal-lane list is the frame analysis' fatal-lane result", WR,
                  "add_fatal_lanes is called %d time(s) with %s; expected once with check_alpide_data_frame(..).3" % (len(ads), [x[:120] for x in srcs]))
        rep.check(ok, "R13.3", "R13.3|fatal|used", "the lane-count rule receives the running fatal-lane list", WR)
