"""C16 — exit status and error accounting follow the documented contract (structural part).

Decided: the exit function's truth table (R16.1); the any-errors flag is set
from every error-like accumulator — error total (errors + custom-check
failures) and the fatal error — and by a statistics mismatch (R16.2);
option validation precedes every other effect and rejects each documented
invalid combination (R16.3); display options (mute, error-code filter, cap)
are read only on display paths and never gate the counting of an error (R16.4);
total_errors is incremented exactly where a message is stored (R16.5).
Not decided: -w string matching, -e counts (runtime strings)."""
import re

from ..mir import callee_of, origin_calls, show_origin
from ..thir import Evaluator, Sym, Cond, ckey, Unsupported
from ..facts import where

EXPLANATION = __doc__
CTRL = "fastpasta::controller::Controller::<C>::"
SCOL = "fastpasta::stats::stats_collector::StatsCollector::"
ES = "fastpasta::stats::stats_collector::error_stats::ErrorStats::"
STORE = "core::sync::atomic::Atomic::<bool>::store"


def _is_err_stat(b, op):
    """the operand is a StatType::Error(..)/Fatal(..) value"""
    for o in b.origins(op):
        x = o
        while isinstance(x, tuple) and x and x[0] in ("ref", "proj"):
            x = x[1]
        if isinstance(x, tuple) and x and x[0] == "agg" and (x[1].get("adt") or "").endswith("stats::StatType") and x[1].get("vname") in ("Error", "Fatal"):
            return True
    return False


def run(ctx, rep):
    f = ctx.facts()
    cg = ctx.cg()
    reach = ctx.reachable()
    ev = Evaluator(f)

    # ---------- R16.1 exit truth table
    ex = "fastpasta::util::lib::exit"
    tb = ev.tb(ex)
    if tb:
        # the truth table of exit() over (processing code, configured any-errors code, flag), obtained by evaluating
        # the function for all eight combinations — independent of how its conditions are nested or ordered
        from ..thir import Agg as _Agg, Bits as _Bits, Cond as _Cond, vkey as _vkey
        rows = {}
        unevaluable = None
        CODES, CFGS = (0, 1, 5, 255), (None,) + tuple(range(1, 256))   # 0 is rejected by validate_args (R16.3)
        for code in CODES:
            for cfg in CFGS:
                for flag in (False, True):
                    ev.call_hooks = [
                        (lambda fn, res: fn.endswith("::any_errors_exit_code"), lambda n, a, cfg=cfg: _Agg("core::option::Option", "Some", {"0": _Bits.const(cfg, 8)}) if cfg is not None else _Agg("core::option::Option", "None", {})),
                        (lambda fn, res: fn.endswith("Atomic::<bool>::load") or fn.endswith("AtomicBool::load"), lambda n, a, flag=flag: _Cond("true" if flag else "false")),
                        (lambda fn, res: fn.endswith("ExitCode as core::convert::From<u8>>::from") or (fn.endswith("From::from") and "ExitCode" in (res or "")), lambda n, a: Sym("EXIT(%s)" % _vkey(a[0]))),
                    ]
                    try:
                        r = ev.call_fn(ex, [_Bits.const(code, 8), Sym("FLAG")])
                        rows[(code, cfg, flag)] = _vkey(r)
                    except Unsupported as e:
                        unevaluable = str(e)
                    finally:
                        ev.call_hooks = []
        want = {}
        for code in CODES:
            for cfg in CFGS:
                for flag in (False, True):
                    want[(code, cfg, flag)] = "sym(EXIT(%s))" % hex(code) if code else ("sym(EXIT(%s))" % hex(cfg) if (cfg is not None and flag) else "SUCCESS")
        norm = {k: ("SUCCESS" if "SUCCESS" in v and "EXIT(" not in v else v) for k, v in rows.items()}
        bad = {k: norm.get(k) for k in want if norm.get(k) != want[k]}
        rep.check(not bad and unevaluable is None, "R16.1", "R16.1|exit_table", "exit(): code 0 ∧ any-errors code configured ∧ flag ⇒ N; code 0 otherwise ⇒ SUCCESS; else the code (%d combinations evaluated: every configurable code 1..=255 and none)" % len(want), ex,
                  "exit() deviates for (code, configured, flag) = %s%s" % (dict(list(bad.items())[:4]), (" — " + unevaluable) if unevaluable else ""))
    else:
        rep.missing("R16.1", ex)
    ir = "fastpasta::init::run"
    if ir in f.fns:
        # run() with the helpers of its module inlined (the processing code may be computed by an extracted helper)
        from ..mir import Body as _Body, inline_fn as _inline
        b = _Body(_inline(f, ir, lambda c: c.startswith("fastpasta::init::") and "{closure" not in c, max_depth=3, max_blocks=2000))
        ex_calls = [(bb, t) for bb, t, cal, c in b.calls() if cal == ex]
        ok = len(ex_calls) == 1
        if ok:
            codes = set()
            for o in b.origins(ex_calls[0][1]["args"][0]):
                codes.add(show_origin(o))
            # exit_code local is assigned constants 0/1 only
            l = None
            pl = ex_calls[0][1]["args"][0]
            o = b.origin(pl)
            vals = set()
            def _consts(op_, depth_=0):
                out_ = set()
                for o_ in b.origins(op_):
                    if isinstance(o_, tuple) and o_ and o_[0] == "const" and isinstance(o_[1].get("int"), int):
                        out_.add(o_[1]["int"])
                    elif isinstance(o_, tuple) and o_ and o_[0] == "local" and not o_[2] and depth_ < 4 and len(b.defs.get(o_[1], [])) > 0:
                        for bb_, idx_, kind_, node_ in b.defs.get(o_[1], []):
                            if kind_ == "assign" and node_["rv"]["k"] == "use":
                                out_ |= _consts(node_["rv"]["op"], depth_ + 1)
                            else:
                                out_.add("?")
                    else:
                        out_.add("?")
                return out_
            vals = _consts(pl)
            ok = vals == {0, 1}
            rep.check(ok, "R16.1", "R16.1|run_codes", "run() passes only the processing codes 0/1 to exit()", ir, "exit() receives %s" % sorted(map(str, vals)))
        # config failure returns 1 before anything else
        icfg = [bb for bb, t, cal, c in b.calls() if cal == "fastpasta::config::init_config"]
        others = [bb for bb, t, cal, c in b.calls() if cal and cal.startswith("fastpasta::") and cal != "fastpasta::config::init_config" or (cal and cal.startswith("alice_protocol_reader::"))]
        rep.check(len(icfg) == 1 and all(b.dominates(icfg[0], o) for o in others), "R16.3", "R16.3|init_config_first", "init_config (argument validation) precedes every other effect of run()", ir,
                  "a fastPASTA call in run() is not dominated by init_config")
    else:
        rep.missing("R16.1", ir)

    # ---------- R16.2 flag completeness
    cr = CTRL + "run"
    if cr in f.fns:
        # Controller's own helper methods (update, small wrappers) are inlined: the rule is about where the flag is
        # stored, not about which method contains the store
        from ..mir import Body, inline_fn
        b = Body(inline_fn(f, cr, lambda c: c.startswith(CTRL), max_depth=3, max_blocks=3000))
        stores = [(bb, t) for bb, t, cal, c in b.calls() if cal == STORE and "any_errors_flag" in show_origin(b.origin(t["args"][0]))]
        recv = [bb for bb, t, cal, c in b.calls() if cal == "flume::Receiver::<T>::recv"]
        val = [bb for bb, t, cal, c in b.calls() if cal == SCOL + "validate_other_stats"]
        # stores inside the receive loop are allowed only right after an Error/Fatal message was collected (early raise)
        coll = [(bb, show_origin(b.origin(t["args"][1]))) for bb, t, cal, c in b.calls() if cal == SCOL + "collect"]
        errcoll = [bb for bb, so in coll if so.startswith("fastpasta::stats::StatType{") and False] + [bb for bb, t, cal, c in b.calls() if cal == SCOL + "collect" and _is_err_stat(b, t["args"][1])]
        early = [s_ for s_ in stores if b.on_cycle(s_[0])]
        # … or directly before it (the collect is inevitable from the store within the same loop iteration)
        bad_early = [s_[0] for s_ in early if not any(b.dominates(e, s_[0]) for e in errcoll)
                     and not (errcoll and b.all_paths_pass(s_[0], errcoll, to=list(recv) + b.return_blocks()))]
        after = [s_ for s_ in stores if not b.on_cycle(s_[0])]
        # the store that is not downstream of validate_other_stats is the "errors were reported" store
        main_store = [s_ for s_ in after if not any(s_[0] in b.reachable_from(v) for v in val)]
        mism_store = [s_ for s_ in after if any(s_[0] in b.reachable_from(v) for v in val)]
        rep.check(len(main_store) == 1 and len(mism_store) == 1 and not bad_early, "R16.2", "R16.2|stores",
                  "the any-errors flag is stored after the receive loop (errors reported) and on a statistics mismatch; stores inside the loop only directly after an Error/Fatal was collected (%d)" % len(early), cr,
                  "stores of any_errors_flag: after the loop %d, on mismatch %d, inside the loop not tied to a collected error %s" % (len(main_store), len(mism_store), bad_early))
        if main_store:
            sb = main_store[0][0]
            guards = set()
            for x in b.live_blocks():
                tt = b.blocks[x]["t"]
                if tt["k"] == "switch" and recv and b.dominates(recv[0], x) and not b.on_cycle(x) and sb in b.reachable_from(x):
                    # the store is control dependent on this switch: it is inevitable from one successor and avoidable from another
                    inev = [b.all_paths_pass(s_, [sb]) for s_ in b.succ[x]]
                    if any(inev) and not all(inev):
                        for cal in b.source_calls(tt["d"]):
                            guards.add(cal.split("::")[-1])
            need = {"any_errors", "any_fatal_err"}
            direct = {g for g in guards if g in ("any_errors", "any_fatal_err", "err_count", "fatal_err")}
            ok = need <= guards
            rep.check(ok, "R16.2", "R16.2|flag_reads_all_accumulators", "the any-errors flag is set from both the error total and the fatal error (%s)" % sorted(direct), cr,
                      "the any-errors flag is stored under a condition that reads only %s: a fatal input error (recorded in fatal_error, not counted in total_errors) leaves the flag clear and "
                      "the process exits 0 although -E N was given" % sorted(direct))
        # any_errors ⇔ total_errors > 0 ; custom check errors are counted
        ae = SCOL + "any_errors"
        try:
            r = ev.call_fn(ae, [Sym("S")])
            k = ckey(r)
        except Unsupported:
            k = "?"
        rep.check("Gt(" in k and "total_errors" in k and "0x0" in k, "R16.2", "R16.2|any_errors_def", "any_errors() ⇔ total_errors > 0", ae, "any_errors() is %s" % k)
        vcs = [bb for bb, t, cal, c in b.calls() if cal == SCOL + "validate_custom_stats"]
        rep.check(len(vcs) == 1 and main_store and b.dominates(vcs[0], main_store[0][0]) or (vcs and main_store and vcs[0] in _can_reach(b, main_store[0][0])), "R16.2", "R16.2|custom_checks_before_flag",
                  "custom-check failures are added before the flag is computed", cr)
    else:
        rep.missing("R16.2", cr)

    # ---------- R16.3 validation first + rejected combinations
    ic = "fastpasta::config::init_config"
    if ic in f.fns:
        b = cg.body(ic)
        va = [bb for bb, t, cal, c in b.calls() if cal and cal.endswith("Config::validate_args") or (cal and cal.endswith("::validate_args"))]
        hc = [bb for bb, t, cal, c in b.calls() if cal and cal.endswith("Cfg::handle_custom_checks")]
        st = [bb for bb, t, cal, c in b.calls() if cal and cal.endswith("OnceLock::<T>::set")]
        ok = len(va) == 1 and hc and st and all(b.dominates(va[0], x) for x in hc + st)
        # and the Err of validate_args returns (the `?`): handle_custom_checks only reachable from the Ok edge
        rep.check(ok, "R16.3", "R16.3|validate_before_effects", "validate_args()? precedes handle_custom_checks (may write custom_checks.toml) and CONFIG.set", ic,
                  "argument validation does not dominate the configuration side effects")
    else:
        rep.missing("R16.3", ic)
    va = "fastpasta::config::lib::Config::validate_args"
    if va in f.fns:
        # validate_args decided as a truth table over the option combinations it looks at (the accessors are replaced
        # by each combination's values): Err exactly for the documented invalid combinations, however the tests are nested
        from ..thir import Agg as _Agg, Bits as _Bits, Cond as _Cond, vkey as _vkey
        CC, SYS = "fastpasta::config::check::CheckCommands", "fastpasta::config::check::System"
        some = lambda x: _Agg("core::option::Option", "Some", {"0": x})
        none = _Agg("core::option::Option", "None", {})
        checks = [("none", none, [None])] + [(k_.lower(), some(_Agg(CC, k_, {"0": Sym("ARGS")})), [None, "ITS", "ITS_Stave"]) for k_ in ("Sanity", "All")]
        stats = [("none", none, None, None), ("missing", some(Sym("PATH")), False, None), ("no-ext", some(Sym("PATH")), True, none)] + \
                [("ext-" + e_, some(Sym("PATH")), True, some(Sym("str:" + e_))) for e_ in ("json", "toml", "txt", "JSON")]
        wrong = {}
        n_rows = 0
        unevaluable = None
        for cname, cval, targets in checks:
            for tgt in targets:
                for period in (None, 198):
                    for code in (None, 0, 7):
                        for sname, sval, isfile, ext in stats:
                            ev.call_hooks = [
                                (lambda fn, res: fn.endswith("ChecksOpt::check") or (res or "").endswith("::check") and "config" in (res or ""), lambda n, a, cval=cval: cval),
                                (lambda fn, res: (res or fn).endswith("CheckCommands>::target"), lambda n, a, tgt=tgt: some(_Agg(SYS, tgt, {})) if tgt else none),
                                (lambda fn, res: (res or fn).endswith("::check_its_trigger_period"), lambda n, a, period=period: some(_Bits.const(period, 16)) if period else none),
                                (lambda fn, res: (res or fn).endswith("::any_errors_exit_code"), lambda n, a, code=code: some(_Bits.const(code, 8)) if code is not None else none),
                                (lambda fn, res: (res or fn).endswith("::input_stats_file"), lambda n, a, sval=sval: sval),
                                (lambda fn, res: fn.endswith("Path::is_file"), lambda n, a, isfile=isfile: _Cond("true" if isfile else "false")),
                                (lambda fn, res: fn.endswith("Path::extension"), lambda n, a, ext=ext: ext if ext is not None else none),
                            ]
                            try:
                                r = _vkey(ev.call_fn(va, [Sym("CFG")]))
                            except Unsupported as e:
                                unevaluable = str(e)
                                r = "?"
                            finally:
                                ev.call_hooks = []
                            verdict = "Ok" if r.startswith("Result::Ok(") else ("Err" if r.startswith("Result::Err(") else "?")
                            reasons = []
                            if cname == "sanity" and tgt == "ITS_Stave":
                                reasons.append("sanity+its_stave")
                            if period and tgt != "ITS_Stave":
                                reasons.append("trigger_period_without_stave_target" if tgt else "trigger_period_without_target")
                            if code == 0:
                                reasons.append("any_errors_exit_code_zero")
                            if sname == "missing":
                                reasons.append("stats_file_missing")
                            if sname == "no-ext":
                                reasons.append("stats_file_no_extension")
                            if sname in ("ext-txt", "ext-JSON"):
                                reasons.append("stats_file_bad_extension")
                            n_rows += 1
                            if verdict != ("Err" if reasons else "Ok"):
                                for rs in (reasons or ["valid_combination_rejected"]):
                                    wrong.setdefault(rs, []).append("check=%s target=%s period=%s -E=%s stats=%s → %s" % (cname, tgt, period, code, sname, verdict))
        for nm in ("sanity+its_stave", "trigger_period_without_stave_target", "trigger_period_without_target", "any_errors_exit_code_zero", "stats_file_missing",
                   "stats_file_no_extension", "stats_file_bad_extension", "valid_combination_rejected"):
            rep.check(nm not in wrong and unevaluable is None, "R16.3", "R16.3|rejects|%s" % nm,
                      ("validate_args rejects %s in every combination" % nm) if nm != "valid_combination_rejected" else "validate_args accepts every valid combination (%d combinations evaluated)" % n_rows, va,
                      "validate_args gives the wrong verdict: %s%s" % (wrong.get(nm, [])[:3], (" — " + unevaluable) if unevaluable else ""))
    else:
        rep.missing("R16.3", va)

    # ---------- R16.3b the extension test of validate_args and the format dispatch in Controller::run agree
    def ext_tests(path):
        tbx = ev.tb(path)
        out_ = set()
        if not tbx:
            return None
        # local variables bound by a plain `let x = <init>` are looked through (the extension may be computed once)
        inits = {}
        for st in tbx.stmts:
            if st.get("k") == "let" and st.get("init") is not None and (st.get("pat") or {}).get("k") == "Bind" and st["pat"].get("sub") is None:
                inits[st["pat"]["id"]] = st["init"]

        # names bound by a pattern matched against an expression (`match e { Some(x) … }`, `if let Some(x) = e`)
        def binds_of(pat, acc):
            if not pat:
                return acc
            if pat["k"] == "Bind":
                acc.append(pat["id"])
                binds_of(pat.get("sub"), acc)
            elif pat["k"] == "Deref":
                binds_of(pat.get("sub"), acc)
            elif pat["k"] in ("Leaf", "Variant"):
                for s_ in pat.get("subs", []):
                    binds_of(s_["p"], acc)
            elif pat["k"] == "Or":
                for p_ in pat.get("pats", []):
                    binds_of(p_, acc)
            return acc
        for _, x in tbx.walk():
            if x["k"] == "Match":
                for a_ in x["arms"]:
                    for id_ in binds_of(tbx.arms[a_]["pat"], []):
                        inits.setdefault(id_, x["scrut"])
            elif x["k"] == "Let":
                for id_ in binds_of(x.get("pat"), []):
                    inits.setdefault(id_, x["e"])

        def mentions_ext(i, depth=0):
            for _, x in tbx.walk(i):
                if x["k"] == "Call" and (x.get("fn") or "").endswith("Path::extension"):
                    return True
                if x["k"] in ("Var", "Upvar") and x.get("id") in inits and depth < 4 and mentions_ext(inits[x["id"]], depth + 1):
                    return True
            return False
        for i, n in tbx.walk():
            if n["k"] == "Call" and any(mentions_ext(a) for a in n["args"]):
                fn_ = (n.get("fn") or "")
                nm = fn_.split("::")[-1]
                if nm in ("unwrap", "expect", "is_none", "is_some"):
                    continue
                if nm in ("eq", "ne"):
                    nm = "exact-compare"
                lits = tuple(sorted(x["str"] for a in n["args"] for _, x in tbx.walk(a) if x["k"] == "Lit" and "str" in x))
                if lits:
                    out_.add((nm, lits))
            elif n["k"] == "Match" and mentions_ext(n["scrut"]):
                # `match ext.to_str() { Some("json") => …, Some("toml") => …, _ => … }`: one exact comparison per literal arm
                def strs(pat, acc):
                    if not pat:
                        return acc
                    if pat["k"] == "Const" and pat.get("ty") == "str":
                        m_ = re.findall(r"(\d+)_u8", pat.get("dbg") or "")
                        if m_:
                            acc.append(bytes(int(x_) for x_ in m_).decode("utf-8", "replace"))
                    for s_ in pat.get("subs", []):
                        strs(s_["p"], acc)
                    strs(pat.get("sub"), acc)
                    for p_ in pat.get("pats", []):
                        strs(p_, acc)
                    return acc
                for a_ in n["arms"]:
                    for lit in strs(tbx.arms[a_]["pat"], []):
                        out_.add(("exact-compare", (lit,)))
        return out_
    ev_a = None
    if va in f.fns:
        # validate_args and the helpers of the configuration module it reaches (the path checks may live in a helper)
        ev_a = set()
        for p_ in sorted(ctx.cg().reachable([va])):
            if p_ == va or p_.startswith("fastpasta::config::"):
                ev_a |= ext_tests(p_) or set()
    ev_b = None
    if cr in f.fns:
        # run() and the helpers of its module it reaches (the dispatch may live in an extracted helper)
        ev_b = set()
        for p_ in sorted(ctx.cg().reachable([cr])):
            if p_ == cr or p_.startswith("fastpasta::controller::"):
                ev_b |= ext_tests(p_) or set()
    rep.check(bool(ev_a) and ev_a == ev_b, "R16.3", "R16.3|extension_tests_agree",
              "validate_args and Controller::run test the statistics-file extension the same way: %s" % sorted(ev_a or []), va,
              "validate_args tests the extension with %s but Controller::run dispatches on %s: a file accepted by validation can hit the controller's panic branch after the input was processed" % (
                  sorted(ev_a or []), sorted(ev_b or [])))

    # ---------- R16.4 display options only display
    disp = {
        "mute_errors": {CTRL + "process_stats", CTRL + "run", "fastpasta::analyze::validators::link_validator::LinkValidator::<T, C>::report_rdh_error",
                        "fastpasta::analyze::validators::its::cdp_running::readout_frame::ItsReadoutFrameValidator::<C>::process_frame",
                        "fastpasta::analyze::validators::its::alpide::validate_lane_bcs"},
        "error_code_filter": {CTRL + "process_stats"},
        "max_tolerate_errors": {CTRL + "new", CTRL + "process_stats"},
    }
    for opt, allowed in disp.items():
        callers = set()
        for path, bb, t, cal, c in cg.call_sites(lambda c, opt=opt: c.endswith("UtilOpt::" + opt) or c.endswith("UtilOpt>::" + opt), within=reach):
            if "as fastpasta::config::util::UtilOpt>" in path:
                continue  # forwarding impls
            callers.add(path)
        # a private helper extracted from an allowed reader (same module, called from nowhere else) reads it on the reader's behalf
        def _covered(q, depth=0):
            if q in allowed:
                return True
            if depth > 3:
                return False
            cs_ = {path for path, bb, t, cal, c in cg.call_sites(lambda c, q=q: c == q, within=reach)}
            mod_ = lambda x: x.replace("<", "").split("::")[:-1][:4]
            return bool(cs_) and all(mod_(x)[:3] == mod_(q)[:3] and _covered(x, depth + 1) for x in cs_)
        all_readers = set(callers)
        callers = {q for q in callers if q in allowed or not _covered(q)}
        rep.check(callers <= allowed and callers, "R16.4", "R16.4|readers|%s" % opt, "%s() is read only by %s" % (opt, sorted(x.split("::")[-1] for x in callers)), "config",
                  "%s() is now also read in %s — a display option must not influence what is detected or counted" % (opt, sorted(callers - allowed)))
        # in functions that read the option and emit an Error, the emission is reached on both outcomes
        for p in sorted(all_readers):
            b = cg.body(p)
            errs = [i for i, j, s in b.stmts() if s["k"] == "assign" and s["rv"]["k"] == "agg" and (s["rv"].get("adt") or "").endswith("stats::StatType") and s["rv"].get("vname") == "Error"]
            if not errs:
                continue
            for bb, t, cal, c in b.calls():
                if cal and (cal.endswith("UtilOpt::" + opt) or cal.endswith("UtilOpt>::" + opt)):
                    nxt = t.get("t")
                    sw = _next_switch(b, nxt)
                    if sw is None:
                        continue
                    both = all(b.all_paths_pass(s_, errs) for s_ in b.succ[sw])
                    rep.check(both, "R16.4", "R16.4|emission_independent|%s|%s" % (opt, p.split("::")[-1]),
                              "in %s the error is sent whatever %s() returns (the option only changes the message context)" % (p.split("::")[-1], opt), p,
                              "in %s the StatType::Error is only sent on one outcome of %s(): the option changes the error count" % (p.split("::")[-1], opt))
    # without a code filter nothing is filtered: every recorded message is displayed (up to the cap) whether or not it
    # carries an [Exx] code — what is shown must agree with what is counted
    ep = next((q for q in sorted(f.fns) if q.endswith("err_printer::ErrPrinter::<'a>::print") or q.endswith("err_printer::ErrPrinter::print")), None)
    if ep is None:
        ep = next((q for q in sorted(f.fns) if "err_printer::ErrPrinter" in q and q.endswith("::print")), None)
    if ep:
        from ..thir import Agg as _Agg2
        selfp = _Agg2("ErrPrinter", "ErrPrinter", {"error_code_filter": _Agg2("core::option::Option", "None", {}), "max_errors": Sym("CAP")})
        ev.watch = lambda c: c.endswith("::filter_error_msgs") or c.endswith("::match_error_code") or c.endswith("::minify_filter") or c.endswith("Iterator::filter") \
            or c.endswith(("Iterator::take", "Iterator>::take", "Iterator::for_each", "Iterator>::for_each"))
        try:
            recs_ = [o for o in ev.collect_ifs(ep, [selfp, Sym("MSGS"), Sym("CODES")]) if "call" in o and not o.get("closure") and not any(g in ("false", "not true") for g in o["guard"])]
            names_ = [o["call"].split("::")[-1] for o in recs_]
            okp = not any(n_ in ("filter_error_msgs", "match_error_code", "minify_filter", "filter") for n_ in names_) and "for_each" in names_ \
                and any(o["call"].endswith(("Iterator::take", "Iterator>::take")) and o["args"][0] == "sym(MSGS)" for o in recs_)
            det = "calls without a filter: %s" % names_
        except Unsupported as e:
            okp, det = False, "cannot evaluate: %s" % e
        finally:
            ev.watch = None
        rep.check(okp, "R16.4", "R16.4|unfiltered_shows_all", "without -w every recorded message is displayed (first max_errors), none is filtered out", ep,
                  "ErrPrinter::print filters messages although no error-code filter is set (%s): messages without a code are counted but not shown" % det)
    else:
        rep.missing("R16.4", "ErrPrinter::print")
    # the cap: stop flag is stored when err_count == max (documented early stop), only in update()
    upd = CTRL + "update"
    if upd in f.fns:
        b = cg.body(upd)
        st = [(bb, t) for bb, t, cal, c in b.calls() if cal == STORE and "end_processing_flag" in show_origin(b.origin(t["args"][0]))]
        rep.check(len(st) == 2, "R16.4", "R16.4|cap_stop", "update() raises the stop flag at the error cap and on a fatal error (2 stores)", upd, "stop-flag stores: %d" % len(st))
        col = [bb for bb, t, cal, c in b.calls() if cal == SCOL + "collect"]
        rep.check(len(col) >= 4, "R16.4", "R16.4|all_collected", "every received statistic is forwarded to the collector", upd)

    # ---------- R16.5 error accounting
    for fn_, vec in (("add_err", "reported_errors"), ("add_custom_check_error", "custom_checks_stats_errors")):
        p = ES + fn_
        if p not in f.fns:
            rep.missing("R16.5", p)
            continue
        b = cg.body(p)
        inc = [(i, s) for i, j, s in b.stmts() if s["k"] == "assign" and any(isinstance(e, list) and e[0] == "f" and e[2] == "total_errors" for e in s["lhs"].get("p", []))]
        pushes = [bb for bb, t, cal, c in b.calls() if cal and cal.endswith("Vec::<T, A>::push") and vec in show_origin(b.origin(t["args"][0]))]
        rep.check(len(inc) == 1 and len(pushes) == 1 and b.all_paths_pass(0, pushes), "R16.5", "R16.5|%s" % fn_, "%s: one increment of total_errors and one push to %s" % (fn_, vec), p)
    writers = set()
    for path, fn in f.fns.items():
        if not fn.get("mir") or fn.get("derived") or path not in reach:
            continue
        for bbk in fn["mir"]["blocks"]:
            for s in bbk["s"]:
                if s["k"] == "assign" and "*" in s["lhs"].get("p", []) and any(isinstance(e, list) and e[0] == "f" and e[2] == "total_errors" for e in s["lhs"].get("p", [])):
                    writers.add(path)
    rep.check(writers == {ES + "add_err", ES + "add_custom_check_error"}, "R16.5", "R16.5|total_errors_writers", "total_errors is written only by add_err / add_custom_check_error", ES,
              "writers of total_errors: %s" % sorted(writers))


def _can_reach(b, target):
    seen, st = set(), [target]
    while st:
        x = st.pop()
        if x in seen:
            continue
        seen.add(x)
        st.extend(b.pred[x])
    return seen


def _next_switch(b, blk, depth=0):
    while blk is not None and depth < 6:
        t = b.blocks[blk]["t"]
        if t["k"] == "switch":
            return blk
        ss = b.succ[blk]
        if len(ss) != 1:
            return None
        blk = ss[0]
        depth += 1
    return None
