"""C14 — statistics equal ground truth computed from the input (structural part).

Decided: every statistic is counted at the right site exactly once and routed
unchanged to the accumulator and report row that bears its name.
R14.1 scanner: each RDH read from the input is counted once before it is
      returned or skipped (both scanner loops); the filtered counter is bumped
      exactly for RDHs that match the filter and are returned; the payload size
      of the returned RDH is added once; counters flush on overflow without
      loss (no equality guard on a counter that grows by more than one) and on
      drop; links/FEE IDs are reported once each; first-RDH statistics are sent
      at position 0.
R14.2 routing: the reader→collector forwarder, StatsCollector::collect and
      Controller::update map every variant to the same-named variant /
      accumulator with its payload unchanged; each accumulator updates the
      field it is named after.
R14.3 per analysed packet: HBF = stop_bit == 1, one TriggerType per packet,
      layer/stave from the FEE ID; the 20 trigger-bit counters use the
      documented bit each; one HBFsSeen per batch.
R14.4 error accounting: total_errors grows exactly with a stored message; the
      error-code extraction pattern.
R14.5 set-valued statistics are duplicate-free (contains guard).
R14.6 report rows take their value from the accessor the label names.
Not decided: the totals on actual inputs (arithmetic over run-time streams)."""
import re

from ..thir import Evaluator, Bits, Sym, Agg, Cond, Obj, ckey, vkey, Unsupported, TB
from ..mir import show_origin, callee_of, Body, inline_fn, path_count_range, op_place
from ..emit import first_literal, macro_source

EXPLANATION = __doc__

SC = "<alice_protocol_reader::input_scanner::InputScanner<R> as alice_protocol_reader::scan_cdp::ScanCDP>::"
IS = "alice_protocol_reader::input_scanner::InputScanner::<R>::"
ST = "alice_protocol_reader::stats::Stats::"
IST = "alice_protocol_reader::stats::InputStatType"
STT = "fastpasta::stats::StatType"
RS = "fastpasta::stats::stats_collector::rdh_stats::RdhStats::"
ES = "fastpasta::stats::stats_collector::error_stats::ErrorStats::"
COLL = "fastpasta::stats::stats_collector::StatsCollector::"
WS = "alice_protocol_reader/src/input_scanner.rs"
WST = "alice_protocol_reader/src/stats.rs"


def _watch(ev, pred):
    ev.watch = pred


def _recs(ev, path, args, follow=None):
    """records of one function; calls to local helper functions selected by `follow` are expanded in place
    (the rules speak about events, not about how the code is split into functions)"""
    return ev.collect_ifs(path, args, follow=follow)


_WRAP = re.compile(r"^sym\(call:(?:<alloc::vec::Vec<T, A> as core::ops::deref::Deref>::deref|core::slice::<impl \[T\]>::iter|<&'a alloc::vec::Vec<T, A> as core::iter::traits::collect::IntoIterator>::into_iter)\((.*)\)\)$")


def _unwrap_list(k):
    while True:
        m = _WRAP.match(k)
        if not m:
            return k
        k = m.group(1)


def membership_hooks(ev, present, seen):
    """call hooks that decide a membership test (`list.contains(&x)` or `list.iter().any(|e| *e == x)`) as `present`
    and note (list, element) in `seen`; a test of another shape is left undecided"""
    def contains(n, a):
        seen.append((_unwrap_list(vkey(a[0])), vkey(a[1])))
        return Cond("true" if present else "false")

    def any_(n, a):
        if len(a) == 2 and isinstance(a[1], tuple) and a[1] and a[1][0] == "closure":
            try:
                c = ckey(ev.as_cond(ev.call_closure(a[1], [Sym("ELEM")], 1)))
            except Unsupported:
                return None
            m = re.fullmatch(r"symc\(sym\(Eq\(sym\(ELEM\),(.*)\)\)\)", c) or re.fullmatch(r"symc\(sym\(Eq\((.*),sym\(ELEM\)\)\)\)", c) \
                or re.fullmatch(r"Eq\(sym\(ELEM\),(.*)\)", c) or re.fullmatch(r"Eq\((.*),sym\(ELEM\)\)", c)
            if m:
                seen.append((_unwrap_list(vkey(a[0])), m.group(1)))
                return Cond("true" if present else "false")
        return None
    return [(lambda fn_, r_: (r_ or fn_).endswith("::contains"), contains), (lambda fn_, r_: (r_ or fn_).endswith("Iterator>::any") or fn_.endswith("Iterator::any"), any_)]


def fieldwise_sum_problems(ev, f, path):
    """(problems, number of fields) of a `sum(self, other)` of a statistics struct: evaluated on two opaque operands A
    and B, every field must end up as A.f + B.f (functional `Self { f: a.f + b.f }` or in-place `a.f += b.f`, operands
    reached by field access or by destructuring) or as the nested struct's own sum(A.f, B.f)"""
    adt_ = f.adts.get(path[:-len("::sum")])
    if not adt_ or adt_["kind"] != "struct":
        return ["%s is not a method of a struct" % path], 0
    fields = [fd["name"] for fd in adt_["variants"][0]["fields"]]
    final = {fl: "sym(A.%s)" % fl for fl in fields}
    bad = []
    ev.call_hooks = [(lambda fn_, r_: (r_ or fn_).endswith("::sum") and (r_ or fn_) != path and (r_ or fn_).startswith("fastpasta::stats::"),
                      lambda n, a: Sym("SUM(%s)" % ",".join(vkey(x) for x in a)))]
    try:
        recs = ev.collect_ifs(path, [Sym("A"), Sym("B")])
        ret = ev.call_fn(path, [Sym("A"), Sym("B")])
    except Unsupported as e:
        return ["cannot evaluate %s: %s" % (path, e)], 0
    finally:
        ev.call_hooks = []
    for o in recs:
        if "assign" not in o:
            continue
        op, lhs, rhs = o["assign"][:3]
        if op == "=" and (lhs == "sym(A)" or (o.get("place") or "") == "self") and "(" in rhs and rhs.endswith(")") and not [g for g in o["guard"] if g not in ("true", "not false")]:
            # `*self = Self { f: .., .. }`: the whole value is replaced by a struct literal
            inner, depth_, start, parts = rhs[rhs.index("(") + 1:-1], 0, 0, []
            for i_, ch in enumerate(inner):
                depth_ += ch == "("
                depth_ -= ch == ")"
                if ch == "," and depth_ == 0:
                    parts.append(inner[start:i_])
                    start = i_ + 1
            parts.append(inner[start:])
            lit = dict(p_.split("=", 1) for p_ in parts if "=" in p_)
            if set(lit) == set(fields):
                final = lit
            continue
        m = re.fullmatch(r"self\.(\w+)", o.get("place") or "") or re.fullmatch(r"sym\(A\.(\w+)\)", lhs)
        if not m or m.group(1) not in final:
            continue
        if [g for g in o["guard"] if g not in ("true", "not false")]:
            bad.append("%s %s %s only under %s" % (lhs, op, rhs, list(o["guard"])))
        elif op == "AddAssign":
            final[m.group(1)] = "sym(Add(%s,%s))" % (final[m.group(1)], rhs)
        elif op == "=":
            final[m.group(1)] = rhs
        else:
            bad.append("%s %s %s" % (lhs, op, rhs))
    if isinstance(ret, Agg) and set(ret.fields) == set(fields):
        final = {fl: vkey(v) for fl, v in ret.fields.items()}
    for fl in fields:
        a_, b_ = "sym(A.%s)" % fl, "sym(B.%s)" % fl
        if final[fl] not in ("sym(Add(%s,%s))" % (a_, b_), "sym(Add(%s,%s))" % (b_, a_), "sym(SUM(%s,%s))" % (a_, b_), "sym(SUM(%s,%s))" % (b_, a_)):
            bad.append("%s becomes %s" % (fl, final[fl][:120]))
    return bad, len(fields)


def run(ctx, rep):
    f = ctx.facts()
    ev = Evaluator(f)
    cg = ctx.cg()
    reach = ctx.reachable()
    r141(ctx, rep, f, ev, cg, reach)
    r142(ctx, rep, f, ev, cg, reach)
    r143(ctx, rep, f, ev, cg, reach)
    r144(ctx, rep, f, ev, cg, reach)
    r146(ctx, rep, f, ev, cg, reach)


def _calls(b, suffix):
    return [(bb, t) for bb, t, cal, c in b.calls() if cal and cal.endswith(suffix)]


def _ok_aggs(b):
    return [i for i, j, s in b.stmts() if s["k"] == "assign" and s["rv"]["k"] == "agg" and s["rv"].get("vname") == "Ok" and (s["rv"].get("adt") or "").endswith("Result")]


# ------------------------------------------------------------------ R14.1
def r141(ctx, rep, f, ev, cg, reach):
    # --- what collect_rdh_seen_stats does
    ev.watch = lambda c: c.startswith(ST) or c.startswith(IS) or c.startswith(SC) or "flume::Sender" in c or c.endswith("::push")
    p = IS + "collect_rdh_seen_stats"
    if p not in f.fns:
        rep.missing("R14.1", p)
        return
    recs = [o for o in _recs(ev, p, [Sym("self"), Sym("rdh")]) if "call" in o]
    some = ("symc(isSome(sym(self.stats)))",)
    got = [(o["call"].split("::")[-1], tuple(o["args"][1:]), tuple(o["guard"])) for o in recs]
    exp = [("rdh_seen", (), some), ("try_add_link", ("sym(rdh.link_id)",), some), ("try_add_fee_id", ("sym(rdh.rdh0.fee_id.0)",), some)]
    rep.check(sorted(got) == sorted(exp), "R14.1", "R14.1|collect|content", "per RDH: rdh_seen(), try_add_link(link_id), try_add_fee_id(fee_id) — once each", WS,
              "collect_rdh_seen_stats performs %s, expected %s" % (got, exp))

    # --- counting on the scanner's paths.  Helper methods of InputScanner are inlined first, so the rules
    #     speak about the primitive events (Stats::* calls, SerdeRdh loads, Ok(..) results, skips) only.
    bodies = {}
    for fn in (SC + "load_rdh_cru", SC + "load_next_rdh_to_filter"):
        if fn not in f.fns:
            rep.missing("R14.1", fn)
            return
        bodies[fn] = Body(inline_fn(f, fn, lambda c: c.startswith(IS)))

    def sites(b, suffix):
        return [bb for bb, t, cal, c in b.calls() if cal and cal.endswith(suffix)]

    def none_edges(b):
        out = []
        for x in b.live_blocks():
            t = b.blocks[x]["t"]
            if t["k"] == "switch" and show_origin(b.origin(t["d"])).endswith(".stats))") and "discr(" in show_origin(b.origin(t["d"])):
                zero = [(x, v[1]) for v in t["vals"] if v[0] == 0]
                out += zero if zero else [(x, t["else"])]
        return out

    def rng(b, start, targets, st, drop):
        return path_count_range(b, start, targets, st, drop)

    summary_payload = None
    for fn, b in bodies.items():
        short = fn.split("::")[-1]
        loads = sites(b, "SerdeRdh::load") + sites(b, "SerdeRdh::load_from_rdh0")
        oks = _ok_aggs(b)
        skips = sites(b, "::load_next_rdh_to_filter") if short == "load_rdh_cru" else [x for x in sites(b, "::seek_relative_offset") if b.on_cycle(x)]
        drop = none_edges(b)
        rep.check(bool(loads) and bool(oks) and bool(skips), "R14.1", "R14.1|anchors|%s" % short, "%s: %d load(s), %d Ok result(s), %d skip site(s)" % (short, len(loads), len(oks), len(skips)), WS,
                  "%s: loads=%s Ok results=%s skips=%s — anchors of the counting rules not found" % (short, loads, oks, skips))
        if not (loads and oks and skips):
            continue
        # seen / link / fee: exactly once between a load and the point where that RDH is returned or skipped
        for prim, arg in (("Stats::rdh_seen", None), ("Stats::try_add_link", "RDH_CRU::link_id(&"), ("Stats::try_add_fee_id", "RDH_CRU::fee_id(&")):
            st = sites(b, prim)
            bad = []
            for L in loads:
                nxt = b.blocks[L]["t"].get("t")
                for T in oks + skips:
                    r = rng(b, nxt, [T], st, drop)
                    if r is not None and r != (1, 1):
                        bad.append("load bb%d → %s bb%d: %s" % (L, "Ok" if T in oks else "skip", T, r))
            argok = True
            if arg:
                for bb, t, cal, c in b.calls():
                    if cal and cal.endswith(prim):
                        so = show_origin(b.origin(t["args"][1]))
                        argok = argok and so.startswith(arg) and ("rdh" in so or "SerdeRdh::load" in so)
            rep.check(not bad and bool(st) and argok, "R14.1", "R14.1|seen|%s|%s" % (short, prim.split("::")[-1]),
                      "%s: %s exactly once for every RDH read, before it is returned or skipped" % (short, prim.split("::")[-1]), WS,
                      "%s: %s is not performed exactly once per RDH read (count range on paths: %s; argument ok: %s)" % (short, prim.split("::")[-1], bad or "no site", argok))
        # filtered: once on the matching side, never on the other sides
        it = [(bb, t) for bb, t, cal, c in b.calls() if cal and cal.endswith("::is_rdh_filter_target")]
        st = sites(b, "Stats::rdh_filtered")
        ok = len(it) == 1
        det = ""
        if ok:
            tt, ft = _switch_targets(b, it[0][1].get("t"))
            ok = tt is not None and ft is not None
            if ok:
                # counted on the paths from the matching edge / the non-matching edge / around the test to the points
                # where the RDH is returned (Ok results) or handed to the skip routine — whether each branch builds
                # its own Ok(..) or all branches join in front of a single one
                sw_blk = [x for x in b.live_blocks() if b.blocks[x]["t"]["k"] == "switch" and {tt, ft} <= set(b.succ[x])]
                test_edges = [(x, y) for x in sw_blk for y in (tt, ft)]
                from_t = b.reachable_from(tt, removed=[ft])
                from_f = b.reachable_from(ft, removed=[tt])
                ok_true = [x for x in oks if x in from_t]
                r_true = [rng(b, tt, [x], st, drop) for x in ok_true]
                r_false = [rng(b, ft, [x], st, drop) for x in (skips if short == "load_rdh_cru" else skips + [x for x in oks if x in from_f and x not in from_t])]
                r_nofilter = [rng(b, 0, [x], st, drop + test_edges) for x in oks] if short == "load_rdh_cru" else []
                ok = bool(ok_true) and all(r == (1, 1) for r in r_true) and all(r in (None, (0, 0)) for r in r_false) and all(r in (None, (0, 0)) for r in r_nofilter)
                det = "matching side %s, other side %s, no filter %s" % (r_true, r_false, r_nofilter)
        rep.check(ok, "R14.1", "R14.1|filtered|%s" % short, "%s: rdh_filtered() exactly once for an RDH that matches the filter and is returned, never otherwise (%s)" % (short, det), WS,
                  "%s: the filtered counter is not bumped exactly for matching-and-returned RDHs (%s)" % (short, det))
        # payload size
        st = sites(b, "Stats::add_payload_size")
        argok = True
        for bb, t, cal, c in b.calls():
            if cal and cal.endswith("Stats::add_payload_size"):
                so = show_origin(b.origin(t["args"][1]))
                argok = argok and so.startswith("RDH_CRU::payload_size(&") and ("rdh" in so or "SerdeRdh::load" in so)
        if short == "load_next_rdh_to_filter":
            rr = [rng(b, b.blocks[L]["t"].get("t"), [x], st, drop) for L in loads for x in oks]
            summary_payload = rr[0] if rr and all(r == rr[0] for r in rr) else "inconsistent %s" % rr
            rep.check(argok and isinstance(summary_payload, tuple) and summary_payload in ((0, 0), (1, 1)), "R14.1", "R14.1|payload|load_next_rdh_to_filter",
                      "load_next_rdh_to_filter adds the payload size of the RDH it returns %s" % ("once" if summary_payload == (1, 1) else "never (left to its caller)"), WS,
                      "load_next_rdh_to_filter adds the payload size %s times on its Ok paths (argument ok: %s)" % (summary_payload, argok))
        bodies[fn] = (b, loads, oks, skips, drop, st, argok)
    b, loads, oks, skips, drop, st, argok = bodies[SC + "load_rdh_cru"]
    # result local and its Err edges (a path that continues from an Ok result cannot take them)
    res_locals = set()
    for i_, j_, s_ in b.stmts():
        if i_ in oks and s_["k"] == "assign" and s_["rv"]["k"] == "agg" and s_["rv"].get("vname") == "Ok":
            res_locals.add(s_["lhs"]["l"])
    for bb, t, cal, c in b.calls():
        if cal and cal.endswith("::load_next_rdh_to_filter"):
            res_locals.add(t["dest"]["l"])
    err_edges = []
    for x in b.live_blocks():
        t = b.blocks[x]["t"]
        if t["k"] == "switch":
            so = show_origin(b.origin(t["d"]))
            names_ = [(b.names.get(l_) or "_%d" % l_) for l_ in res_locals]
            # `match res {Err..}` tests the result itself, `res?` tests Try::branch(res): Break (1) is the error edge
            is_q = any(re.fullmatch(r"discr\(.*Try>::branch\((%s|.*load_next_rdh_to_filter\(.*\))\)\)" % re.escape(nm_), so) for nm_ in names_) or \
                (so.startswith("discr(") and "Try>::branch(" in so and "load_next_rdh_to_filter(" in so)
            if so in ["discr(%s)" % nm_ for nm_ in names_] or is_q:
                err_edges += [(x, v[1]) for v in t["vals"] if v[0] == 1]
                if not any(v[0] == 1 for v in t["vals"]):
                    err_edges.append((x, t["else"]))
    rets = b.return_blocks()
    tot = []
    for A in oks:
        r1 = rng(b, 0, [A], st, drop)
        r2 = rng(b, A, rets, [x for x in st if x != A], drop + err_edges)
        tot.append(("Ok bb%d" % A, r1, r2, None))
    for C in skips:
        r1 = rng(b, 0, [C], st, drop)
        r2 = rng(b, b.blocks[C]["t"].get("t"), rets, st, drop + err_edges)
        tot.append(("load_next bb%d" % C, r1, r2, summary_payload))
    bad = []
    for name, r1, r2, sm in tot:
        if r1 is None or r2 is None or (sm is not None and not isinstance(sm, tuple)):
            bad.append("%s: no path / no summary (%s, %s, %s)" % (name, r1, r2, sm))
            continue
        lo = r1[0] + r2[0] + (sm[0] if sm else 0)
        hi = r1[1] + r2[1] + (sm[1] if sm else 0)
        if (lo, hi) != (1, 1):
            bad.append("%s: payload size added %d..%d times" % (name, lo, hi))
    rep.check(not bad and argok and bool(tot), "R14.1", "R14.1|payload|load_rdh_cru", "the payload size of the returned RDH is added exactly once for every Ok result (%d result sources)" % len(tot), WS,
              "load_rdh_cru: %s (argument is the returned RDH's payload_size: %s)" % (bad, argok))

    # --- the counters themselves
    for m, fld, var in (("rdh_seen", "rdhs_seen", "RDHSeen"), ("rdh_filtered", "rdhs_filtered", "RDHFiltered")):
        # (helpers of the module followed; the test "== MAX" is made on the incremented counter, read back from the
        # field or from the `&mut` reference a helper incremented)
        recs = _recs(ev, ST + m, [Sym("self")], follow=lambda c: c.startswith(ST.rsplit("::", 2)[0] + "::"))
        norm_g = lambda gs: tuple("Eq(sym(self.%s),0xffffffff)" % fld if x == "Eq(sym(mut(sym(self.%s);AddAssign0x1)),0xffffffff)" % fld else x for x in gs)
        asg = [(o["assign"][:3], norm_g(o["guard"])) for o in recs if "assign" in o]
        snd = [(o["args"][1], norm_g(o["guard"])) for o in recs if "call" in o and o["call"].endswith("::send")]
        g = ("Eq(sym(self.%s),0xffffffff)" % fld,)
        ok = asg == [(("AddAssign", "sym(self.%s)" % fld, "0x1"), ()), (("=", "sym(self.%s)" % fld, "0x0"), g)] and snd == [("InputStatType::%s(0=0xffffffff)" % var, g)]
        # the increment made through a `&mut` helper inside the test itself: the tested value is `counter after += 1`
        raw_g = {x for o in recs for x in o.get("guard", ())}
        ok = ok or (asg == [(("=", "sym(self.%s)" % fld, "0x0"), g)] and snd == [("InputStatType::%s(0=0xffffffff)" % var, g)]
                    and raw_g == {"Eq(sym(mut(sym(self.%s);AddAssign0x1)),0xffffffff)" % fld})
        rep.check(ok, "R14.1", "R14.1|counter|%s" % m, "%s: +1; at u32::MAX the full count is sent and the counter restarts (no loss)" % m, WST,
                  "%s: assignments %s sends %s" % (m, asg, snd))
    # growth by more than one must not rely on an equality guard (contradiction pattern; F11)
    for p_ in sorted(q for q in f.fns if q.startswith(ST)):
        recs = _recs(ev, p_, [Sym("self"), Sym("x")], follow=lambda c: c.startswith(ST))
        adds = [o for o in recs if "assign" in o and o["assign"][0] == "AddAssign" and o["assign"][2] not in ("0x1",)]
        eqs = [ckey(o["cond"]) for o in recs if "cond" in o and ckey(o["cond"]).startswith("Eq(") and ckey(o["cond"]).endswith(",0xffffffff)")]
        bad = [o["assign"] for o in adds if any(o["assign"][1] in e for e in eqs)]
        if adds or eqs:
            rep.check(not bad, "R14.1", "R14.1|overflow-guard|Stats::%s" % p_.split("::")[-1], "no counter that grows by more than one is protected only by `== u32::MAX`", WST,
                      "%s adds %s to a u32 counter and flushes only when the sum is exactly u32::MAX: the maximum is stepped over (wrap in release, panic in debug)" % (p_.split("::")[-1], [a[2] for a in bad]))
    # add_payload_size, decided per outcome of the checked sum (the form of the branch — match, if-let, early return — is free)
    seen_args = []

    def _events(path, hooks):
        ev.call_hooks = hooks
        try:
            recs = _recs(ev, path, [Sym("self"), Sym("x")], follow=lambda c: c.startswith(ST))
        except Unsupported:
            return None
        finally:
            ev.call_hooks = []
        out = []
        for o in recs:
            if any(g in ("false", "not true") for g in o.get("guard", ())):
                continue
            g = tuple(x for x in o.get("guard", ()) if x not in ("true", "not false"))
            if "assign" in o:
                out.append(("assign",) + tuple(o["assign"]) + (g,))
            elif "call" in o and not o["call"].startswith(ST):
                out.append(("call", o["call"].split("::")[-1], tuple(o["args"]), g))
        return out
    want = {"sum": [("assign", "=", "sym(self.payload_size_seen)", "sym(SUM)", ())],
            "overflow": [("call", "send", ("sym(self.reporter)", "InputStatType::PayloadSize(0=sym(self.payload_size_seen))"), ()),
                         ("assign", "=", "sym(self.payload_size_seen)", "sym(cast(sym(x) as u32))", ())]}
    got = {}
    for case, res in (("sum", Agg("core::option::Option", "Some", {"0": Sym("SUM")})), ("overflow", Agg("core::option::Option", "None", {}))):
        def hk(n, a, res=res):
            seen_args.append(tuple(vkey(x) for x in a))
            return res
        got[case] = _events(ST + "add_payload_size", [(lambda fn_, r_: (r_ or fn_).endswith("::checked_add"), hk)])
    ok = got == want and set(seen_args) == {("sym(self.payload_size_seen)", "sym(cast(sym(x) as u32))")}
    rep.check(ok, "R14.1", "R14.1|counter|add_payload_size", "add_payload_size: checked sum of the counter and the size; on overflow the accumulated size is sent and the counter restarts with the new size (no loss)", WST,
              "add_payload_size: checked_add%s; events per outcome %s, expected %s" % (sorted(set(seen_args)), got, want))
    recs = _recs(ev, ST + "flush_stats", [Sym("self")], follow=lambda c: c.startswith(ST))
    snd = sorted(o["args"][1] for o in recs if "call" in o and o["call"].endswith("::send") and not o["guard"])
    if not snd:
        # `for stat in [A, B, C] { send(stat) }`: one send inside a loop over an array literal — the elements are what is sent
        loop_snd = [o["args"][1] for o in recs if "call" in o and o["call"].endswith("::send") and "('array'," in o["args"][1] and "Iterator>::next(" in o["args"][1]]
        if len(loop_snd) == 1:
            snd = sorted(re.findall(r"InputStatType::\w+\(0=sym\(self\.\w+\)\)", loop_snd[0]))
    exp = sorted(["InputStatType::RDHSeen(0=sym(self.rdhs_seen))", "InputStatType::RDHFiltered(0=sym(self.rdhs_filtered))", "InputStatType::PayloadSize(0=sym(self.payload_size_seen))"])
    rep.check(snd == exp, "R14.1", "R14.1|flush|content", "flush_stats sends the three counters under their own variant", WST, "flush_stats sends %s" % snd)
    # try_add_*: decided per outcome of the membership test (guard form is free: if !contains {..} or early return)
    for m, fld, var in (("try_add_link", "unique_links_observed", "LinksObserved"), ("try_add_fee_id", "unique_feeids_observed", "FeeId")):
        cargs = []
        got = {}
        for case in (True, False):
            got[case] = _events(ST + m, membership_hooks(ev, case, cargs))
        want = {True: [], False: sorted([("call", "push", ("sym(self.%s)" % fld, "sym(x)"), ()), ("call", "send", ("sym(self.reporter)", "InputStatType::%s(0=sym(x))" % var), ())])}
        ok = got[True] == [] and got[False] is not None and sorted(got[False]) == want[False] and set(cargs) == {("sym(self.%s)" % fld, "sym(x)")}
        rep.check(ok, "R14.1", "R14.1|unique|%s" % m, "%s: reported and remembered once per distinct value" % m, WST, "%s: membership test %s; events when present %s, when absent %s" % (m, sorted(set(cargs)), got[True], got[False]))
    # drop flushes
    dp = "<alice_protocol_reader::input_scanner::InputScanner<R> as core::ops::drop::Drop>::drop"
    recs = _recs(ev, dp, [Sym("self")]) if dp in f.fns else []
    fl = [o for o in recs if "call" in o and o["call"].endswith("::flush_stats")]
    rep.check(len(fl) == 1 and tuple(fl[0]["guard"]) == ("symc(isSome(sym(call:core::option::Option::<T>::take(sym(self.stats)))))",), "R14.1", "R14.1|flush|on-drop",
              "the scanner flushes its counters when dropped", WS)
    # first-RDH statistics
    recs = _recs(ev, SC + "load_rdh_cru", [Sym("self")])
    ini = [o for o in recs if "call" in o and o["call"].endswith("::initial_collect_stats")]
    rep.check(len(ini) == 1 and tuple(ini[0]["guard"]) == ("Eq(sym(self.tracker.memory_address_bytes),0x0)",), "R14.1", "R14.1|initial|guard",
              "run trigger type / data format / system id are taken from the RDH at position 0", WS, "initial_collect_stats guards: %s" % [o["guard"] for o in ini])
    # evaluated on the wire image of the RDH: data format is byte 24 (R[199:192]) and system id byte 5 (R[47:40]),
    # however the accessors mask, shift or truncate
    RCRU = "alice_protocol_reader::rdh::rdh_cru::RdhCru"
    recs = [o for o in _recs(ev, IS + "initial_collect_stats", [Sym("self"), Obj("R", 0, RCRU)]) if "call" in o]
    got = sorted((o["call"].split("::")[-1], o["args"][1]) for o in recs)
    exp = sorted([("report_run_trigger_type", vkey(Obj("R", 0, RCRU))), ("report", "InputStatType::DataFormat(0={b0..7=R[199:192]})"),
                  ("report", "InputStatType::SystemId(0={b0..7=R[47:40]})")])
    rep.check(got == exp, "R14.1", "R14.1|initial|content", "first RDH → RunTriggerType, DataFormat(data_format()), SystemId(rdh0.system_id)", WS, "initial_collect_stats: %s" % got)
    recs = [o for o in _recs(ev, IS + "report_run_trigger_type", [Sym("self"), Sym("rdh")]) if "call" in o and o["call"].endswith("::report")]
    rep.check(len(recs) == 1 and recs[0]["args"][1] == "InputStatType::RunTriggerType(0=sym(rdh.rdh2.trigger_type))", "R14.1", "R14.1|initial|run-trigger", "RunTriggerType carries the RDH's trigger_type", WS,
              "report_run_trigger_type sends %s" % [o["args"][1] for o in recs])
    ev.watch = None


def _rv_local(b, rv):
    if rv["k"] == "use":
        op = rv["op"]
        pl = op.get("mv") or op.get("cp")
        if pl is not None:
            return b.names.get(pl["l"]) or "_%d" % pl["l"]
    return rv["k"]


def _switch_targets(b, blk):
    """(true-target, false-target) of the switchInt that tests the bool result arriving in block `blk`"""
    if blk is None:
        return None, None
    seen = set()
    x = blk
    while x is not None and x not in seen:
        seen.add(x)
        t = b.blocks[x]["t"]
        if t["k"] == "switch":
            vals = t["vals"]
            if len(vals) == 1 and vals[0][0] == 0:
                o = b.origin(t["d"])
                if isinstance(o, tuple) and o and o[0] == "un" and o[1] == "Not":
                    return vals[0][1], t["else"]      # the test is on the negated result
                return t["else"], vals[0][1]
            return None, None
        if t["k"] == "goto":
            x = t["t"]
            continue
        return None, None
    return None, None


def _none_side(b, call_bb):
    """blocks that bypass `call_bb` because the optional statistics tracker is absent (the None side of the enclosing if-let)"""
    doms = [x for x in b.live_blocks() if b.blocks[x]["t"]["k"] == "switch" and b.dominates(x, call_bb) and x != call_bb]
    if not doms:
        return []
    near = max(doms, key=lambda x: len([y for y in doms if b.dominates(y, x)]))
    return [s_ for s_ in b.succ[near] if not b.dominates(s_, call_bb)]


# ------------------------------------------------------------------ R14.2
def r142(ctx, rep, f, ev, cg, reach):
    W = "fastpasta/src/lib.rs"
    ev.watch = lambda c: "flume::Sender" in c or c.startswith("fastpasta::stats::stats_collector::")
    ivars = [v["name"] for v in f.adts[IST]["variants"]] if IST in f.adts else []
    svars = [v["name"] for v in f.adts[STT]["variants"]] if STT in f.adts else []
    rep.floor("R14.2-input-variants", len(ivars), 10, "InputStatType variants")
    rep.floor("R14.2-stat-variants", len(svars), 15, "StatType variants")
    fw = "fastpasta::forward_input_stats_to_stats_collector"
    # the forwarder is evaluated once per InputStatType variant: `recv()` is made to yield Ok(V(P)) and the value(s)
    # sent on are read off — independent of whether each arm sends or one send follows the match
    for v in ivars:
        sent = []
        if fw in f.fns:
            ev.call_hooks = [(lambda fn, res: fn.endswith("Receiver::<T>::recv"),
                              lambda n, a, v=v: Agg("core::result::Result", "Ok", {"0": Agg(IST, v, {"0": Sym("P")})})),
                             # `for msg in rx.iter()` / `rx.into_iter()`: the iterator's next() is recv().ok()
                             (lambda fn, res: "flume::" in (res or "") and (res or "").endswith("Iterator>::next"),
                              lambda n, a, v=v: Agg("core::option::Option", "Some", {"0": Agg(IST, v, {"0": Sym("P")})})),
                             # the description of a trigger type is the view library's table (decided by R14.2|run-trigger-string)
                             (lambda fn, res: (res or fn).endswith("::trigger_type_string_from_int"), lambda n, a: Sym("TRIGGER_STRING(%s)" % vkey(a[0])))]
            try:
                recs = _recs(ev, fw, [Sym("rx"), Sym("tx")], follow=lambda c: c.startswith("fastpasta::") and c.count("::") == 1)
            except Unsupported as e:
                recs = []
            finally:
                ev.call_hooks = []
            sent = [(o["args"][1], tuple(g for g in o["guard"] if g != "true")) for o in recs if "call" in o and o["call"].endswith("::send") and "false" not in o["guard"]]
        vals = sorted(x[0] for x in sent)
        if v == "SystemId":
            ok = len(sent) == 2 and any(x[0].startswith("StatType::SystemId(0=") and "sym(P)" in x[0] and any("isOk(" in g for g in x[1]) for x in sent) \
                and any(x[0].startswith("StatType::Fatal(") and any("isErr(" in g for g in x[1]) for x in sent)
            # the conversion is the documented table lookup of the raw id
            ok = ok and all("from_system_id" in g or "isOk(" in g or "isErr(" in g for x in sent for g in x[1])
            if not ok and len(sent) == 1 and not sent[0][1]:
                # one send of a value selected by the same lookup: match from_system_id(P) { Ok(id) => SystemId(id), Err(_) => Fatal(..) }
                val = sent[0][0]
                ok = val.startswith("('match',('match',sym(P),") and "StatType::SystemId" in val.replace("fastpasta::stats::", "") and "StatType::Fatal" in val.replace("fastpasta::stats::", "") \
                    and val.count("StatType::") - val.count("StatType::SystemId") - val.count("StatType::Fatal") == 0
        elif v == "RunTriggerType":
            # (raw value, its description from the trigger-type table), whatever string type conversions are applied
            import re as _re
            ok = len(sent) == 1 and not sent[0][1] and _re.fullmatch(r"StatType::RunTriggerType\(0=\(sym\(P\),(sym\(call:[^()]*\()*sym\(TRIGGER_STRING\(sym\(P\)\)\)\)*\)\)", sent[0][0]) is not None
        else:
            ok = sent == [("StatType::%s(0=sym(P))" % v, ())]
        rep.check(ok, "R14.2", "R14.2|forward|%s" % v, "InputStatType::%s is forwarded as StatType::%s with its payload" % (v, v), W,
                  "InputStatType::%s(P) is forwarded as %s" % (v, [(x[0][:120], [g[:60] for g in x[1]]) for x in sent]))
    # the description attached to the run trigger type is the documented priority cascade SOC > SOT > HB > PhT > other
    from .c19 import _cascade
    ttp = "fastpasta::analyze::view::lib::trigger_type_string_from_int"
    if ttp in f.fns:
        ev.call_hooks = []
        try:
            k = vkey(ev.call_fn(ttp, [Bits.inp("T", 0, 32)]))
        except Unsupported as e:
            k = "unevaluable %s" % e
        got = _cascade(k)
        rep.check(got == [("any(T[9])", "SOC"), ("any(T[7])", "SOT"), ("any(T[1])", "HB"), ("any(T[4])", "PhT"), (None, "Other")], "R14.2", "R14.2|run-trigger-string",
                  "run trigger description: SOC (bit 9) > SOT (bit 7) > HB (bit 1) > PhT (bit 4) > Other", ttp, "trigger_type_string_from_int evaluates to %s" % (got if got is not None else k[:300]))
    else:
        rep.missing("R14.2", ttp)
    # StatsCollector::collect
    table = {"RDHSeen": "add_rdhs_seen", "HBFsSeen": "add_hbfs_seen", "PayloadSize": "add_payload_size", "LinksObserved": "record_link", "RdhVersion": "record_rdh_version",
             "FeeId": "record_fee_observed", "RunTriggerType": "record_run_trigger_type", "TriggerType": "record_trigger_type", "SystemId": "record_system_id",
             "DataFormat": "record_data_format", "LayerStaveSeen": "record_layer_stave_seen", "RDHFiltered": "add_rdhs_filtered", "AlpideStats": "sum", "Error": "add_err", "Fatal": "add_fatal_err"}
    gone = sorted(set(table) - set(svars))
    rep.check(not gone, "R14.2", "R14.2|collect|variants", "every reviewed StatType variant still exists", "fastpasta/src/stats.rs",
              "StatType variants %s of the reviewed accumulator table no longer exist" % gone)
    recs = [o for o in _recs(ev, COLL + "collect", [Sym("self"), Sym("stat")]) if "call" in o]
    for v in sorted(set(svars) - set(table)):
        # a variant added after the table was reviewed: it must still be routed to exactly one accumulator with its payload
        mine = [o for o in recs if any(("is%s(sym(stat))" % v) in g for g in o["guard"])]
        ok = len(mine) == 1 and any("payload(sym(stat),%s" % v in a for a in mine[0]["args"][1:])
        rep.check(ok, "R14.2", "R14.2|collect|%s" % v, "new variant StatType::%s → %s(payload)" % (v, mine[0]["call"].split("::")[-1] if mine else "?"), "fastpasta/src/stats/stats_collector.rs",
                  "StatType::%s (not in the reviewed table) is accumulated by %s" % (v, [(o["call"].split("::")[-1], o["args"][1:]) for o in mine]))
        rep.note("StatType::%s is not in the reviewed accumulator table: only its routing (one accumulator, payload unchanged) is decided" % v)
    for v, acc in sorted(table.items()):
        if v not in svars:
            continue
        mine = [o for o in recs if any(("is%s(sym(stat))" % v) in g for g in o["guard"])]
        ok = len(mine) == 1 and mine[0]["call"].split("::")[-1] == acc
        if ok:
            a = mine[0]["args"][1]
            if v == "LayerStaveSeen":
                ok = a == "(sym(payload(sym(stat),LayerStaveSeen.layer)),sym(payload(sym(stat),LayerStaveSeen.stave)))"
            elif v == "RunTriggerType":
                # the (number, name) pair rebuilt from its two components, or handed over whole
                ok = a in ("(sym(field(sym(payload(sym(stat),RunTriggerType)),0)),sym(field(sym(payload(sym(stat),RunTriggerType)),1)))", "sym(payload(sym(stat),RunTriggerType))")
            elif v == "PayloadSize":
                ok = a == "sym(cast(sym(payload(sym(stat),PayloadSize)) as u64))"
            else:
                ok = a == "sym(payload(sym(stat),%s))" % v
        rep.check(ok, "R14.2", "R14.2|collect|%s" % v, "StatType::%s → %s(payload)" % (v, acc), "fastpasta/src/stats/stats_collector.rs",
                  "StatType::%s is accumulated by %s" % (v, [(o["call"].split("::")[-1], o["args"][1:]) for o in mine]))
    # accumulators update the field they are named after
    ev.watch = lambda c: c.endswith("::push") or c.startswith("fastpasta::stats::stats_collector::")
    acc = {
        RS + "add_rdhs_seen": ("assign", ("AddAssign", "sym(self.rdhs_seen)", "sym(cast(sym(x) as u64))")),
        RS + "add_rdhs_filtered": ("assign", ("AddAssign", "sym(self.rdhs_filtered)", "sym(cast(sym(x) as u64))")),
        RS + "add_hbfs_seen": ("assign", ("AddAssign", "sym(self.hbfs_seen)", "sym(x)")),
        RS + "add_payload_size": ("assign", ("AddAssign", "sym(self.payload_size)", "sym(x)")),
        RS + "record_link": ("call", ("push", ["sym(self.links)", "sym(x)"])),
        RS + "record_trigger_type": ("call", ("collect_stats", ["sym(self.trigger_stats)", "sym(x)"])),
        RS + "record_layer_stave_seen": ("call", ("record_layer_stave_seen", ["sym(self.its_stats)", "sym(x)"])),
        RS + "record_rdh_version": ("assign", ("=", "sym(self.rdh_version)", "Option::Some(0=sym(x))")),
        RS + "record_data_format": ("assign", ("=", "sym(self.data_format)", "Option::Some(0=sym(x))")),
        RS + "record_system_id": ("assign", ("=", "sym(self.system_id)", "Option::Some(0=sym(x))")),
        RS + "record_run_trigger_type": ("assign", ("=", "sym(self.run_trigger_type)", "Option::Some(0=sym(x))")),
        ES + "add_fatal_err": ("assign", ("=", "sym(self.fatal_error)", "Option::Some(0=sym(x))")),
    }
    for p_, (kind, exp) in sorted(acc.items()):
        if p_ not in f.fns:
            rep.missing("R14.2", p_)
            continue
        recs = _recs(ev, p_, [Sym("self"), Sym("x")])
        if kind == "assign":
            got = [o["assign"] for o in recs if "assign" in o]
            ok = got == [exp]
        else:
            got = [(o["call"].split("::")[-1], o["args"]) for o in recs if "call" in o]
            ok = got == [exp]
        rep.check(ok, "R14.2", "R14.2|accumulator|%s" % p_.split("::")[-1], "%s updates %s" % (p_.split("::")[-1], exp[1] if kind == "assign" else exp[1][0]), p_,
                  "%s performs %s, expected %s" % (p_.split("::")[-1], got, exp))
    # field-wise sums add same-named fields (AlpideStats, ReadoutFlags and any later `sum`)
    nsum = 0
    for p_ in sorted(q for q in f.fns if q.startswith("fastpasta::stats::") and q.endswith("::sum") and f.fns[q].get("thir") and f.fns[q]["mir"]["argc"] == 2):
        bad, nf = fieldwise_sum_problems(ev, f, p_)
        nsum += 1
        rep.check(not bad and nf > 0, "R14.2", "R14.2|sum|%s" % p_.split("::")[-2], "%s::sum adds same-named fields of both operands (%d fields)" % (p_.split("::")[-2], nf), p_,
                  "%s::sum mixes fields: %s" % (p_.split("::")[-2], bad or "no field-wise sum recognised"))
    rep.floor("R14.2-sums", nsum, 2, "field-wise sum functions of the statistics structs")
    # Controller::update hands every variant to collect
    # decided per message variant and per state "a fatal error was already recorded": update() is evaluated with the
    # message being that variant (symbolic payload) and any_fatal_err() replaced by the state — every message is handed
    # to collect() unchanged exactly once, except Error/Fatal after a fatal error, which are dropped
    up = "fastpasta::controller::Controller::<C>::update"
    svar_fields = {v_["name"]: [fd["name"] for fd in v_["fields"]] for v_ in f.adts[STT]["variants"]} if STT in f.adts else {}

    def _payload(vname, fname):
        # a tuple-typed payload is a tuple of symbols (it may be taken apart and put together again on the way)
        for v_ in f.adts[STT]["variants"]:
            if v_["name"] == vname:
                for fd in v_["fields"]:
                    if fd["name"] == fname and fd["ty"].get("tuple"):
                        inner = fd["ty"]["s"].strip()[1:-1]
                        depth_, n_ = 0, 1
                        for ch in inner:
                            depth_ += ch in "(<["
                            depth_ -= ch in ")>]"
                            n_ += (ch == "," and depth_ == 0)
                        return tuple(Sym("P_%s_%d" % (fname, i_)) for i_ in range(n_))
        return Sym("P_%s" % fname)
    for v in svars:
        ok = up in f.fns
        seen = {}
        for fatal_seen in (False, True):
            stat = Agg(STT, v, {fn_: _payload(v, fn_) for fn_ in svar_fields.get(v, [])})
            ev.call_hooks = [(lambda fn, res: (res or fn).endswith("::any_fatal_err"), lambda n, a, fatal_seen=fatal_seen: Cond("true" if fatal_seen else "false"))]
            ev.watch = lambda c: c == COLL + "collect"
            try:
                recs_ = [o for o in _recs(ev, up, [Sym("self"), stat]) if "call" in o and not any(g in ("false", "not true") for g in o["guard"])] if ok else []
            except Unsupported as e:
                recs_ = []
                ok = False
            finally:
                ev.call_hooks = []
            live = [o for o in recs_ if all(g in ("true", "not false") for g in o["guard"])]
            undecided = [o for o in recs_ if o not in live]
            seen[fatal_seen] = ([o["args"][1] for o in live], len(undecided))
        exp_arg = vkey(Agg(STT, v, {fn_: _payload(v, fn_) for fn_ in svar_fields.get(v, [])}))
        want_after_fatal = [] if v in ("Error", "Fatal") else [exp_arg]
        ok = ok and seen[False] == ([exp_arg], 0) and seen[True] == (want_after_fatal, 0)
        mine, early = seen.get(False, ([], 0))[0], seen.get(True, ([], 0))[0]
        rep.check(ok, "R14.2", "R14.2|update|%s" % v, "Controller::update collects StatType::%s%s" % (v, " unless a fatal error was already recorded" if v in ("Error", "Fatal") else ""), "fastpasta/src/controller.rs",
                  "Controller::update: StatType::%s is collected as %s normally and as %s after a fatal error (expected %s / %s)" % (
                      v, [x[:80] for x in mine], [x[:80] for x in early], [exp_arg[:80]], [x[:80] for x in want_after_fatal]))
    ev.watch = None


# ------------------------------------------------------------------ R14.3
def r143(ctx, rep, f, ev, cg, reach):
    W = "fastpasta/src/analyze/lib.rs"
    O = ctx.oracle("trigger_bits.json")
    ts = "fastpasta::stats::stats_collector::trigger_stats::TriggerStats::collect_stats"
    if ts in f.fns:
        recs = [o for o in _recs(ev, ts, [Sym("self"), Bits.inp("T", 0, 32)]) if "assign" in o]
        got = {}
        bad = []
        for o in recs:
            op, lhs, rhs = o["assign"]
            m = re.fullmatch(r"sym\(self\.(\w+)\)", lhs)
            m2 = re.fullmatch(r"\{b0=T\[(\d+)\]\}", rhs)   # the value (0 or 1) of one bit of the trigger field
            if op == "AddAssign" and m and m2 and not o["guard"]:
                got.setdefault(m.group(1), []).append(int(m2.group(1)))
            else:
                bad.append(o["assign"])
        exp = {k: [v] for k, v in O["bits"].items()}
        rep.check(got == exp and not bad, "R14.3", "R14.3|trigger-bits", "each of the %d trigger counters adds its own documented bit" % len(exp), "fastpasta/src/stats/stats_collector/trigger_stats.rs",
                  "trigger counters: %s ; other statements: %s" % ({k: (got.get(k), exp.get(k)) for k in set(got) | set(exp) if got.get(k) != exp.get(k)}, bad))
        fields = [fd["name"] for fd in f.adts["fastpasta::stats::stats_collector::trigger_stats::TriggerStats"]["variants"][0]["fields"]]
        rep.check(sorted(fields) == sorted(exp), "R14.3", "R14.3|trigger-fields", "every TriggerStats field is a documented trigger bit", "fastpasta/src/stats/stats_collector/trigger_stats.rs",
                  "TriggerStats fields %s vs documented %s" % (sorted(fields), sorted(exp)))
    else:
        rep.missing("R14.3", ts)
    clo = "fastpasta::analyze::lib::spawn_analysis::{closure#0}"
    if clo not in f.fns:
        rep.missing("R14.3", clo)
        return
    # the per-RDH step of the analysis thread, decided for one RDH (RDHV) per value of its stop bit (0, 1, 2) with the
    # slice iterator yielding that RDH: the HBF counter grows by one exactly for stop_bit == 1, one TriggerType (or one
    # local collect_stats) and one collect_system_specific_stats per RDH whatever the stop bit, one HBFsSeen per batch
    inc_val = {"0x1": 1, "0x0": 0, "sym(boolcast(true))": 1, "sym(boolcast(false))": 0}
    per = {}
    cs_ = []
    for sb in (0, 1, 2):
        ev.call_hooks = [(lambda fn_, r_: (r_ or fn_).endswith("slice::iter::Iter<'a, T> as core::iter::traits::iterator::Iterator>::next"),
                          lambda n, a: Agg("core::option::Option", "Some", {"0": Sym("RDHV")})),
                         (lambda fn_, r_: fn_.endswith("::stop_bit"), lambda n, a, sb=sb: Bits.const(sb, 8)),
                         (lambda fn_, r_: fn_.endswith("::trigger_type"), lambda n, a: Sym("TT_OF:" + vkey(a[0])))]
        ev.watch = lambda c: "flume::Sender" in c or c.endswith("collect_system_specific_stats") or c.endswith("TriggerStats::collect_stats")
        try:
            recs = [o for o in _recs(ev, clo, [Sym("env")], follow=lambda c: c.startswith("fastpasta::analyze::lib::") and "{closure" not in c)
                    if not any(g in ("false", "not true") for g in o.get("guard", ()))]
        except Unsupported as e:
            rep.bad("R14.3", "R14.3|hbf|increment", "the analysis loop cannot be evaluated: %s" % e, W)
            ev.call_hooks, ev.watch = [], None
            return
        finally:
            ev.call_hooks = []
            ev.watch = None
        und = lambda o: tuple(g for g in o["guard"] if g not in ("true", "not false"))
        incs = [o for o in recs if "assign" in o and o["assign"][0] == "AddAssign"]
        sends = [o for o in recs if "call" in o and o["call"].endswith("::send")]
        per[sb] = dict(
            inc=sum(inc_val.get(o["assign"][2], 99) for o in incs), inc_g=[und(o) for o in incs], inc_raw=[len(o["guard"]) for o in incs],
            tt=[(o["args"][1], und(o)) for o in sends if o["args"][1].startswith("StatType::TriggerType(")],
            cst=[(o["args"][1], und(o)) for o in recs if "call" in o and o["call"].endswith("TriggerStats::collect_stats")],
            css=[(o["args"][0], und(o)) for o in recs if "call" in o and o["call"].endswith("collect_system_specific_stats")],
            hs=[(o["args"][1], und(o), len(o["guard"])) for o in sends if o["args"][1].startswith("StatType::HBFsSeen(")],
            tsend=[(o["args"][1], und(o), len(o["guard"])) for o in sends if "TriggerStats" in o["args"][1].split("(")[0]])
        if sb == 1:
            cs_ = per[sb]["cst"]
    ok = all(per[sb]["inc"] == (1 if sb == 1 else 0) for sb in per) and all(len(set(per[sb]["inc_g"])) <= 1 for sb in per)
    rep.check(ok, "R14.3", "R14.3|hbf|increment", "per analysed RDH: hbfs_seen += (stop_bit == 1)", W, "HBF increment per stop bit value: %s" % {sb: per[sb]["inc"] for sb in per})
    loop_g = per[1]["inc_g"][0] if per[1]["inc_g"] else None
    if any(per[sb]["tt"] for sb in per):
        ok = all(per[sb]["tt"] == [("StatType::TriggerType(0=sym(TT_OF:sym(RDHV)))", loop_g)] and not per[sb]["cst"] for sb in per)
        how = "one TriggerType(rdh.trigger_type()) message per analysed RDH"
    else:
        # counted locally per batch: collect_stats(rdh.trigger_type()) for every RDH, the local counters sent once per batch
        ok = all(len(per[sb]["cst"]) == 1 and per[sb]["cst"][0][1] == loop_g and "TT_OF:sym(RDHV)" in per[sb]["cst"][0][0] for sb in per) \
            and all(len(per[sb]["tsend"]) == 1 and per[sb]["inc_raw"] and per[sb]["tsend"][0][2] < min(per[sb]["inc_raw"] or [0]) for sb in (1,))
        how = "trigger bits of every analysed RDH counted into a batch-local TriggerStats that is sent once per batch"
    rep.check(ok, "R14.3", "R14.3|trigger|per-rdh", how, W, "trigger type of each analysed RDH is not counted exactly once: per stop bit value, TriggerType sends %s, collect_stats calls %s" % (
        {sb: [(x[0][-60:], len(x[1])) for x in per[sb]["tt"]] for sb in per}, {sb: [(x[0][-60:], len(x[1])) for x in per[sb]["cst"]] for sb in per}))
    # one send per batch (outside the per-RDH loop) of a counter that starts at 0 in this batch
    hs = per[1]["hs"]
    ok = len(hs) == 1 and per[1]["inc_raw"] and hs[0][2] < min(per[1]["inc_raw"]) and all(len(per[sb]["hs"]) == 1 for sb in per) \
        and any(x in hs[0][0] for x in ("phi(0x0|", "mut(0x0;", "Add(0x0,"))
    rep.check(ok, "R14.3", "R14.3|hbf|per-batch", "one HBFsSeen(count of this batch) per received batch", W, "HBFsSeen sends: %s" % [(x[0][:80], x[2]) for x in hs])
    ok = all(per[sb]["css"] == [("sym(RDHV)", loop_g)] for sb in per)
    rep.check(ok, "R14.3", "R14.3|system-specific|per-rdh", "system specific statistics are collected for every analysed RDH", W,
              "collect_system_specific_stats calls per stop bit value: %s" % {sb: per[sb]["css"] for sb in per})
    # the loop runs over all RDHs of the batch
    b = Body(inline_fn(f, clo, lambda c: c.startswith("fastpasta::analyze::lib::") and "{closure" not in c))
    if cs_:
        # a batch-local accumulator must be created afresh for every batch: its initialisation lies inside the receive loop
        fresh, why = [], []
        for bb, t, cal, c in b.calls():
            if cal and cal.endswith("TriggerStats::collect_stats"):
                o = b.origin(t["args"][0])
                while isinstance(o, tuple) and o and o[0] in ("ref", "proj"):
                    o = o[1]
                ok_ = isinstance(o, tuple) and o and o[0] == "call" and isinstance(o[3], int) and b.on_cycle(o[3]) and any(x in (o[1] or "") for x in ("::default", "::new"))
                fresh.append(ok_)
                why.append(show_origin(o)[:80])
        rep.check(bool(fresh) and all(fresh), "R14.3", "R14.3|trigger|fresh-per-batch", "the batch-local TriggerStats is created inside the receive loop (one fresh accumulator per batch)", W,
                  "the TriggerStats that is sent once per batch is not initialised inside the receive loop (%s): every batch re-sends the counts of all earlier batches" % why)
    src = [show_origin(b.origin(t["args"][0])) for bb, t, cal, c in b.calls() if cal and cal.endswith("::into_iter")]
    chain = [cal.split("::")[-1] for bb, t, cal, c in b.calls() if cal and ("iter::" in cal or "slice::" in cal) and "Iterator>::next" not in cal]
    rep.check(any("rdh_slice" in s for s in src) and not any(x in chain for x in ("skip", "take", "step_by", "filter", "rev")), "R14.3", "R14.3|all-rdhs",
              "the statistics loop visits every RDH of the batch (rdh_slice().iter())", W, "loop source %s adaptors %s" % (src, chain))
    ev.watch = lambda c: "flume::Sender" in c
    # evaluated on the wire image of the RDH: fee_id is bytes 2..3, so layer = R[30:28] and stave = R[21:16] however the masks and shifts are written
    recs = [o for o in _recs(ev, "fastpasta::stats::collect_its_stats", [Obj("R", 0, "alice_protocol_reader::rdh::rdh_cru::RdhCru"), Sym("ch")], follow=lambda c: c.startswith("fastpasta::")) if "call" in o]
    exp = "StatType::LayerStaveSeen(layer={b0..2=R[30:28]},stave={b0..5=R[21:16]})"
    rep.check(len(recs) == 1 and recs[0]["args"][1] == exp and not recs[0]["guard"], "R14.3", "R14.3|layer-stave", "LayerStaveSeen{layer = fee_id[14:12], stave = fee_id[5:0]} per RDH", "fastpasta/src/stats.rs",
              "collect_its_stats sends %s" % [o["args"][1] for o in recs])
    ev.watch = None
    # system specific stats: ITS → collect_its_stats
    css = "fastpasta::stats::collect_system_specific_stats"
    tb = ev.tb(css)
    if tb is not None:
        arms = {}
        for x, n in tb.walk():
            if n["k"] == "Match":
                for a in n["arms"]:
                    arm = tb.arms[a]
                    p = arm["pat"]
                    while p["k"] == "Deref":
                        p = p["sub"]
                    if p["k"] == "Variant" and (p.get("adt") or "").endswith("SystemId"):
                        arms[p["vname"]] = [(c.get("fn") or "").split("::")[-1] for _, c in tb.calls(arm["body"]) if (c.get("fn") or "").startswith("fastpasta::stats::")]
        rep.check(arms.get("ITS") == ["collect_its_stats"], "R14.3", "R14.3|system-specific|its", "ITS data → collect_its_stats", "fastpasta/src/stats.rs", "system arms: %s" % arms)


# ------------------------------------------------------------------ R14.4 / R14.5
def r144(ctx, rep, f, ev, cg, reach):
    W = "fastpasta/src/stats/stats_collector/error_stats.rs"
    ev.watch = lambda c: c.endswith("::push")
    for m, lst in (("add_err", "reported_errors"), ("add_custom_check_error", "custom_checks_stats_errors")):
        recs = _recs(ev, ES + m, [Sym("self"), Sym("x")])
        asg = [o["assign"] for o in recs if "assign" in o]
        psh = [o["args"] for o in recs if "call" in o]
        ok = asg == [("AddAssign", "sym(self.total_errors)", "0x1")] and psh == [["sym(self.%s)" % lst, "sym(x)"]]
        rep.check(ok, "R14.4", "R14.4|%s" % m, "%s: total_errors += 1 together with storing the message in %s" % (m, lst), W, "%s: %s %s" % (m, asg, psh))
    # writers of total_errors
    wr = set()
    for p in sorted(reach):
        fn = f.fns.get(p)
        if not fn or not fn.get("thir") or fn.get("derived"):
            continue
        tb = ev.tb(p)
        if tb is None:
            continue
        for x, n in tb.walk():
            if n["k"] in ("Assign", "AssignOp"):
                ln = tb.e(n["l"])[1]
                if ln["k"] == "Field" and ln.get("name") == "total_errors":
                    wr.add(p)
    rep.check(wr == {ES + "add_err", ES + "add_custom_check_error"}, "R14.4", "R14.4|total-writers", "total_errors is written only where a message is stored", W, "writers: %s" % sorted(wr))
    try:
        v = vkey(ev.call_fn(ES + "err_count", [Sym("es")]))
    except Unsupported as e:
        v = "unevaluable %s" % e
    rep.check(v == "sym(es.total_errors)", "R14.4", "R14.4|err_count", "err_count() returns total_errors", W, "err_count returns %s" % v)
    # code extraction pattern
    ex = "fastpasta::stats::stats_collector::error_stats::extract_unique_error_codes"
    lits = []
    for p_ in [ex] + sorted(q for q in f.fns if q.startswith(ex + "::{closure#")):
        tb = ev.tb(p_)
        if tb is not None:
            lits += [n["str"] for _, n in tb.walk() if n["k"] == "Lit" and "str" in n]
    rep.check(r"\[E(?P<err_code>[0-9]{2,4})\]" in lits and "err_code" in lits, "R14.4", "R14.4|code-pattern", r"distinct codes are the captures of \[E([0-9]{2,4})\]", W, "literals: %s" % lits)
    tb = ev.tb(ex)
    if tb is not None:
        ev.watch = lambda c: c.endswith("::push")
        # the function itself (loop form, local helpers followed) and its closures (for_each form): every push of a
        # code is guarded by `!list.contains(code)`, and there is at least one
        bodies = [ex] + sorted(q for q in f.fns if q.startswith(ex + "::{closure#"))
        guarded = unguarded = 0
        for c in bodies:
            tbc = ev.tb(c)
            if tbc is None:
                continue
            try:
                recs_ = ev.collect_ifs(c, [Sym("a%d" % i) for i in range(len(tbc.params))], follow=lambda q: q.startswith("fastpasta::stats::stats_collector::error_stats::") and "{closure" not in q)
            except Unsupported:
                unguarded += 1
                continue
            for o in recs_:
                if "call" in o and not o.get("closure"):
                    if o["guard"] and any("contains" in g and ("Not(" in g or g.startswith("not ")) for g in o["guard"]):
                        guarded += 1
                    else:
                        unguarded += 1
        rep.check(guarded >= 1 and unguarded == 0, "R14.5", "R14.5|codes|unique", "a code is added only if not already present", W, "guarded pushes: %d, unguarded: %d" % (guarded, unguarded))
    # set-valued statistics
    ev.watch = lambda c: c.endswith("::push")
    # decided per outcome of the membership test (contains / iter().any(== x); if-not or early-return form)
    for p_, fld in ((RS + "record_fee_observed", "fee_id"), ("fastpasta::stats::stats_collector::its_stats::ItsStats::record_layer_stave_seen", "layer_staves_seen")):
        seen_, got = [], {}
        for present in (True, False):
            ev.call_hooks = membership_hooks(ev, present, seen_)
            try:
                recs = _recs(ev, p_, [Sym("self"), Sym("x")], follow=lambda c: c.rsplit("::", 1)[0] == p_.rsplit("::", 1)[0])
                got[present] = [(o["call"].split("::")[-1], o["args"], [g for g in o["guard"] if g not in ("true", "not false")]) for o in recs
                                if "call" in o and not any(g in ("false", "not true") for g in o["guard"])]
            except Unsupported:
                got[present] = None
            finally:
                ev.call_hooks = []
        ok = got[True] == [] and got[False] == [("push", ["sym(self.%s)" % fld, "sym(x)"], [])] and set(seen_) == {("sym(self.%s)" % fld, "sym(x)")}
        rep.check(ok, "R14.5", "R14.5|unique|%s" % fld, "%s holds each value once" % fld, p_, "%s: membership test %s; pushes when present %s, when absent %s" % (p_.split("::")[-1], sorted(set(seen_)), got[True], got[False]))
    ev.watch = None
    # process_unique_error_codes covers both message lists
    pu = ES + "process_unique_error_codes"
    if pu in f.fns:
        b = cg.body(pu)
        srcs = sorted(show_origin(b.origin(t["args"][0])) for bb, t, cal, c in b.calls() if cal and cal.endswith("extract_unique_error_codes"))
        rep.check(len(srcs) == 2 and any("reported_errors" in s for s in srcs) and any("custom_checks_stats_errors" in s for s in srcs), "R14.4", "R14.4|codes|both-lists",
                  "distinct codes are extracted from reported and custom-check messages", W, "sources: %s" % srcs)


# ------------------------------------------------------------------ R14.6
def r146(ctx, rep, f, ev, cg, reach):
    W = "fastpasta/src/stats/stats_report.rs"
    M = "fastpasta::stats::stats_report::"
    rows = {}

    def accessors(tb, i, env_lets):
        out = []
        for x, n in tb.walk(i):
            if n["k"] == "Call":
                fn = n.get("res") or n.get("fn") or ""
                if fn.startswith("fastpasta::stats::stats_collector::") or fn.startswith("fastpasta::stats::stats_report::"):
                    out.append(fn.split("::")[-1])
            if n["k"] == "Var" and n.get("id") in env_lets:
                out += env_lets[n["id"]]
        return out

    for p in sorted(q for q in f.fns if q.startswith(M) and f.fns[q].get("thir") and "::tests::" not in q):
        tb = ev.tb(p)
        if tb is None:
            continue
        # let-bound values (e.g. chip_trailer_seen_str)
        lets = {}
        for st in tb.stmts:
            if st["k"] == "let" and st.get("init") is not None and st["pat"]["k"] == "Bind":
                lets[st["pat"]["id"]] = accessors(tb, st["init"], lets)
            if st["k"] == "let" and st.get("init") is not None and st["pat"]["k"] in ("Leaf", "Tuple"):
                acc = accessors(tb, st["init"], lets)
                for s in st["pat"].get("subs", []):
                    if s["p"]["k"] == "Bind":
                        lets[s["p"]["id"]] = acc
        for x, n in tb.walk():
            label = None
            val = None
            if n["k"] == "Call" and (n.get("fn") or "").endswith(("StatSummary::new", "Report::add_detected_attribute")):
                args = n["args"][-3:] if (n.get("fn") or "").endswith("StatSummary::new") else n["args"][-2:]
                label = [m["str"] for _, m in tb.walk(args[0]) if m["k"] == "Lit" and "str" in m]
                val = accessors(tb, args[1], lets)
            elif n["k"] == "Adt" and (n.get("adt") or "").endswith("StatSummary"):
                fd = {x_["f"]: x_["e"] for x_ in n["fields"]}
                if "statistic" in fd:
                    label = [m["str"] for _, m in tb.walk(fd["statistic"]) if m["k"] == "Lit" and "str" in m]
                    val = accessors(tb, fd["value"], lets)
            if label:
                rows.setdefault(label[0], []).append(sorted(set(a for a in val if a not in ("rdh_stats", "readout_flags", "stats_report"))))
    exp = {
        "Total Errors": [["err_count"], ["err_count"]],
        "Run Trigger Type": [["run_trigger_type"]],
        "Total RDHs": [["rdhs_seen"]],
        "Links observed": [["format_links_observed", "links_as_slice"]],
        "FEE IDs seen": [["fee_ids_as_slice", "format_fee_ids"]],
        "Total HBFs": [["hbfs_seen"]],
        "RDHs": [["rdhs_filtered"]],
        "HBFs": [["hbfs_seen"]],
        "Chip Trailers seen": [["chip_trailers_seen"]],
        "Busy Violations": [sorted(["busy_violations", "chip_trailers_seen"])],
        "Data Overrun": [sorted(["data_overrun", "chip_trailers_seen"])],
        "Transmission in Fatal": [sorted(["transmission_in_fatal", "chip_trailers_seen"])],
        "Flushed Incomplete": [sorted(["flushed_incomplete", "chip_trailers_seen"])],
        "Strobe Extended": [sorted(["strobe_extended", "chip_trailers_seen"])],
        "Busy Transitions": [sorted(["busy_transitions", "chip_trailers_seen"])],
        "RDH Version": [["rdh_version"]],
        "Data Format": [["data_format"]],
        "System ID": [["system_id"]],
    }
    # a row is identified by its label; a label that was reworded is not a wrong statistic — it is noted, and the
    # floor below keeps the rule from passing vacuously
    rep.floor("R14.6-rows", sum(len(v) for v in rows.values()), 18, "labelled report rows found in stats_report.rs")
    for label, want in sorted(exp.items()):
        got = rows.get(label)
        if got is None:
            rep.note("report row \"%s\" not found (label reworded or row removed): its value source is not decided" % label)
            continue
        rep.check(got == want, "R14.6", "R14.6|row|%s" % label, "row \"%s\" shows %s" % (label, want[0]), W,
                  "report row \"%s\" takes its value from %s, expected %s" % (label, got, want))
    # data size rows
    for fn, a1, a2 in ((M + "make_report", "rdhs_seen", "payload_size"), (M + "add_filtered_stats", "rdhs_filtered", "payload_size")):
        tb = ev.tb(fn)
        got = []
        if tb is not None:
            for x, n in tb.calls():
                if (n.get("fn") or "").endswith("summerize_data_size"):
                    got.append([[x_ for x_ in [(c.get("fn") or "").split("::")[-1] for _, c in tb.calls(a)] if x_ != "rdh_stats"][:1] for a in n["args"]])
        rep.check(got == [[[a1], [a2]]], "R14.6", "R14.6|data-size|%s" % fn.split("::")[-1], "data size row from (%s, %s)" % (a1, a2), W, "summerize_data_size arguments: %s" % got)
    sd = M + "summerize_data_size"
    if sd in f.fns:
        try:
            out = ev.collect_ifs(sd, [Sym("N"), Sym("P")])
        except Unsupported:
            out = []
        tb = ev.tb(sd)
        lits = [n.get("int") for _, n in tb.walk() if n["k"] == "Lit" and "int" in n]
        rep.check(64 in lits, "R14.6", "R14.6|data-size|rdh-bytes", "RDH bytes = count × 64", W, "integer literals in summerize_data_size: %s" % lits)
