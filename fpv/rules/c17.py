"""C17 — early stop is orderly (structural necessary conditions).

Decided: ownership and ordering facts without which a stop deadlocks or panics —
no owned channel endpoint may be live at a JoinHandle::join (field-sensitive
maybe-initialised dataflow on MIR after drop elaboration, R17.1); every loop
around a blocking recv/send has an exit edge controlled by that call's Err and
the reader loop also by the stop flag (R17.2); every spawned thread is joined
on the normal paths of its owner (R17.3); no panicking write to stdout / the
writer sink (R17.4); the writer stops only between batches and writes whole
header+payload pairs (R17.5, shares C08 R8.3).
Not decided: bounded time, liveness under all schedules."""
import re

from ..mir import callee_of, origin_calls, show_origin, maybe_init, split_tuple_type, op_place
from ..facts import where
from ..callgraph import spawn_sites

EXPLANATION = __doc__
ENDPOINT = re.compile(r"(crossbeam_channel::channel::|flume::)(Sender|Receiver)<")
REF_ENDPOINT = re.compile(r"&(?:'\w+ )?(?:mut )?(?:crossbeam_channel::channel::|flume::)(?:Sender|Receiver)<")
JOIN = "std::thread::join_handle::JoinHandle::<T>::join"
BW = "<fastpasta::write::writer::BufferedWriter<T> as fastpasta::write::writer::Writer<T>>::"


def writer_trigger(cg, path, reach, depth=0):
    """"drop" / "push" when `path` is the BufferedWriter's Drop impl / one of its push methods or a helper of the writer
    module called only from those (transitively); None otherwise"""
    flat = path.replace("<", "")
    if not flat.startswith("fastpasta::write::writer::"):
        return None
    if path.endswith("core::ops::drop::Drop>::drop"):
        return "drop"
    if path.startswith(BW + "push_"):
        return "push"
    if depth > 3:
        return None
    callers = {p for p, bb, t, cal, c in cg.call_sites(lambda c_: c_ == path, within=reach)}
    kinds = {writer_trigger(cg, p, reach, depth + 1) for p in callers}
    return kinds.pop() if len(kinds) == 1 and None not in kinds else None


def owned_endpoint(ty):
    s = REF_ENDPOINT.sub("REF<", ty)
    # Option<&Receiver<..>> etc. are references too (handled by the substitution above)
    return bool(ENDPOINT.search(s))


def sccs(body):
    """Tarjan SCCs over live blocks → block -> scc id; only non-trivial cycles matter"""
    idx = {}
    low = {}
    st = []
    on = set()
    comp = {}
    counter = [0]
    cid = [0]
    import sys
    sys.setrecursionlimit(10000)

    def sc(v):
        idx[v] = low[v] = counter[0]
        counter[0] += 1
        st.append(v)
        on.add(v)
        for w in body.succ[v]:
            if w not in idx:
                sc(w)
                low[v] = min(low[v], low[w])
            elif w in on:
                low[v] = min(low[v], idx[w])
        if low[v] == idx[v]:
            while True:
                w = st.pop()
                on.discard(w)
                comp[w] = cid[0]
                if w == v:
                    break
            cid[0] += 1
    for v in sorted(body.live_blocks()):
        if v not in idx:
            sc(v)
    return comp


def live_endpoints(b, f, state, exclude=()):
    """owned channel endpoints that may be initialised in `state` (maybe-init facts), tuple/struct fields tracked by index"""
    live = []
    for l, moved in state.items():
        if l in exclude:
            continue
        ty = b.local_ty(l)["s"]
        if not owned_endpoint(ty):
            continue
        comps = split_tuple_type(ty)
        if comps:
            for k, ct in enumerate(comps):
                if owned_endpoint(ct) and k not in moved:
                    live.append("%s.%d: %s" % (b.names.get(l, "_%d" % l), k, ct[:60]))
        else:
            # struct/enum/plain endpoint: live unless moved entirely (partial moves of struct fields tracked by index)
            a = f.adts.get(b.local_ty(l).get("adt") or "")
            if a and a["kind"] == "struct" and not ty.startswith(("flume::", "crossbeam_channel::")):
                flds = a["variants"][0]["fields"]
                lf = [fd["name"] for i, fd in enumerate(flds) if owned_endpoint(fd["ty"]["s"]) and i not in moved]
                if lf:
                    live.append("%s{%s}: %s" % (b.names.get(l, "_%d" % l), ",".join(lf), ty[:60]))
            else:
                live.append("%s: %s" % (b.names.get(l, "_%d" % l), ty[:70]))
    return live


def recv_loop_fns(ctx):
    """functions that block in a loop around a channel recv until the channel disconnects (the R17.2 instances of kind recv)"""
    f, cg, out = ctx.facts(), ctx.cg(), set()
    for path in ctx.reachable():
        fn = f.fns.get(path)
        if not fn or not fn.get("mir") or fn.get("derived"):
            continue
        b = cg.body(path)
        for bb, t, cal, c in b.calls():
            if cal and (cal in ("crossbeam_channel::channel::Receiver::<T>::recv", "flume::Receiver::<T>::recv") or
                        (cal.endswith("Iterator>::next") and ("<flume::" in cal or "<crossbeam_channel::" in cal))) and b.on_cycle(bb):
                out.add(path)
    return out


def join_sites(b):
    """(block, terminator-like dict whose args[0] is the joined handle) for every join in a body: direct calls of
    JoinHandle::join, and `handle_option.map(JoinHandle::join)`-style calls that hand the method over as a value"""
    out = []
    for bb, t, cal, c in b.calls():
        if cal == JOIN:
            out.append((bb, t))
        elif cal and t.get("args") and any(isinstance(a, dict) and (a.get("c") or {}).get("res") == JOIN or (a.get("c") or {}).get("fn") == JOIN for a in t["args"][1:]):
            out.append((bb, dict(t, args=[t["args"][0]])))
    return out


def run(ctx, rep):
    run_termination_rules(ctx, rep)
    signal_handler_rules(ctx, rep)
    run_output_rules(ctx, rep)


def run_termination_rules(ctx, rep):
    """R17.1–R17.3: no channel endpoint alive at a join, blocking loops can end, every thread is joined
    (shared with C04: a violation is a hang)"""
    f = ctx.facts()
    cg = ctx.cg()
    reach = ctx.reachable()

    # ---------------- R17.1 drop before join
    n_join = 0
    all_joins = []
    for path in sorted(reach):
        fn_ = f.fns.get(path)
        if fn_ and fn_.get("mir"):
            all_joins.extend((path, bb, t) for bb, t in join_sites(cg.body(path)))
    for path, bb, t in all_joins:
        n_join += 1
        b = cg.body(path)
        IN, at_call = maybe_init(b)
        state = at_call(bb)
        short = path.split("::")[-1] if "{closure" not in path else "::".join(path.split("::")[-2:])
        live = live_endpoints(b, f, state)
        handle = show_origin(b.origin(t["args"][0]))[:60]
        key = "R17.1|%s|%d" % (short, len([1 for x in rep.instances if x["key"].startswith("R17.1|%s|" % short)]))
        rep.check(not live, "R17.1", key, "no owned channel endpoint is live when %s joins %s" % (short, handle), "%s (%s)" % (path, where(t["sp"])),
                  "owned channel endpoint(s) %s may still be alive when %s blocks in JoinHandle::join (%s): the joined thread (or its peers) can wait forever on that channel" % (
                      live, short, where(t["sp"])))
    rep.floor("R17.1", n_join, 5, "JoinHandle::join call sites")
    # a thread owner that waits in a recv-loop helper (drained until the producer thread ends) is blocked exactly like at a
    # join: an owned endpoint of another channel alive there keeps that channel connected for the whole wait
    blocking = recv_loop_fns(ctx)
    n_block = 0
    for path in sorted({p for p, _, _ in all_joins}):
        b = cg.body(path)
        at_call = None
        for bb, t, cal, c in b.calls():
            if cal not in blocking or cal == path:
                continue
            if at_call is None:
                _, at_call = maybe_init(b)
            moved_here = {a["mv"]["l"] for a in t.get("args", []) if isinstance(a, dict) and "mv" in a}
            live = live_endpoints(b, f, at_call(bb), exclude=moved_here)
            short = path.split("::")[-1] if "{closure" not in path else "::".join(path.split("::")[-2:])
            n_block += 1
            rep.check(not live, "R17.1", "R17.1|%s|waits_in|%s" % (short, cal.split("::")[-1]),
                      "no owned channel endpoint is live while %s waits in the recv loop of %s" % (short, cal.split("::")[-1]), "%s (%s)" % (path, where(t["sp"])),
                      "owned channel endpoint(s) %s may still be alive while %s is blocked in %s (a loop that only ends when its channel disconnects, %s): "
                      "a thread blocked on that other channel can never be released, and the wait never ends" % (live, short, cal.split("::")[-1], where(t["sp"])))
    rep.floor("R17.1-wait", n_block, 1, "thread owners that wait in a recv-loop helper")
    # dispatcher: process_channels.clear() dominates the joins
    dj = "fastpasta::analyze::validators::validator_dispatcher::ValidatorDispatcher::<T, C>::join"
    if dj in f.fns:
        b = cg.body(dj)
        clr = [bb for bb, t, cal, c in b.calls() if cal and cal.endswith("::clear") and "process_channels" in show_origin(b.origin(t["args"][0]))]
        drains = [bb for bb, t, cal, c in b.calls() if cal and (cal.endswith("::drain") or cal.endswith("::for_each")) ]
        rep.check(len(clr) == 1 and drains and all(b.dominates(clr[0], d) for d in drains), "R17.1", "R17.1|dispatcher|clear_before_join",
                  "the validators' input channels are dropped (process_channels.clear()) before their threads are joined", dj,
                  "process_channels.clear() does not dominate the joins: validators would wait on recv() forever")
    else:
        rep.missing("R17.1", dj)

    # ---------------- R17.2 loops can end
    n_loops = 0
    for path in sorted(reach):
        fn = f.fns[path]
        if not fn.get("mir") or fn.get("derived"):
            continue
        b = cg.body(path)
        comp = None
        for bb, t, cal, c in b.calls():
            if not cal:
                continue
            # (a channel iterator's next() is recv().ok(): `for msg in rx.iter()` blocks like recv and ends on disconnect)
            is_recv = cal in ("crossbeam_channel::channel::Receiver::<T>::recv", "flume::Receiver::<T>::recv") or \
                (cal.endswith("Iterator>::next") and ("<flume::" in cal or "<crossbeam_channel::" in cal))
            is_send = cal == "crossbeam_channel::channel::Sender::<T>::send"
            if not (is_recv or is_send) or not b.on_cycle(bb):
                continue
            if comp is None:
                comp = sccs(b)
            my = comp.get(bb)
            members = {x for x, cc in comp.items() if cc == my}
            # switches inside the loop whose discriminant derives from this call and that have an edge leaving the loop
            exits = False
            for x in members:
                tt = b.blocks[x]["t"]
                if tt["k"] != "switch":
                    continue
                o = b.origin(tt["d"])
                if any(cc[3] == bb for cc in origin_calls(o)):
                    if any(s not in members for s in b.succ[x]):
                        exits = True
            short = path.split("::")[-1] if "{closure" not in path else "::".join(path.split("::")[-2:])
            n_loops += 1
            rep.check(exits, "R17.2", "R17.2|%s|%s" % (short, "recv" if is_recv else "send"),
                      "loop around %s leaves on the call's Err (disconnect)" % cal.split("::")[-1], path,
                      "the loop around the blocking %s in %s has no exit edge controlled by the call's result: a disconnected channel cannot end the thread" % (cal.split("::")[-1], short))
    rep.floor("R17.2", n_loops, 6, "blocking recv/send calls inside loops")
    # reader loop checks the stop flag
    rd = "alice_protocol_reader::spawn_reader::{closure#0}"
    for p, need in ((rd, True), ("fastpasta::analyze::lib::spawn_analysis::{closure#0}", True), ("fastpasta::write::lib::spawn_writer::{closure#0}", True)):
        if p not in f.fns:
            rep.missing("R17.2", p)
            continue
        b = cg.body(p)
        comp = sccs(b)
        ok = False
        for bb, t, cal, c in b.calls():
            if cal == "core::sync::atomic::Atomic::<bool>::load" and b.on_cycle(bb):
                members = {x for x, cc in comp.items() if cc == comp.get(bb)}
                for x in members:
                    tt = b.blocks[x]["t"]
                    if tt["k"] == "switch" and any(cc[3] == bb for cc in origin_calls(b.origin(tt["d"]))) and any(s not in members for s in b.succ[x]):
                        ok = True
        rep.check(ok, "R17.2", "R17.2|stop_flag|%s" % p.split("::")[-2], "the %s loop leaves when the stop flag is set" % p.split("::")[-2], p,
                  "the loop in %s no longer tests the stop flag: SIGINT / error cap / fatal error cannot stop it" % p.split("::")[-2])

    # ---------------- R17.3 everything is joined
    sp = spawn_sites(cg)
    rep.floor("R17.3", len([s for s in sp if s[0] in reach]), 5, "thread spawn sites")
    pr = "fastpasta::process"
    if pr in f.fns:
        b = cg.body(pr)
        joins = join_sites(b)
        okb = [i for i, j, s in b.stmts() if s["k"] == "assign" and s["rv"]["k"] == "agg" and s["rv"].get("vname") == "Ok" and s["lhs"]["l"] == 0]
        srcs = {}
        for bb, t in joins:
            sc = {cal.rsplit("::", 1)[-1] for cal in b.source_calls(t["args"][0])}
            # analysis/writer handles are created from the reader's receiver, so their provenance also mentions spawn_reader
            for name in ("spawn_analysis", "spawn_writer", "spawn_reader"):
                if name in sc:
                    srcs[name] = bb
                    break
        rep.check(set(srcs) == {"spawn_reader", "spawn_analysis", "spawn_writer"}, "R17.3", "R17.3|process|three_joins",
                  "process() joins the reader, analysis and writer handles", pr, "joined handles: %s" % sorted(srcs))
        if "spawn_reader" in srcs and okb:
            rep.check(b.all_paths_pass(0, [srcs["spawn_reader"]], to=okb), "R17.3", "R17.3|process|reader_joined_all_paths",
                      "every path to Ok(()) joins the reader thread", pr, "a path to Ok(()) skips reader_handle.join()")
        for name in ("spawn_analysis", "spawn_writer"):
            if name in srcs and okb:
                # Ok is reachable without the join only through the None edge of the handle option
                jb = srcs[name]
                reach_wo = b.reachable_from(0, removed=[jb])
                guard_ok = False
                tj = b.blocks[jb]["t"]
                if (tj.get("k") == "call" or "args" in tj) and callee_of(tj)[0] in ("core::option::Option::<T>::map", "core::option::Option::<T>::and_then") and okb and b.all_paths_pass(0, [jb], to=okb):
                    # `handle_option.map(JoinHandle::join)` on every path: joined exactly when the handle exists
                    guard_ok = True
                for x in b.live_blocks():
                    tt = b.blocks[x]["t"]
                    if tt["k"] == "switch" and jb in b.reachable_from(x) and x != jb:
                        o = b.origin(tt["d"])
                        if o[0] == "disc":
                            tys = b.local_ty(o[1][1])["s"] if o[1][0] == "local" else ""
                            if "Option<std::thread::join_handle::JoinHandle" in tys.replace("core::option::", "") or "JoinHandle" in tys:
                                guard_ok = True
                rep.check(guard_ok, "R17.3", "R17.3|process|%s_joined_if_some" % name, "the %s handle is joined whenever it exists" % name, pr,
                          "join of the %s handle is not guarded by the handle's own Option" % name)
    else:
        rep.missing("R17.3", pr)
    ir = "fastpasta::init::run"
    if ir in f.fns:
        b = cg.body(ir)
        joins = [bb for bb, t in join_sites(b)]
        exits = [bb for bb, t, cal, c in b.calls() if cal == "fastpasta::util::lib::exit"]
        ic = [bb for bb, t, cal, c in b.calls() if cal == "fastpasta::controller::init_controller"]
        rep.check(len(joins) == 1 and exits and ic and all(b.dominates(joins[0], e) for e in exits) and b.all_paths_pass(ic[0], joins), "R17.3", "R17.3|run|controller_joined",
                  "after the controller is started every path joins it before the exit status is computed", ir,
                  "controller.join() is not on every path from init_controller to exit()")
    else:
        rep.missing("R17.3", ir)
    an = "fastpasta::analyze::lib::spawn_analysis::{closure#0}"
    if an in f.fns:
        b = cg.body(an)
        dj_calls = [bb for bb, t, cal, c in b.calls() if cal == dj]
        rep.check(len(dj_calls) == 1 and b.all_paths_pass(0, dj_calls), "R17.3", "R17.3|analysis|dispatcher_joined",
                  "the analysis thread joins all validator threads on every path", an, "validator_dispatcher.join() is skipped on some path")
    if dj in f.fns:
        clo = dj + "::{closure#0}"
        b = cg.body(dj)
        # each drained handle is joined: in the `for_each` closure or, written as a loop, in the function itself (on the cycle)
        ok = (clo in f.fns and bool(join_sites(cg.body(clo)))) or any(b.on_cycle(bb_) for bb_, t_ in join_sites(b))
        dr = [t for bb, t, cal, c in b.calls() if cal and cal.endswith("::drain")]
        full = bool(dr) and "RangeFull" in show_origin(b.origin(dr[0]["args"][1]))
        rep.check(ok and full, "R17.3", "R17.3|dispatcher|joins_all", "ValidatorDispatcher::join drains all handles (..) and joins each", dj)
    # every validator handle is stored: the spawn result is pushed into validator_thread_handles
    # (searched in every method of the dispatcher: the spawn may live in dispatch_by_id or in a helper split from it)
    VDP = "fastpasta::analyze::validators::validator_dispatcher::ValidatorDispatcher::<T, C>::"
    dbi = VDP + "dispatch_by_id"
    vd_fns = [p_ for p_ in sorted(f.fns) if p_.startswith(VDP) and "{closure" not in p_ and f.fns[p_].get("mir")]
    if vd_fns:
        pushes, spawns = [], 0
        for p_ in vd_fns:
            b = cg.body(p_)
            for bb, t, cal, c in b.calls():
                if cal and cal.endswith("Vec::<T, A>::push") and "validator_thread_handles" in show_origin(b.origin(t["args"][0])):
                    pushes.append("spawn" in show_origin(b.origin(t["args"][1])))
                if cal and cal.endswith("Builder::spawn"):
                    spawns += 1
        ok = len(pushes) == 1 and pushes[0] and spawns == 1
        rep.check(ok, "R17.3", "R17.3|dispatcher|handle_stored", "each spawned validator's handle is stored for the final join", dbi)



def signal_handler_rules(ctx, rep):
    """R17.5: the stop-signal handler raises the stop flag on every path, and its "second signal → exit now" decision
    rests on the handler's own count — never on the shared stop flag, which the controller also raises (error cap,
    fatal error): a single signal during an internal wind-down must still get the orderly stop"""
    f = ctx.facts()
    cg = ctx.cg()
    ih = "fastpasta::util::lib::init_ctrlc_handler"
    clos = sorted(q for q in f.fns if q.startswith(ih + "::{closure") and f.fns[q].get("mir"))
    if ih not in f.fns or not clos:
        rep.missing("R17.5", ih + " (handler closure)")
        return
    for q in clos:
        b = cg.body(q)
        stores = [bb for bb, t, cal, c in b.calls() if cal and cal.startswith("core::sync::atomic::Atomic") and cal.split("::")[-1] in ("store", "swap", "fetch_or")
                  and t["args"][1:2] and (t["args"][1].get("c") or {}).get("int") == 1]
        rets = b.return_blocks()
        exits = [bb for bb, t, cal, c in b.calls() if cal == "std::process::exit"]
        ok_store = bool(stores) and all(b.all_paths_pass(0, stores, to=[x]) for x in rets + exits)
        rep.check(ok_store, "R17.5", "R17.5|handler|raises_flag", "the signal handler raises the stop flag on every path", q,
                  "the signal handler does not store `true` into the stop flag on every path")
        deciding = []
        for e in exits:
            for x in b.live_blocks():
                tt = b.blocks[x]["t"]
                if tt["k"] == "switch" and e in b.reachable_from(x) and not all(e in b.reachable_from(s_) or s_ == e for s_ in b.succ[x]):
                    src = [c_[1] for c_ in origin_calls(b.origin(tt["d"])) if c_[1]] + sorted(b.source_calls(tt["d"]))
                    deciding.append((x, [c_ for c_ in src if c_.startswith("core::sync::atomic::")]))
        bad = [d for d in deciding if d[1]]
        rep.check(bool(exits) and bool(deciding) and not bad, "R17.5", "R17.5|handler|second_signal_own_count",
                  "the immediate exit is decided by the handler's own signal count", q,
                  "the handler decides `process::exit` from the shared stop flag (%s): a first signal after an internal stop (error cap, fatal error) kills the run without report, flush or statistics" % sorted({c_ for d in bad for c_ in d[1]}))


def run_output_rules(ctx, rep):
    f = ctx.facts()
    cg = ctx.cg()
    reach = ctx.reachable()
    # ---------------- R17.4 closed stdout is an error value, not a panic
    prints = sorted({path for path, bb, t, cal, c in cg.call_sites(lambda c: c == "std::io::stdio::_print", within=reach)})
    for p in prints:
        rep.bad("R17.4", "R17.4|_print|%s" % p.split("::")[-1],
                "`println!`/`print!` reachable in %s: it panics when stdout has been closed by the reader of the pipe" % p.split("::")[-1], p)
    if not prints:
        rep.ok("R17.4", "R17.4|_print|none", "no reachable std::io::_print", "")
    n_w = 0
    for path in sorted(reach):
        fn = f.fns[path]
        if not fn.get("mir") or fn.get("derived"):
            continue
        b = cg.body(path)
        for bb, t, cal, c in b.calls():
            if cal in ("core::result::Result::<T, E>::expect", "core::result::Result::<T, E>::unwrap"):
                o = b.origin(t["args"][0])
                srcs = [x[1] for x in origin_calls(o) if x[1]]
                hit = [s for s in srcs if s == BW + "flush" or s == BW + "write" or s.endswith("::write_all") or (s.endswith("Write::flush"))]
                if hit:
                    n_w += 1
                    short = path.split("::")[-1] if "{closure" not in path else "::".join(path.split("::")[-2:])
                    # keyed by what triggers the write (the buffer filling up during a push / the final flush in
                    # Drop), not by the helper the `expect` happens to sit in
                    short = writer_trigger(cg, path, reach) or short
                    k = "R17.4|expect_on_write|%s" % short
                    rep.bad("R17.4", k, "%s panics (`%s`) when %s fails — e.g. BrokenPipe after the consumer of stdout went away" % (short, cal.split("::")[-1], hit[0].split("::")[-1]),
                            "%s (%s)" % (path, where(t["sp"])))
    # views turn write errors into values: generate_view returns io::Result and its callers match on it
    gv = "fastpasta::analyze::view::lib::generate_view"
    if gv in f.fns:
        callers = list(cg.call_sites(lambda c: c == gv, within=reach))
        ok = bool(callers)
        for path, bb, t, cal, c in callers:
            b = cg.body(path)
            nxt = b.blocks[t["t"]]
            uses_unwrap = any(cc in ("core::result::Result::<T, E>::expect", "core::result::Result::<T, E>::unwrap") for _, _, cc, _ in b.calls() if _ == t["t"])
            ok &= not uses_unwrap
        rep.check(ok, "R17.4", "R17.4|views|error_value", "view output errors are returned as values and reported as Fatal, not unwrapped", gv)
    bufwriter_rules(ctx, rep, "R17.4")

    # ---------------- R17.5 whole packets
    swc = "fastpasta::write::lib::spawn_writer::{closure#0}"
    if swc in f.fns:
        b = cg.body(swc)
        loads = [bb for bb, t, cal, c in b.calls() if cal == "core::sync::atomic::Atomic::<bool>::load"]
        push = [bb for bb, t, cal, c in b.calls() if cal == BW + "push_cdp_arr"]
        rep.check(len(loads) == 1 and len(push) == 1 and b.dominates(loads[0], push[0]), "R17.5", "R17.5|stop_between_batches",
                  "the writer tests the stop flag between batches, before pushing a whole batch", swc)
    inner = [p for p in reach if p.startswith(BW) and any(cal == "core::sync::atomic::Atomic::<bool>::load" for bb, t, cal, c in cg.body(p).calls())]
    rep.check(not inner, "R17.5", "R17.5|no_stop_inside_flush", "no stop check inside push/flush (a batch is never cut in the middle)", BW, "stop flag read in %s" % inner)


# ------------------------------------------------------------------ buffered writers (shared with C08)
BW_NEW = ("std::io::buffered::bufwriter::BufWriter::<W>::new", "std::io::buffered::bufwriter::BufWriter::<W>::with_capacity",
          "std::io::buffered::linewriter::LineWriter::<W>::new", "std::io::buffered::linewriter::LineWriter::<W>::with_capacity")
BW_IMPL = ("<std::io::buffered::bufwriter::BufWriter<W> as std::io::Write>::", "<std::io::buffered::linewriter::LineWriter<W> as std::io::Write>::")


def bufwriter_rules(ctx, rep, rule):
    """A std::io::BufWriter swallows the error of the flush it performs when dropped.  Every BufWriter that reachable
    code creates must therefore be flushed explicitly, with the result used, before it goes away:
      * a BufWriter that stays local to the function that creates it: every path from a write through it to a
        normal `Ok`/unit return passes `flush` on it;
      * a BufWriter stored in a field: some function flushes that field, every path from a write to that field to an
        Ok return of the (helpers-inlined) writing function passes the flush, and the owner's Drop reaches it."""
    from ..mir import Body, inline_fn, path_count_range
    f = ctx.facts()
    cg = ctx.cg()
    reach = ctx.reachable()
    created = []
    for p in sorted(reach):
        fn = f.fns[p]
        if not fn.get("mir") or fn.get("derived"):
            continue
        b = cg.body(p)
        for bb, t, cal, c in b.calls():
            if cal in BW_NEW:
                created.append((p, bb, t))
    if not created:
        rep.ok(rule, "%s|bufwriter|none" % rule, "no std::io::BufWriter/LineWriter is created in reachable code", "")
        return

    def ok_targets(b):
        oks = [i for i, j, s in b.stmts() if s["k"] == "assign" and s["rv"]["k"] == "agg" and s["rv"].get("vname") == "Ok" and (s["rv"].get("adt") or "").endswith("Result")]
        return oks or b.return_blocks()

    for p, bb, t in created:
        b = cg.body(p)
        dest = t["dest"]["l"]
        name = b.names.get(dest) or "_%d" % dest
        # does the value leave the function inside an aggregate (struct field / Option)?
        field = None
        for q in sorted(reach):
            fnq = f.fns[q]
            if not fnq.get("mir") or not q.startswith(p.rsplit("::", 1)[0]):
                continue
            for i, j, s in cg.body(q).stmts():
                if s["k"] == "assign" and s["rv"]["k"] == "agg" and s["rv"].get("fnames") and q == p:
                    for fname, op_ in zip(s["rv"]["fnames"], s["rv"]["ops"]):
                        so = show_origin(b.origin(op_))
                        if name in so or "BufWriter" in so:
                            field = (s["rv"].get("adt"), fname)
        short = p.split("::")[-1]
        if field is None:
            # provided trait methods (write_fmt behind writeln!) resolve to std::io::Write::*, so the receiver decides
            def on_it(tt, bb_create=bb):
                if not tt["args"]:
                    return False
                o = b.origin(tt["args"][0])
                if any(c_[3] == bb_create for c_ in origin_calls(o)):
                    return True
                return re.search(r"(^|[^\w])%s([^\w]|$)" % re.escape(name), show_origin(o)) is not None
            writes = [x for x, tt, cal, c in b.calls() if cal and cal.split("::")[-1] in ("write", "write_all", "write_fmt", "write_vectored")
                      and ("io::Write" in cal or cal.startswith(BW_IMPL)) and on_it(tt)]
            flushes = [x for x, tt, cal, c in b.calls() if cal and cal.endswith("::flush") and ("io::Write" in cal or cal.startswith(BW_IMPL)) and on_it(tt)]
            into = [x for x, tt, cal, c in b.calls() if cal and "BufWriter" in cal and cal.endswith("::into_inner")]
            bad = []
            for w in writes:
                r = path_count_range(b, w, ok_targets(b), flushes + into)
                if r is not None and r[0] < 1:
                    bad.append("write at bb%d can reach a normal return without flush" % w)
            rep.check(not bad and (bool(flushes + into) or not writes), rule, "%s|bufwriter|%s|%s" % (rule, short, name),
                      "the buffered writer `%s` created in %s is flushed (result used) on every path from a write to a normal return" % (name, short), p,
                      "the buffered writer `%s` created in %s is dropped without an explicit flush: %s — an I/O error (closed pipe, full disk) at that point is discarded" % (name, short, bad or "no flush at all"))
        else:
            adt, fname = field
            fl = []
            wr = []
            for q in sorted(reach):
                fnq = f.fns[q]
                if not fnq.get("mir"):
                    continue
                bq = cg.body(q)
                for x, tt, cal, c in bq.calls():
                    if cal and cal.startswith(BW_IMPL) and ("." + fname) in show_origin(bq.origin(tt["args"][0])):
                        (fl if cal.endswith("::flush") else wr).append(q)
            ok = bool(fl)
            det = "flushed in %s, written in %s" % (sorted(set(x.split("::")[-1] for x in fl)), sorted(set(x.split("::")[-1] for x in wr)))
            # from every public function of the owner that (transitively, same impl) writes, a flush follows before Ok
            bad = []
            owner_prefix = [q for q in reach if q.endswith("::flush") and adt and adt.split("::")[-1] in q]
            for q in sorted(set(owner_prefix)):
                bi = Body(inline_fn(f, q, lambda c, adt=adt: adt.split("::")[-1] in c and c in f.fns, max_depth=3, max_blocks=2000))
                ws = [x for x, tt, cal, c in bi.calls() if cal and cal.startswith(BW_IMPL) and not cal.endswith("::flush") and ("." + fname) in show_origin(bi.origin(tt["args"][0]))]
                fs = [x for x, tt, cal, c in bi.calls() if cal and cal.startswith(BW_IMPL) and cal.endswith("::flush") and ("." + fname) in show_origin(bi.origin(tt["args"][0]))]
                # the Option holding the writer does not change between the write and the flush: from a write (Some side)
                # the None edges of later tests of the same field are infeasible
                none_edges = []
                for x in bi.live_blocks():
                    tt = bi.blocks[x]["t"]
                    if tt["k"] == "switch" and ("." + fname) in show_origin(bi.origin(tt["d"])) and show_origin(bi.origin(tt["d"])).startswith("discr("):
                        zero = [(x, v[1]) for v in tt["vals"] if v[0] == 0]
                        none_edges += zero if zero else [(x, tt["else"])]
                for w in ws:
                    r = path_count_range(bi, w, ok_targets(bi), fs, none_edges)
                    if r is not None and r[0] < 1:
                        bad.append("%s: a write can reach Ok without flushing the inner writer" % q.split("::")[-1])
            # the owner's Drop reaches a flushing function
            drop = [q for q in f.fns if q.startswith("<%s" % adt) and q.endswith("as core::ops::drop::Drop>::drop")] if adt else []
            reach_from_drop = cg.reachable(drop) if drop else set()
            okd = bool(drop) and any(x in reach_from_drop for x in fl)
            rep.check(ok and not bad and okd, rule, "%s|bufwriter_flushed|%s.%s" % (rule, adt.split("::")[-1] if adt else "?", fname),
                      "the buffered writer stored in %s.%s is flushed explicitly after writing and from the owner's Drop (%s)" % (adt.split("::")[-1] if adt else "?", fname, det), p,
                      "the buffered writer stored in %s.%s is never flushed with its result used (%s; %s; reached from Drop: %s): the error of its implicit flush on drop is discarded" % (
                          adt.split("::")[-1] if adt else "?", fname, det, bad, okd))
