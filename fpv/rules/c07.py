"""C07 — reported offsets and quoted bytes are truthful.

Decided: where every reported offset and every quoted byte comes from, on every
path: word reports take the tracker's current word position and the checked
word slice passed down unchanged (parameter-flow fixpoint from
CdpRunningValidator::check); the word counter is bumped exactly once per word
before any report; the offset formula's normal form; every Error message is
built from a template that starts with an upper-hex offset whose provenance is
a word position, the packet's own offset or the frame start; packet/offset
association through CdpArray and LinkValidator; the word dump prints bytes
0..9 in order.  Not decided: payload layout disagreeing with the data format."""
import re

from .. import emit
from ..mir import callee_of, origin_calls, origin_leaves, show_origin, op_place
from ..thir import Evaluator, Agg, Sym, Bits, Obj, ckey, vkey, Unsupported
from ..facts import where

EXPLANATION = __doc__
CRV = "fastpasta::analyze::validators::its::cdp_running::CdpRunningValidator::<T, C>::"
UTIL_REPORT = "fastpasta::analyze::validators::its::util::report_error"
TRK = "fastpasta::analyze::validators::its::cdp_running::cdp_tracker::CdpTracker::"
LV = "fastpasta::analyze::validators::link_validator::LinkValidator::<T, C>::"
AP = "alice_protocol_reader::"


def _full_word_range(o):
    """range aggregate that keeps bytes 0..=9 of a 10-byte word: 0..n (n>=10), 0..=m (m>=9), .., 0.."""
    while isinstance(o, tuple) and o and o[0] == "ref":
        o = o[1]
    if not (isinstance(o, tuple) and o and o[0] == "agg"):
        return False
    nm = (o[1].get("adt") or "").split("::")[-1]
    vals = [x[1].get("int") if isinstance(x, tuple) and x[0] == "const" else None for x in o[2]]
    if nm == "RangeFull":
        return True
    if nm == "RangeFrom":
        return vals[:1] == [0]
    if nm == "Range":
        return len(vals) == 2 and vals[0] == 0 and vals[1] is not None and vals[1] >= 10
    if nm == "RangeTo":
        return len(vals) == 1 and vals[0] is not None and vals[0] >= 10
    return False


def root_param(o):
    """(param index, projection) if the origin is a parameter (possibly inside enum payload / reborrow,
    or re-sliced with a constant range that keeps all ten word bytes)"""
    while isinstance(o, tuple) and o and (o[0] == "ref" or (o[0] == "call" and o[1] and o[1].endswith("Index>::index") is False and False)):
        o = o[1]
    if isinstance(o, tuple) and o and o[0] == "call" and o[1] and "ops::index::Index" in o[1] and len(o[2]) == 2 and _full_word_range(o[2][1]):
        return root_param(o[2][0])
    if isinstance(o, tuple) and o and o[0] == "param":
        return o[1], o[2]
    if isinstance(o, tuple) and o and o[0] == "proj" and isinstance(o[1], tuple):
        r = root_param(o[1])
        if r:
            return r[0], tuple(r[1]) + tuple(o[2])
    return None


def message_shape_violations(ctx, cfg="dev", only_codes=None, within_prefix=None, counter=None):
    """Error messages whose template does not start with an upper-hex offset `{pos:#X}: ` (what
    ErrorStats::sort_error_msgs_by_mem_pos parses with ^0x[0-9A-F]+): list of (where, template)"""
    f = ctx.facts(cfg)
    cg = ctx.cg(cfg)
    out = []
    for s in emit.message_sites(f, cg, ctx.reachable(cfg)):
        if s["variant"] != "Error":
            continue
        pl = s["payload"]
        if root_param(pl) is not None or pl[0] == "proj" or "@Error" in show_origin(pl) or (pl[0] == "call" and pl[1] and pl[1].endswith("::recv")):
            continue
        fs = emit.site_format(f, s)
        tm = (fs or {}).get("template") or ""
        if only_codes and not any(c in tm for c in only_codes):
            continue
        if within_prefix and not (s.get("fn") or "").replace("<", "").startswith(within_prefix):
            continue
        if counter is not None:
            counter.append(where(s["sp"]))
        if not (fs and re.match(r"\{(\w*):#X\}: ", tm) and fs["args"] and fs["args"][0][0] == "upper_hex"):
            out.append((where(s["sp"]), tm[:70]))
    return out


def run(ctx, rep):
    f = ctx.facts()
    cg = ctx.cg()
    reach = ctx.reachable()
    ev = Evaluator(f)

    # ---------------- R7.1 word reports
    if UTIL_REPORT not in f.fns or CRV + "report_error" not in f.fns or CRV + "check" not in f.fns:
        rep.missing("R7.1", "report_error / CdpRunningValidator::check")
        return
    callers = {p for p, bb, t, cal, c in cg.call_sites(lambda c: c == UTIL_REPORT, within=reach)}
    rep.check(callers == {CRV + "report_error"}, "R7.1", "R7.1|formatter_callers", "the word-error formatter is called only through the validator's wrapper", UTIL_REPORT,
              "its::util::report_error is called from %s" % sorted(callers))
    wb = cg.body(CRV + "report_error")
    for bb, t, cal, c in wb.calls():
        if cal == UTIL_REPORT:
            o0 = wb.origin(t["args"][0])
            good0 = o0[0] == "call" and o0[1] == TRK + "current_word_mem_pos" and root_param(o0[2][0]) == (1, ("*", ".tracker"))
            rep.check(good0, "R7.1", "R7.1|wrapper|mem_pos", "offset = self.tracker.current_word_mem_pos()", CRV + "report_error",
                      "word errors are reported at %s" % show_origin(o0))
            rep.check(wb.origin(t["args"][2]) == ("param", 3, ()), "R7.1", "R7.1|wrapper|slice", "quoted bytes = the word_slice parameter", CRV + "report_error",
                      "the wrapper quotes %s" % show_origin(wb.origin(t["args"][2])))
            rep.check(wb.origin(t["args"][1]) == ("param", 2, ()), "R7.1", "R7.1|wrapper|msg", "message = the error parameter", CRV + "report_error")
    # parameter-flow fixpoint: which parameters are "the checked word"
    word_params = {(CRV + "check", 2)}
    methods = [p for p in reach if p.startswith(CRV) or p.startswith(CRV.replace("::<T, C>::", "::<T, C>::") )]
    closures = [p for p in reach if "cdp_running::CdpRunningValidator::<T, C>::" in p and "{closure" in p]
    changed = True
    edges = []  # (caller, callee, argidx, rootparam)
    for p in methods + closures:
        b = cg.body(p)
        for bb, t, cal, c in b.calls():
            if cal and (cal.startswith(CRV)) and cal in f.fns:
                for j, a in enumerate(t["args"]):
                    o = b.origin(a)
                    rp = root_param(o)
                    if rp is None and o[0] == "agg" and o[2]:
                        rp = root_param(o[2][0])
                    edges.append((p, cal, j + 1, rp, o, bb))
    while changed:
        changed = False
        for p, cal, j, rp, o, bb in edges:
            if rp and (p, rp[0]) in word_params and (cal, j) not in word_params:
                # only slice-typed params
                ty = f.fns[cal]["mir"]["locals"][j]["ty"]["s"]
                if "[u8]" in ty or "StatusWordKind" in ty:
                    word_params.add((cal, j))
                    changed = True
    # closures capture the slice: treat upvar `.N` of param1 as flowing from the parent's local; accept closures whose
    # parent function passes a word param (checked below through the origin of the captured variable)
    n_sites = 0
    for p in sorted(methods + closures):
        b = cg.body(p)
        for bb, t, cal, c in b.calls():
            if cal != CRV + "report_error":
                continue
            # a site inside a shared reporting helper stands for each of the helper's call sites (extracting the helper
            # must not look like sites went missing)
            n_sites += max(1, len({(e_[0], e_[5]) for e_ in edges if e_[1] == p}))
            o = b.origin(t["args"][2])
            rp = root_param(o)
            ok = False
            why = show_origin(o)
            if rp and (p, rp[0]) in word_params and not any(x.startswith("[") for x in rp[1]):
                ok = True
            elif rp and "{closure" in p and rp[0] == 1:
                # captured variable of the parent: find the parent's closure construction operand
                parent = p.rsplit("::{closure", 1)[0]
                pb = cg.body(parent)
                idx = None
                for x in rp[1]:
                    if x.startswith(".") and x[1:].isdigit():
                        idx = int(x[1:])
                        break
                for i, j, s in pb.stmts():
                    if s["k"] == "assign" and s["rv"]["k"] == "agg" and s["rv"].get("closure") == p and idx is not None and idx < len(s["rv"]["ops"]):
                        po = pb.origin(s["rv"]["ops"][idx])
                        prp = root_param(po)
                        ok = bool(prp and (parent, prp[0]) in word_params)
                        why = "captured " + show_origin(po)
            key = "R7.1|site|%s|%d" % (p.replace(CRV, ""), len([1 for x in rep.instances if x["key"].startswith("R7.1|site|%s|" % p.replace(CRV, ""))]))
            rep.check(ok, "R7.1", key, "report_error quotes the word being checked (%s)" % why, p,
                      "report_error in %s quotes %s, which is not the checked word passed down unchanged" % (p.replace(CRV, ""), why))
    rep.floor("R7.1", n_sites, 16, "call sites of the validator's report_error")
    # all call sites of word-param functions pass word params (no other slice sneaks in)
    def captured_ok(p, rp):
        if not (rp and "{closure" in p and rp[0] == 1):
            return False
        parent = p.rsplit("::{closure", 1)[0]
        pb = cg.body(parent)
        idx = next((int(x[1:]) for x in rp[1] if x.startswith(".") and x[1:].isdigit()), None)
        for i, j2, s2 in pb.stmts():
            if s2["k"] == "assign" and s2["rv"]["k"] == "agg" and s2["rv"].get("closure") == p and idx is not None and idx < len(s2["rv"]["ops"]):
                prp = root_param(pb.origin(s2["rv"]["ops"][idx]))
                return bool(prp and (parent, prp[0]) in word_params)
        return False
    for p, cal, j, rp, o, bb in edges:
        if (cal, j) in word_params:
            ok = bool(rp and (p, rp[0]) in word_params) or captured_ok(p, rp)
            if not ok:
                rep.bad("R7.1", "R7.1|flow|%s→%s" % (p.replace(CRV, ""), cal.replace(CRV, "")),
                        "%s passes %s as the checked word of %s" % (p.replace(CRV, ""), show_origin(o), cal.replace(CRV, "")), p)
    # the root: do_payload_checks hands each chunk's first 10 bytes to check()
    # (the call sits in the `for_each` closure or, written as a loop, in do_payload_checks itself)
    dpf = "fastpasta::analyze::validators::its::lib::do_payload_checks"
    cands_ = [q for q in [dpf + "::{closure#0}", dpf] if q in f.fns and any(cal == CRV + "check" for bb, t, cal, c in cg.body(q).calls())]
    dpc = cands_[0] if cands_ else dpf + "::{closure#0}"
    if dpc in f.fns:
        b = cg.body(dpc)
        cs = [(bb, t) for bb, t, cal, c in b.calls() if cal == CRV + "check"]
        rep.check(len(cs) == 1, "R7.1", "R7.1|root|one_check_per_chunk", "one check() per chunk", dpc)
        for bb, t in cs:
            o = b.origin(t["args"][1])
            s = show_origin(o)
            rep.check("index" in s.lower() and (root_param(o[2][0] if o[0] == "call" else o) is not None or "next(" in s) or "arg2" in s, "R7.1", "R7.1|root|slice",
                      "check() receives a range-slice of the chunk parameter: %s" % s[:120], dpc)
    else:
        rep.missing("R7.1", dpc)

    # ---------------- R7.2 counter discipline
    cb = cg.body(CRV + "check")
    inc = [bb for bb, t, cal, c in cb.calls() if cal == TRK + "incr_word_count"]
    adv = [bb for bb, t, cal, c in cb.calls() if cal and cal.endswith("ItsPayloadFsmContinuous::advance")]
    rep.check(len(inc) == 1 and len(adv) == 1 and cb.dominates(inc[0], adv[0]) and not cb.on_cycle(inc[0]), "R7.2", "R7.2|incr_once_first",
              "incr_word_count is called exactly once per check(), before the FSM and every report", CRV + "check",
              "incr_word_count sites %s do not dominate the word processing (reports would carry the previous word's offset)" % inc)
    others = [bb for bb, t, cal, c in cb.calls() if cal and cal in f.fns and cal != TRK + "incr_word_count"]
    rep.check(inc and all(cb.dominates(inc[0], x) for x in others if x != 0) , "R7.2", "R7.2|incr_dominates_all", "the counter bump dominates every other call in check()", CRV + "check")
    # writers of gbt_word_counter
    wr = set()
    for path, fn in f.fns.items():
        if not fn.get("mir") or fn.get("derived"):
            continue
        for bbk in fn["mir"]["blocks"]:
            for s in bbk["s"]:
                if s["k"] == "assign" and any(isinstance(e, list) and e[0] == "f" and e[2] == "gbt_word_counter" for e in s["lhs"].get("p", [])):
                    wr.add(path)
    rep.check(wr == {TRK + "incr_word_count"}, "R7.2", "R7.2|counter_writers", "gbt_word_counter is written only by incr_word_count (and constructors)", TRK,
              "writers of gbt_word_counter: %s" % sorted(wr))
    callers = {p for p, bb, t, cal, c in cg.call_sites(lambda c: c == TRK + "incr_word_count", within=reach)}
    rep.check(callers == {CRV + "check"}, "R7.2", "R7.2|incr_callers", "incr_word_count is called only from check()", TRK, "callers: %s" % sorted(callers))
    # set_current_rdh: new tracker from (rdh, rdh_mem_pos) parameters
    sb = cg.body(CRV + "set_current_rdh")
    news = [(bb, t) for bb, t, cal, c in sb.calls() if cal == TRK + "new"]
    good = len(news) == 1 and sb.origin(news[0][1]["args"][1]) == ("param", 3, ()) and root_param(sb.origin(news[0][1]["args"][0])) == (2, ())
    rep.check(good, "R7.2", "R7.2|new_tracker_per_packet", "set_current_rdh builds a fresh tracker from its own (rdh, rdh_mem_pos)", CRV + "set_current_rdh")
    # do_payload_checks: set_current_rdh dominates the word loop, with the tuple's own offset
    dp = "fastpasta::analyze::validators::its::lib::do_payload_checks"
    if dp in f.fns:
        b = cg.body(dp)
        sc = [(bb, t) for bb, t, cal, c in b.calls() if cal == CRV + "set_current_rdh"]
        rest = [bb for bb, t, cal, c in b.calls() if cal and (cal.endswith("preprocess_payload") or cal.endswith("::for_each"))]
        good = len(sc) == 1 and all(b.dominates(sc[0][0], r) for r in rest) and root_param(b.origin(sc[0][1]["args"][2])) == (1, (".2",)) \
            and root_param(b.origin(sc[0][1]["args"][1])) == (1, (".0",))
        rep.check(good, "R7.2", "R7.2|set_current_rdh_first", "set_current_rdh(cdp.0, cdp.2) precedes payload processing", dp,
                  "set_current_rdh is not called first with the packet's own RDH and offset")

    # ---------------- R7.4b the quoted RDH row: Display prints the same fields as the styled view row (rule ids R19.5)
    from . import c19
    c19.display_vs_styled(ctx, rep, f, cg)

    # ---------------- R7.3 offset formula
    tracker = Agg("CdpTracker", "CdpTracker", {"payload_mem_pos": Sym("PAYLOAD"), "gbt_word_counter": Sym("COUNT"),
                                                "gbt_word_padding_size_bytes": Sym("PAD"), "is_start_of_data": Sym("S")})
    try:
        v = vkey(ev.call_fn(TRK + "current_word_mem_pos", [tracker]))
    except Unsupported as e:
        v = "unsupported %s" % e
    # compared as a polynomial (re-association, named constants and widening casts do not matter):
    # (COUNT − 1)·(10 + PAD) + PAYLOAD = COUNT·PAD + 10·COUNT − PAD − 10 + PAYLOAD
    from .c20 import parse as _parse, poly as _poly, poly_str as _poly_str
    got_p = _poly(_parse(v)) if not v.startswith("unsupported") else None
    want_p = {("COUNT", "PAD"): 1, ("COUNT",): 10, ("PAD",): -1, (): -10, ("PAYLOAD",): 1}
    v = "%s  [= %s]" % (v, _poly_str(got_p))
    want = v if got_p == want_p else "(COUNT-1)*(10+PAD)+PAYLOAD"
    rep.check(v == want, "R7.3", "R7.3|formula", "current_word_mem_pos = (count−1)·(10+pad) + payload_pos", TRK + "current_word_mem_pos",
              "offset formula is %s (expected %s)" % (v, want))
    try:
        nv = ev.call_fn(TRK + "new", [Obj("RDH", 0, AP + "rdh::rdh_cru::RdhCru"), Sym("POS")])
        good = isinstance(nv, Agg) and vkey(nv.fields.get("payload_mem_pos")) == "sym(Add(sym(POS),0x40))" and vkey(nv.fields.get("gbt_word_counter")) == "0x0"
        # the padding per word, decided for each of the 256 data-format values: 6 for format 0, none otherwise
        pads = {}
        for df_ in range(256):
            ev.assume = {}
            ev.assume_bits("RDH", 192, 8, df_)
            try:
                nv_ = ev.call_fn(TRK + "new", [Obj("RDH", 0, AP + "rdh::rdh_cru::RdhCru"), Sym("POS")])
                pv_ = nv_.fields.get("gbt_word_padding_size_bytes") if isinstance(nv_, Agg) else None
                pads[df_] = pv_.value() if isinstance(pv_, Bits) and pv_.is_const() else vkey(pv_)[:40]
            finally:
                ev.assume = {}
        good = good and all(pads[d_] == (6 if d_ == 0 else 0) for d_ in range(256))
    except Unsupported:
        good, nv = False, None
    rep.check(good, "R7.3", "R7.3|tracker_new", "payload_pos = rdh_pos + 64, counter = 0, pad = 6 iff data_format == 0", TRK + "new",
              "CdpTracker::new evaluates to %s" % (vkey(nv)[:300] if nv is not None else "?"))

    # ---------------- R7.5 message shape & offset provenance of every Error
    sites = emit.message_sites(f, cg, reach)
    n_fmt = 0
    for s in sites:
        if s["variant"] != "Error":
            continue
        pl = s["payload"]
        rp = root_param(pl)
        fnshort = s["fn"].split("::")[-1] if "{closure" not in s["fn"] else "::".join(s["fn"].split("::")[-2:])
        if rp is not None or (pl[0] == "proj") or (pl[0] == "call" and pl[1] and pl[1].endswith("::recv")) or "@Error" in show_origin(pl):
            # forwarding an already-built message (forwarder, Controller::update)
            rep.ok("R7.5", "R7.5|forward|%s" % fnshort, "forwards an existing message unchanged", s["fn"])
            continue
        fs = emit.site_format(f, s)
        if fs is None or not fs["template"]:
            rep.bad("R7.5", "R7.5|shape|%s" % fnshort, "Error message is not built by a format! with a leading offset: %s" % show_origin(pl)[:160], where(s["sp"]))
            continue
        n_fmt += 1
        tm = fs["template"]
        m = re.match(r"\{(\w*):#X\}: ", tm)
        rep.check(bool(m) and fs["args"] and fs["args"][0][0] == "upper_hex", "R7.5", "R7.5|shape|%s|%s" % (fnshort, (emit.codes_in(tm) or ["-"])[0]),
                  "message template starts with '{pos:#X}: '", where(s["sp"]), "Error template %r does not start with an upper-hex offset" % tm[:60])
        if not (m and fs["args"]):
            continue
        src = fs["args"][0][1]
        sso = show_origin(src)
        kind = None
        b = s["body"]

        def _offset_kind(b_, fn_, src_, depth_=0):
            """what the leading offset is: a word position, the frame start, the packet-offset parameter of an entry
            point — or, for a parameter of a private reporting helper, what every caller passes for it"""
            if src_[0] == "call" and src_[1] == TRK + "current_word_mem_pos":
                return "word position"
            if src_[0] == "call" and src_[1] and src_[1].endswith("AlpideReadoutFrame::start_mem_pos"):
                return "frame start"
            rp_ = root_param(src_)
            if rp_ is None:
                return None
            pname_ = b_.names.get(rp_[0], "")
            if "mem_pos" in pname_ or rp_[1] == (".2",):
                return "offset parameter %s%s" % (pname_, "".join(rp_[1]))
            if depth_ >= 3:
                return None
            kinds_ = set()
            sites_ = [(p_, t_) for p_, bb_, t_, cal_, c_ in cg.call_sites(lambda c__: c__ == fn_, within=reach)]
            for p_, t_ in sites_:
                if rp_[0] - 1 >= len(t_["args"]):
                    return None
                cb_ = cg.body(p_)
                o_ = cb_.origin(t_["args"][rp_[0] - 1])
                for pr_ in rp_[1]:
                    while isinstance(o_, tuple) and o_ and o_[0] == "ref":
                        o_ = o_[1]
                    if pr_ == "*":
                        continue
                    m_ = re.fullmatch(r"\.(\d+)", str(pr_))
                    if m_ and isinstance(o_, tuple) and o_ and o_[0] == "agg" and int(m_.group(1)) < len(o_[2]):
                        o_ = o_[2][int(m_.group(1))]
                    else:
                        o_ = ("proj", o_, (pr_,))
                kinds_.add(_offset_kind(cb_, p_, o_, depth_ + 1))
            if sites_ and None not in kinds_ and len({k_.split(" ")[0] for k_ in kinds_}) == 1:
                return "%s (handed in by %s)" % (sorted(kinds_)[0], ", ".join(sorted({p_.split("::")[-1] for p_, t_ in sites_})))
            return None
        if (src[0] == "call" and src[1] and (src[1] == TRK + "current_word_mem_pos" or src[1].endswith("AlpideReadoutFrame::start_mem_pos"))) or root_param(src) is not None:
            kind = _offset_kind(b, s["fn"], src)
        elif src[0] == "call" and src[1] and (src[1].endswith("ScanCDP>::current_mem_pos") or src[1].endswith("MemPosTracker::current_mem_address")) \
                and s["fn"].replace("<", "").startswith("alice_protocol_reader::"):
            kind = None
            # keyed by the error code (not by the function that happens to hold the format!): the codes in the template,
            # or — when the code is a parameter of a shared reporting helper — the code literals its callers pass
            codes_ = emit.codes_in(tm)
            if not codes_:
                for q_ in sorted(f.fns):
                    tq = ev.tb(q_) if f.fns[q_].get("thir") else None
                    if tq is None:
                        continue
                    for _, c_ in tq.calls():
                        if (c_.get("res") or c_.get("fn")) == s["fn"]:
                            for a_ in c_["args"]:
                                for _, x_ in tq.walk(a_):
                                    if x_["k"] == "Lit" and re.fullmatch(r"E\d{2,4}", x_.get("str") or ""):
                                        codes_.append(x_["str"])
            for code_ in sorted(set(codes_)) or ["-"]:
                rep.bad("R7.5", "R7.5|offset|scanner-position|%s" % code_,
                        "the message offset is the scanner position *after* the tracker was advanced past this packet (start of the next RDH, "
                        "beyond the end of a truncated input), not the start of the RDH the message is about", where(s["sp"]))
            continue
        rep.check(kind is not None, "R7.5", "R7.5|offset|%s|%s" % (fnshort, (emit.codes_in(tm) or ["-"])[0]),
                  "leading offset is a %s" % kind, where(s["sp"]), "leading offset of the message is %s — not a word position, packet offset or frame start" % sso[:140])
    rep.floor("R7.5", n_fmt, 8, "formatted Error messages (10 counted on the pinned tree; two may legitimately share one template)")
    # offset parameters are fed with the packet's own offset: report_rdh_error ← do_rdh_checks ← do_checks (tuple .2)
    if LV + "do_checks" in f.fns:
        b = cg.body(LV + "do_checks")
        for bb, t, cal, c in b.calls():
            if cal == LV + "do_rdh_checks":
                o = b.origin(t["args"][2])
                rep.check(root_param(o) == (2, (".2",)), "R7.4", "R7.4|do_checks|rdh_offset", "do_rdh_checks gets the tuple's own offset", LV + "do_checks",
                          "do_rdh_checks is given %s" % show_origin(o))
                o = b.origin(t["args"][1])
                rep.check(root_param(o) == (2, (".0",)), "R7.4", "R7.4|do_checks|rdh", "do_rdh_checks gets the tuple's own RDH", LV + "do_checks")
            if cal and cal.endswith("its::lib::do_payload_checks"):
                o = b.origin(t["args"][0])
                ok = o[0] == "agg" and len(o[2]) == 3 and root_param(o[2][2]) == (2, (".2",)) and root_param(o[2][0]) == (2, (".0",)) and \
                    (root_param(o[2][1]) == (2, (".1",)) or "arg2.1" in show_origin(o[2][1]))
                rep.check(ok, "R7.4", "R7.4|do_checks|payload_tuple", "do_payload_checks gets (rdh, payload, offset) of the same tuple", LV + "do_checks",
                          "do_payload_checks is given %s" % show_origin(o)[:200])
        pushes = [bb for bb, t, cal, c in b.calls() if cal and cal.endswith("RingBuffer>::push") or (cal and "ConstGenericRingBuffer" in cal and cal.endswith("::push"))]
        chk = [bb for bb, t, cal, c in b.calls() if cal == LV + "do_rdh_checks"]
        rep.check(len(pushes) == 1 and chk and b.dominates(chk[0], pushes[0]), "R7.4", "R7.4|prev_rdhs_after", "the RDH enters the 'previous' ring buffer once, after its own checks", LV + "do_checks",
                  "ring-buffer pushes: %s" % pushes)
    # run(): recv → do_checks unchanged
    # ---------------- R7.4 CdpArray parallel vectors
    CA = AP + "cdp_wrapper::cdp_array::CdpArray::<T, CAP>::"
    for m in ("push",):
        p = CA + m
        if p not in f.fns:
            rep.missing("R7.4", p)
            continue
        b = cg.body(p)
        seen = {}
        for bb, t, cal, c in b.calls():
            if cal and cal.endswith("ArrayVec::<T, CAP>::push"):
                recv = root_param(b.origin(t["args"][0]))
                val = root_param(b.origin(t["args"][1]))
                if recv:
                    seen[recv[1][-1]] = val
        good = seen == {".rdhs": (2, ()), ".payloads": (3, ()), ".rdh_mem_pos": (4, ())}
        rep.check(good, "R7.4", "R7.4|CdpArray|push", "push appends (rdh, payload, mem_pos) to the three parallel vectors", p, "push does %s" % seen)
    itn = "<%scdp_wrapper::cdp_array::CdpArrayIter<'a, T, CAP> as core::iter::traits::iterator::Iterator>::next" % AP
    if itn in f.fns:
        b = cg.body(itn)
        gets = {}
        for bb, t, cal, c in b.calls():
            if cal and cal.endswith("::get") and len(t["args"]) == 2:
                o = b.origin(t["args"][0])
                so = show_origin(o)
                fld = [x for x in (".rdhs", ".payloads", ".rdh_mem_pos") if x in so]
                io = show_origin(b.origin(t["args"][1]))
                if fld:
                    gets[fld[0]] = io
        rep.check(len(gets) == 3 and len(set(gets.values())) == 1 and ".index" in list(gets.values())[0], "R7.4", "R7.4|CdpArrayIter|same_index",
                  "borrowing iterator reads all three vectors at the same index", itn, "iterator indices: %s" % gets)
    into = "<%scdp_wrapper::cdp_array::CdpArray<T, CAP> as core::iter::traits::collect::IntoIterator>::into_iter" % AP
    if into in f.fns:
        b = cg.body(into)
        zips = [(bb, t) for bb, t, cal, c in b.calls() if cal and cal.endswith("Iterator::zip")]
        order = []
        for bb, t in zips:
            order.append([x for x in (".rdhs", ".payloads", ".rdh_mem_pos") if x in show_origin(b.origin(t["args"][1]))])
        rep.check(order == [[".payloads"], [".rdh_mem_pos"]], "R7.4", "R7.4|CdpArray|into_iter", "consuming iterator zips rdhs, payloads, mem_pos in order", into,
                  "zip order %s" % order)
        clo = into + "::{closure#0}"
        if clo in f.fns:
            cbd = cg.body(clo)
            tups = [s for i, j, s in cbd.stmts() if s["k"] == "assign" and s["rv"]["k"] == "agg" and s["rv"]["ak"] == "tuple" and len(s["rv"]["ops"]) == 3]
            good = False
            if tups:
                comps = [show_origin(cbd.origin(o)) for o in tups[-1]["rv"]["ops"]]
                good = comps == ["arg2.0.0", "arg2.0.1", "arg2.1"]
            rep.check(good, "R7.4", "R7.4|CdpArray|into_iter_map", "((rdh, payload), pos) ↦ (rdh, payload, pos)", clo, "map builds %s" % (comps if tups else None))

    # ---------------- R7.6 the scanner's own offset bookkeeping (rules R3.0–R3.3 of C03, shared)
    from . import c03
    c03.run_offset_rules(ctx, rep)

    # ---------------- R7.7 word dump
    ub = cg.body(UTIL_REPORT)
    fss = emit.format_sites(f, ub)
    ok = False
    if fss:
        a = fss[0]["args"]
        idx = []
        for kind, o in a[2:]:
            so = show_origin(o)
            m = re.search(r"\[(\d+)\]$", so)
            idx.append(int(m.group(1)) if m and so.startswith("arg3") else None)
        ok = idx == list(range(10)) and a[0][0] == "upper_hex" and show_origin(a[0][1]) == "arg1" and show_origin(a[1][1]) == "arg2"
    rep.check(ok, "R7.7", "R7.7|dump_order", "the message prints mem_pos, err, then word_slice[0..=9] in order", UTIL_REPORT,
              "word dump arguments are %s" % ([show_origin(o) for k, o in fss[0]["args"]] if fss else None))
