"""C10 — RDH sanity and running checks implement the documented rules exactly.

Decided: predicate-table equality between the conditions in the RDH validators
(normal forms over wire bits, accessors inlined, validator constants propagated
from every construction site) and oracles/rdh_rules.json; the per-step
transition function of the running checker; reporting at the packet offset.
Not decided: long-history behaviour beyond the per-step function."""
from ..thir import Evaluator, Obj, Agg, Sym, Bits, Cond, ckey, vkey, oracle_cond, TB, Unsupported
from ..mir import Body, callee_of
from ..facts import where

EXPLANATION = __doc__

V = "fastpasta::analyze::validators::rdh::"
RC = "alice_protocol_reader::rdh::rdh_cru::RdhCru"
RUN = "fastpasta::analyze::validators::rdh_running::RdhCruRunningChecker::<T>::"


def construction_values(ctx, ev, rep):
    """evaluate every call site of Rdh0Validator::new / FeeIdSanityValidator::new and
    every struct literal of the RDH validators in reachable code → per-field value sets"""
    f = ctx.facts()
    reach = ctx.reachable()
    vals = {}
    sites = 0
    for path in sorted(reach):
        fn = f.fns[path]
        if not fn.get("thir"):
            continue
        tb = ev.tb(path)
        if tb is None:
            continue
        for i, n in tb.walk():
            if n["k"] == "Call" and n.get("fn", "").endswith("rdh::Rdh0Validator::new"):
                sites += 1
                names = ["header_id", "header_size", "fee_id", "priority_bit", "system_id"]
                for nm, a in zip(names, n["args"]):
                    try:
                        v = ev.eval(tb, a, {}, 0)
                    except Unsupported:
                        v = Sym("?")
                    vals.setdefault("Rdh0Validator." + nm, set()).add(vkey(v))
    # inside Rdh0Validator::new: reserved0 literal
    nb = ev.tb(V + "Rdh0Validator::new")
    if nb:
        for i, n in nb.walk():
            if n["k"] == "Adt" and n["adt"].endswith("Rdh0Validator"):
                for fd in n["fields"]:
                    if fd["f"] == "reserved0":
                        vals.setdefault("Rdh0Validator.reserved0", set()).add(vkey(ev.eval(nb, fd["e"], {}, 0)))
    # field writes outside constructors (e.g. specialize)
    for path in sorted(reach):
        tb = ev.tb(path) if f.fns[path].get("thir") else None
        if tb is None:
            continue
        for i, n in tb.walk():
            if n["k"] == "Assign":
                li, ln = tb.e(n["l"])
                if ln["k"] == "Field" and (ln.get("adt") or "").endswith("rdh::Rdh0Validator"):
                    try:
                        v = ev.eval(tb, n["r"], {}, 0)
                    except Unsupported:
                        v = Sym("?")
                    if path.endswith("Rdh0Validator::sanity_check") and ln.get("name") == "header_id":
                        # first-seen learning: header_id = Some(rdh0.header_id)
                        vals.setdefault("Rdh0Validator.header_id.learn", set()).add(vkey(v))
                    else:
                        vals.setdefault("Rdh0Validator." + ln.get("name", "?"), set()).add(vkey(v))
    return vals, sites


def run(ctx, rep):
    f = ctx.facts()
    ev = Evaluator(f)
    orc = ctx.oracle("rdh_rules.json")
    root = orc["root"]
    K = orc["validator_constants"]

    # ---- R10.1a constants propagated from construction sites
    vals, sites = construction_values(ctx, ev, rep)
    rep.floor("R10.1-constructors", sites, 2, "reachable call sites of Rdh0Validator::new (3 on the pinned tree; the default and a specialised/custom one are the minimum)")
    fee_const = "FeeIdSanityValidator::FeeIdSanityValidator(layer_min_max=(%s,%s),stave_number_min_max=(%s,%s))" % (
        hex(K["layer_min_max"][0]), hex(K["layer_min_max"][1]), hex(K["stave_number_min_max"][0]), hex(K["stave_number_min_max"][1]))
    expect = {
        "Rdh0Validator.header_size": {hex(K["header_size"])},
        "Rdh0Validator.priority_bit": {hex(K["priority_bit"])},
        "Rdh0Validator.reserved0": {hex(K["reserved0"])},
        "Rdh0Validator.fee_id": {fee_const},
    }
    for k, exp in expect.items():
        got = vals.get(k, set())
        rep.check(got == exp, "R10.1-const", "R10.1|const|%s" % k,
                  "validator field %s constructed as %s at every site" % (k, sorted(got)), V,
                  "validator field %s takes values %s at its construction/assignment sites, documented constant is %s" % (k, sorted(got), sorted(exp)))
    sysvals = vals.get("Rdh0Validator.system_id", set())
    ok_sys = sysvals and sysvals <= {"Option::None()", "Option::Some(0=%s)" % hex(K["its_system_id"])} and ("Option::Some(0=%s)" % hex(K["its_system_id"])) in sysvals
    rep.check(ok_sys, "R10.1-const", "R10.1|const|system_id", "system_id is None or Some(0x20): %s" % sorted(sysvals), V,
              "system_id validator values %s are not {None, Some(0x20)}" % sorted(sysvals))
    hid = vals.get("Rdh0Validator.header_id", set())
    rep.check(all(h == "Option::None()" or h.startswith("Option::Some(0=sym(") for h in hid) and hid, "R10.1-const", "R10.1|const|header_id",
              "header_id constructed as None or Some(configured version): %s" % sorted(hid), V)

    # ---- R10.1c the validator that is actually built for each configuration (paths through new_from_config,
    #      constructor/specialisation helpers inlined, writes replayed in order)
    rows, problems = validator_configs(ctx)
    for pr in problems:
        rep.bad("R10.1", "R10.1|config|anchor", pr, V)
    rep.floor("R10.1-config-paths", len(rows), 4, "paths through RdhCruSanityValidator::new_from_config")
    bad = []
    for conds, header, system in rows:
        want = "Some(%s)" % hex(K["its_system_id"]) if conds.get("target") else "None"
        if system != want:
            bad.append("%s → system_id reference %s (expected %s)" % (conds, system, want))
    rep.check(not bad and bool(rows), "R10.1", "R10.1|config|system_id", "with an ITS target the RDH0 validator requires system_id 0x20 in every configuration (custom checks or not); without a target it does not", V,
              "the RDH0 validator built by new_from_config has the wrong system-id requirement for some configuration: %s" % bad)

    # ---- R10.1b predicate table
    self0 = Agg("Rdh0Validator", "Rdh0Validator", {
        "header_id": Sym("HEADER_ID_OPT"), "header_size": Bits.const(K["header_size"], 8),
        "fee_id": Agg("FeeIdSanityValidator", "FeeIdSanityValidator", {
            "layer_min_max": (Bits.const(K["layer_min_max"][0], 8), Bits.const(K["layer_min_max"][1], 8)),
            "stave_number_min_max": (Bits.const(K["stave_number_min_max"][0], 8), Bits.const(K["stave_number_min_max"][1], 8))}),
        "priority_bit": Bits.const(K["priority_bit"], 8), "system_id": Sym("SYSTEM_ID_OPT"),
        "reserved0": Bits.const(K["reserved0"], 16)})
    try:
        r1 = ev.const_value(V + "RDH1_VALIDATOR")
        r2 = ev.const_value(V + "RDH2_VALIDATOR")
        r3 = ev.const_value(V + "RDH3_VALIDATOR")
    except Unsupported as e:
        rep.missing("R10.1", "RDHn_VALIDATOR constants (%s)" % e)
        return
    selfv = Agg("RdhCruSanityValidator", "RdhCruSanityValidator",
                {"rdh0_validator": self0, "rdh1_validator": r1, "rdh2_validator": r2, "rdh3_validator": r3})
    entry = V + "RdhCruSanityValidator::<T>::sanity_check"
    if entry not in f.fns:
        rep.missing("R10.1", entry)
        return
    # decided on the cases of the two optional references: both present (every documented condition must appear),
    # both absent (the header-id and system-id conditions must be gone, the header id is learnt)
    def conds_for(hopt, sopt, watch=None):
        self0.fields["header_id"] = hopt
        self0.fields["system_id"] = sopt
        ev.watch = watch
        try:
            recs_ = ev.collect_ifs(entry, [selfv, Obj(root, 0, RC)], follow=lambda c: c.startswith(V) and c.endswith("sanity_check"))
        finally:
            ev.watch = None
        g_, st_ = {}, 0
        recs_ = [o for o in recs_ if not any(x in ("false", "not true") for x in o["guard"])]
        for o in recs_:
            if "cond" not in o:
                continue
            k = ckey(o["cond"])
            if "is_empty" in k:
                st_ += 1
                continue
            if k in ("true", "false"):
                continue
            g = tuple(x for x in o["guard"] if "is_empty" not in x and x not in ("true", "not false"))
            g_.setdefault(k, []).append((o["where"], g))
        return g_, st_, recs_
    some = lambda x: Agg("core::option::Option", "Some", {"0": x})
    none_ = Agg("core::option::Option", "None", {})
    got, structural, _ = conds_for(some(Sym("HEADER_ID")), some(Sym("SYSTEM_ID")))
    got_none, _, recs_none = conds_for(none_, none_, watch=lambda c: c.endswith("Option::<T>::get_or_insert") or c.endswith("Option::<T>::insert") or c.endswith("Option::<T>::get_or_insert_with"))
    opt_keys = {k for k in got if "sym(HEADER_ID)" in k or "sym(SYSTEM_ID)" in k}
    rep.check(set(got_none) == set(got) - opt_keys and len(opt_keys) == 2, "R10.1", "R10.1|cond|optional-references",
              "without a configured/learnt header id and without a target system exactly the header-id and system-id conditions disappear", V,
              "conditions with both references absent: missing %s, extra %s; optional conditions %s" % (sorted(set(got) - opt_keys - set(got_none))[:3], sorted(set(got_none) - set(got))[:3], sorted(opt_keys)))
    hid_bits = ckey(Bits.inp(root, 0, 8)) if False else "{b0..7=%s[7:0]}" % root
    learnt = [o for o in recs_none if ("assign" in o and o.get("place", "").endswith(".header_id") and hid_bits in o["assign"][2]) or
              ("call" in o and len(o["args"]) == 2 and o["args"][1] == hid_bits)]
    rep.check(len(learnt) == 1, "R10.1-const", "R10.1|const|header_id_learn", "the header-id reference is learnt from the first checked RDH0 when unset (%d store)" % len(learnt), V,
              "stores of the checked header id into the unset reference: %s" % [(o.get("assign") or o.get("call")) for o in learnt])
    want = {}
    for ent in orc["sanity_error_conditions"]:
        want[ckey(oracle_cond(ent["cond"], root))] = ent
    for k, ent in want.items():
        if k in got:
            w, g = got[k][0]
            gok = not g
            rep.check(gok and len(got[k]) == 1, "R10.1", "R10.1|cond|%s" % ent["name"], "%s ⇔ %s" % (ent["name"], k), w,
                      "condition for '%s' is guarded by %s / occurs %d times (expected %s)" % (ent["name"], g, len(got[k]), ent.get("guard", "unguarded, once")))
        else:
            rep.bad("R10.1", "R10.1|cond|%s" % ent["name"],
                    "documented RDH sanity rule '%s' has no matching condition in the validators (expected normal form %s)" % (ent["name"], k), V)
    for k, lst in got.items():
        if k not in want:
            rep.bad("R10.1", "R10.1|extra|%s" % k, "RDH sanity validators test an undocumented / altered condition: %s" % k, lst[0][0])
    rep.floor("R10.1", len(got), 17, "RDH sanity conditions")
    # how the conditions are combined: the whole check is evaluated on witness headers — one on which no documented
    # condition holds, and for every condition one on which exactly that condition holds (and one with all of them):
    # Err exactly when at least one holds, whatever helpers build and return the error string
    def on_bits(c):
        """(lo, width, value) making the condition true, or None when it cannot be true for an unsigned field"""
        if "or" in c:
            return next((x for x in (on_bits(y) for y in c["or"]) if x), None)
        if "any" in c:
            hi, lo = c["any"][0]
            return (lo, hi - lo + 1, 1)
        if "none" in c:
            hi, lo = c["none"][0]
            return (lo, hi - lo + 1, 0)
        hi, lo = c["bits"]
        ref = REFS[c["sym"]] if "sym" in c else c["const"]
        if c["cmp"] == "Ne":
            return (lo, hi - lo + 1, ref ^ 1)
        if c["cmp"] == "Gt":
            return (lo, hi - lo + 1, ref + 1) if ref + 1 < (1 << (hi - lo + 1)) else None
        return None
    REFS = {"HEADER_ID": 7, "SYSTEM_ID": K["its_system_id"]}
    good = [(0, 8, 7), (8, 8, K["header_size"]), (40, 8, K["its_system_id"]), (256, 1, 1)]
    ents = [(e["name"], on_bits(e["cond"])) for e in orc["sanity_error_conditions"]]
    wrong = []
    cases = [("none", [])] + [(n_, [b_]) for n_, b_ in ents if b_] + [("all", [b_ for n_, b_ in ents if b_])]
    self0.fields["header_id"] = some(Bits.const(REFS["HEADER_ID"], 8))
    self0.fields["system_id"] = some(Bits.const(REFS["SYSTEM_ID"], 8))
    for name_, on in cases:
        ev.assume = {}
        ev.assume_bits(root, 0, 512, 0)
        for lo_, w_, v_ in good + on:
            ev.assume_bits(root, lo_, w_, v_)
        ev.strings = True
        try:
            r = vkey(ev.call_fn(entry, [selfv, Obj(root, 0, RC)]))
        except Unsupported as e:
            r = "unevaluable %s" % e
        finally:
            ev.assume = {}
            ev.strings = False
        verdict = "Err" if r.startswith("Result::Err(") else ("Ok" if r.startswith("Result::Ok(") else r[:80])
        if verdict != ("Err" if on else "Ok"):
            wrong.append((name_, verdict))
    rep.check(not wrong and len(cases) >= 17, "R10.1-structure", "R10.1|structure|err_str", "the check returns Err exactly when at least one documented condition holds (%d witness headers evaluated)" % len(cases), V,
              "RDH sanity check returns the wrong verdict on witness headers (condition made true, verdict): %s" % wrong[:6])

    # ---- R10.2 running step function
    R = orc["running"]
    last = Agg("core::option::Option", "Some", {"0": Obj("LAST", 0, RC)})
    selfr = Agg("RdhCruRunningChecker", "RdhCruRunningChecker", {
        "expect_pages_counter": Sym("EXPECT"), "expect_pages_counter_increment": Sym("INCR"),
        # steady state: the first two RDHs of the link have been seen (the learning phase is decided separately below)
        "last_rdh_cru": last, "first_rdh_cru": Agg("core::option::Option", "Some", {"0": Obj("FIRSTR", 0, RC)}),
        "second_rdh_cru": Agg("core::option::Option", "Some", {"0": Obj("SECONDR", 0, RC)})})
    if RUN + "check" not in f.fns:
        rep.missing("R10.2", RUN + "check")
        return
    out = ev.collect_ifs(RUN + "check", [selfr, Obj(root, 0, RC)], follow=lambda c: c.startswith(RUN))
    conds = [(ckey(o["cond"]), o["guard"], o["where"]) for o in out if "cond" in o]
    assigns = [(o["assign"], o["guard"], o["where"]) for o in out if "assign" in o]

    def has_cond(key, guard_sub=None):
        for k, g, w in conds:
            if k == key and (guard_sub is None or any(guard_sub == x for x in g)):
                return w
        return None

    def has_assign(a, guard_sub):
        for asg, g, w in assigns:
            if (asg[0], asg[1], asg[2]) == a and any(guard_sub == x for x in g):
                return w
        return None

    # stop-bit / page-counter step function, decided on witness headers: check() is evaluated for every stop_bit value
    # (all 256) × page counter as expected / off by one, on an otherwise all-zero header following an all-zero header
    # (every other running rule is then silent): the verdict and the new expected page counter are compared with the
    # documented step function — independent of how the match / ifs / helpers / error strings are written
    sb_lo, sb_w = R["stop_bit_1"]["guard"]["bits"][1], R["stop_bit_1"]["guard"]["bits"][0] - R["stop_bit_1"]["guard"]["bits"][1] + 1
    pc_hi, pc_lo = R["stop_bit_0"]["cond"]["bits"]
    EXP, INC = 5, 3
    step_bad = {"stop_bit_0|compare": [], "stop_bit_0|update": [], "stop_bit_1|compare": [], "stop_bit_1|update": [], "stop_bit|other": []}
    n_step = 0
    for v in range(1 << sb_w):
        for pages in (EXP, EXP + 1):
            ev.assume = {}
            for r_ in (root, "LAST", "FIRSTR", "SECONDR"):
                ev.assume_bits(r_, 0, 512, 0)
            ev.assume_bits(root, sb_lo, sb_w, v)
            ev.assume_bits(root, pc_lo, pc_hi - pc_lo + 1, pages)
            slf_ = Agg("RdhCruRunningChecker", "RdhCruRunningChecker", dict(selfr.fields, expect_pages_counter=Bits.const(EXP, 16), expect_pages_counter_increment=Bits.const(INC, 16)))
            ev.strings = True
            try:
                r_ = vkey(ev.call_fn(RUN + "check", [slf_, Obj(root, 0, RC)]))
                verdict = "Err" if r_.startswith("Result::Err(") else ("Ok" if r_.startswith("Result::Ok(") else r_[:60])
                recs_ = [o for o in ev.collect_ifs(RUN + "check", [slf_, Obj(root, 0, RC)], follow=lambda c: c.startswith(RUN))
                         if "assign" in o and (o.get("place") or "").endswith(".expect_pages_counter") and not any(x in ("false", "not true") for x in o["guard"])]
            except Unsupported as e:
                verdict, recs_ = "unevaluable %s" % e, []
            finally:
                ev.assume = {}
                ev.strings = False
            newv = EXP
            undec = False
            for o in recs_:
                if any(x not in ("true", "not false") for x in o["guard"]):
                    undec = True
                op_, l_, r2_ = o["assign"][:3]
                try:
                    newv = int(r2_, 16) if op_ == "=" else ((newv + int(r2_, 16)) & 0xffff if op_ == "AddAssign" else None)
                except (TypeError, ValueError):
                    newv = None
            n_step += 1
            want_v = "Err" if (v > 1 or pages != EXP) else "Ok"
            want_n = (EXP + INC) if v == 0 else (0 if v == 1 else EXP)
            key_c = "stop_bit_%d|compare" % v if v in (0, 1) else "stop_bit|other"
            key_u = "stop_bit_%d|update" % v if v in (0, 1) else "stop_bit|other"
            if verdict != want_v:
                step_bad[key_c].append("stop_bit=%d pages_counter=%s: verdict %s, expected %s" % (v, "expected" if pages == EXP else "expected+1", verdict, want_v))
            if undec or newv != want_n:
                step_bad[key_u].append("stop_bit=%d pages_counter=%s: expected page counter %d → %s, documented %d" % (v, "expected" if pages == EXP else "expected+1", EXP, "undecided" if undec else newv, want_n))
    for v in (0, 1):
        rep.check(not step_bad["stop_bit_%d|compare" % v], "R10.2", "R10.2|stop_bit_%d|compare" % v, "stop_bit == %d: error iff pages_counter != expected" % v, RUN,
                  "running check with stop_bit == %d: %s" % (v, step_bad["stop_bit_%d|compare" % v][:3]))
        upd = tuple("sym(%s)" % x if x in ("EXPECT", "INCR") else x for x in R["stop_bit_%d" % v]["update"])
        rep.check(not step_bad["stop_bit_%d|update" % v], "R10.2", "R10.2|stop_bit_%d|update" % v, "stop_bit == %d: the expected page counter becomes %s" % (v, "expected + increment" if v == 0 else "0"), RUN,
                  "running check with stop_bit == %d: %s (documented update %s)" % (v, step_bad["stop_bit_%d|update" % v][:3], upd))
    rep.check(not step_bad["stop_bit|other"] and n_step == 2 << sb_w, "R10.2", "R10.2|stop_bit|other",
              "every other stop_bit value (%d values): always an error, expected page counter untouched" % ((1 << sb_w) - 2), RUN,
              "stop_bit values that are neither 0 nor 1 are not reported unconditionally or touch the expected page counter: %s" % step_bad["stop_bit|other"][:4])
    # increment learnt from the 2nd RDH
    # decided on the three phases of a link: no RDH seen yet / one seen / steady state — the increment is stored
    # exactly in the second phase, from the RDH being checked
    none_o = Agg("core::option::Option", "None", {})
    some_o = lambda nm: Agg("core::option::Option", "Some", {"0": Obj(nm, 0, RC)})
    learn = {}
    for phase, (fst, snd) in (("first", (none_o, none_o)), ("second", (some_o("FIRSTR"), none_o)), ("steady", (some_o("FIRSTR"), some_o("SECONDR")))):
        slf_ = Agg("RdhCruRunningChecker", "RdhCruRunningChecker", dict(selfr.fields, first_rdh_cru=fst, second_rdh_cru=snd))
        recs_ = [o for o in ev.collect_ifs(RUN + "check", [slf_, Obj(root, 0, RC)], follow=lambda c: c.startswith(RUN)) if not any(x in ("false", "not true") for x in o["guard"])]
        learn[phase] = [(o["assign"][2], [g for g in o["guard"] if g not in ("true", "not false")]) for o in recs_
                        if "assign" in o and o.get("place", "").endswith(".expect_pages_counter_increment") and o["assign"][0] == "="]
    ok_l = learn["first"] == [] and learn["steady"] == [] and len(learn["second"]) == 1 and not learn["second"][0][1] \
        and ("Obj(%s+0" % root) in learn["second"][0][0] and "LAST" not in learn["second"][0][0] and "FIRSTR" not in learn["second"][0][0]
    rep.check(ok_l, "R10.2", "R10.2|increment|learn", "the page-counter increment is learnt exactly once, from the second RDH of the link", RUN,
              "stores to the increment per phase (first RDH / second RDH / later): %s" % {k_: [(v_[0][:80], v_[1]) for v_ in vs_] for k_, vs_ in learn.items()})
    # orbit rule
    o_and = R["orbit_same_after_stop"]["and"]
    k_or = ckey(Evaluator(None).logic("and",
                                       oracle_cond({"cmp": "Eq", "bits": o_and[0]["bits"], "const": 1}, "LAST"),
                                       Cond("cmp", "Eq", Bits.inp("LAST", 160, 32), Bits.inp(root, 160, 32))))
    w = has_cond(k_or)
    rep.check(w is not None, "R10.2", "R10.2|orbit|after_stop", "error iff previous stop_bit==1 and same orbit: %s" % k_or, w or RUN,
              "orbit rule not found in expected normal form %s; conditions seen: %s" % (k_or, [c[0] for c in conds if "LAST" in c[0]][:6]))
    # same-HBF rules
    pg = ckey(oracle_cond(R["page_not_0_guard"], root))
    for hi, lo in R["same_hbf_error_fields"] + R["same_hbf_warning_fields"]:
        k = ckey(Cond("cmp", "Ne", Bits.inp(root, lo, hi - lo + 1), Bits.inp("LAST", lo, hi - lo + 1)))
        w = has_cond(k, pg)
        rep.check(w is not None, "R10.2", "R10.2|same_hbf|%d:%d" % (hi, lo), "pages_counter != 0 ⇒ field [%d:%d] compared with previous RDH" % (hi, lo), w or RUN,
                  "same-HBF comparison of RDH bits [%d:%d] with the previous RDH under pages_counter != 0 not found" % (hi, lo))
    extra = [c for c in conds if "LAST" in c[0] and "Ne(" in c[0] and c[0] not in
             {ckey(Cond("cmp", "Ne", Bits.inp(root, lo, hi - lo + 1), Bits.inp("LAST", lo, hi - lo + 1))) for hi, lo in R["same_hbf_error_fields"] + R["same_hbf_warning_fields"]}]
    rep.check(not extra, "R10.2", "R10.2|same_hbf|extra", "no undocumented cross-RDH comparison", RUN, "undocumented comparisons: %s" % extra)
    # detector field is a warning only: its then-branch must not touch err_str → check via MIR: block writes
    # (approximated: the condition's then-branch contains a log macro and no write_fmt on err_str)
    _check_detfield_warning(ctx, ev, rep)

    # ---- R10.2 ordering: last_rdh_cru updated after the three checks, on all paths
    b = ctx.cg().body(RUN + "check") if RUN + "check" in f.fns else None
    if b:
        chk_blocks = [bb for bb, t, p, c in b.calls() if p and p.startswith(RUN + "check_")]
        asg = [i for i, j, s in b.stmts() if s["k"] == "assign" and any(isinstance(e, list) and e[0] == "f" and e[2] == "last_rdh_cru" for e in s["lhs"].get("p", []))]
        rep.check(len(chk_blocks) == 3, "R10.2", "R10.2|check|three_subchecks", "check() calls the three sub-checks (%d)" % len(chk_blocks), RUN)
        okord = bool(asg) and all(all(b.dominates(c, a) for c in chk_blocks) for a in asg)
        rep.check(okord, "R10.2", "R10.2|last_rdh|after_checks", "last_rdh_cru is stored after all three sub-checks ran", RUN,
                  "store to last_rdh_cru is not dominated by the three sub-check calls (the orbit/same-HBF rules would compare the RDH with itself)")
        rets = b.return_blocks()
        rep.check(bool(asg) and b.all_paths_pass(0, asg), "R10.2", "R10.2|last_rdh|all_paths", "last_rdh_cru stored on all paths of check()", RUN)

    # ---- R10.3 reporting at the packet's offset, running only under running_checks
    LV = "fastpasta::analyze::validators::link_validator::LinkValidator::<T, C>::"
    if LV + "do_rdh_checks" in f.fns:
        b = ctx.cg().body(LV + "do_rdh_checks")
        reps = [(bb, t) for bb, t, p, c in b.calls() if p == LV + "report_rdh_error"]
        rep.floor("R10.3", len(reps), 2, "report_rdh_error call sites in do_rdh_checks")
        for bb, t in reps:
            o = b.origin(t["args"][3])
            rep.check(o == ("param", 3, ()), "R10.3", "R10.3|offset|bb%d" % len([x for x in reps if x[0] <= bb]),
                      "report_rdh_error gets do_rdh_checks' own rdh_mem_pos parameter", LV + "do_rdh_checks",
                      "offset argument of report_rdh_error is %r, not the packet offset parameter" % (o,))
            o1 = b.origin(t["args"][1])
            rep.check(o1 == ("param", 2, ()), "R10.3", "R10.3|rdh|bb%d" % len([x for x in reps if x[0] <= bb]),
                      "report_rdh_error gets the checked RDH", LV + "do_rdh_checks")
        # running check call is control dependent on self.running_checks
        run_calls = [bb for bb, t, p, c in b.calls() if p and p.endswith("RdhCruRunningChecker::<T>::check")]
        san_calls = [bb for bb, t, p, c in b.calls() if p and p.endswith("RdhCruSanityValidator::<T>::sanity_check")]
        rep.check(len(run_calls) == 1 and len(san_calls) == 1, "R10.3", "R10.3|calls", "one sanity and one running check call", LV + "do_rdh_checks")
        sw = [(i, blk["t"]) for i, blk in enumerate(b.blocks) if blk["t"] and blk["t"]["k"] == "switch"]
        guarded = False
        for i, t in sw:
            o = b.origin(t["d"])
            if o[0] == "param" and o[2] and o[2][-1] == ".running_checks":
                # running call only reachable through the non-zero edge
                zero_targets = [v[1] for v in t["vals"] if v[0] == 0]
                reach0 = set()
                for z in zero_targets:
                    reach0 |= b.reachable_from(z)
                if run_calls and run_calls[0] not in reach0 and run_calls[0] in b.reachable_from(t["else"]):
                    guarded = True
                if san_calls and not b.dominates(san_calls[0], i):
                    guarded = False
        rep.check(guarded, "R10.3", "R10.3|running_guard", "running check only under self.running_checks; sanity check unconditional", LV + "do_rdh_checks",
                  "the running RDH check is not guarded by self.running_checks (or the sanity check became conditional)")
    else:
        rep.missing("R10.3", LV + "do_rdh_checks")


def _check_detfield_warning(ctx, ev, rep):
    f = ctx.facts()
    p = RUN + "check_orbit_trigger_det_field_feeid_same_when_page_not_0"
    tb = ev.tb(p)
    if not tb:
        rep.missing("R10.2", p)
        return
    n_err, n_warn = 0, 0
    for i, n in tb.walk():
        if n["k"] != "If":
            continue
        # does the then-branch call write_fmt (error string) or only log?
        has_write = any((c.get("fn") or "").endswith("Write::write_fmt") for _, c in tb.calls(n["then"]))
        ci, cn = tb.e(n["cond"])
        if cn["k"] == "Binary" and cn["op"] == "Ne" and tb.node(cn["r"])["k"] != "Lit":
            txt = str(tb.exprs[cn["l"]]) + str(tb.node(cn["l"]))
            # identify detector field comparison by the field name in the lhs subtree
            names = [x.get("name") for _, x in tb.walk(cn["l"]) if x["k"] == "Field"]
            if "detector_field" in names:
                n_warn += 1
                rep.check(not has_write, "R10.2", "R10.2|same_hbf|detector_field_warning",
                          "detector-field change only logs a warning", where(n.get("sp")),
                          "detector-field change now contributes to the [E11] error string (documented as warning only)")
            elif has_write:
                n_err += 1
    rep.check(n_err == 3 and n_warn == 1, "R10.2", "R10.2|same_hbf|error_fields", "3 error fields + 1 warning field (%d/%d)" % (n_err, n_warn), p)


# ------------------------------------------------------------------ validator per configuration (shared with C20)
def validator_configs(ctx):
    """Every acyclic path through RdhCruSanityValidator::new_from_config (local constructor/specialisation helpers
    inlined) → the configuration tests taken and the final (header_id, system_id) reference of the RDH0 validator,
    obtained by replaying the writes to that validator in path order.  Returns (rows, problems)."""
    import re
    import sys
    from ..mir import inline_fn, Body, show_origin, callee_of
    f = ctx.facts()
    P = V + "RdhCruSanityValidator::<T>::new_from_config"
    if P not in f.fns:
        return [], ["anchor not found: %s" % P]
    pref = (V + "RdhCruSanityValidator::<T>::", "<" + V + "RdhCruSanityValidator<T> as")
    # constructor helpers of the RDH0 validator are inlined too (everything but `new`, which is the recorded event)
    pref0 = (V + "Rdh0Validator::", "<" + V + "Rdh0Validator as")
    b = Body(inline_fn(f, P, lambda c: c.startswith(pref) or (c.startswith(pref0) and not c.endswith("Rdh0Validator::new") and not c.endswith("::sanity_check")), max_depth=4))
    rets = set(b.return_blocks())
    problems = []

    def opt(o):
        s = show_origin(o)
        if s == "core::option::Option{}":
            return "None"
        m = re.fullmatch(r"core::option::Option\{(.*)\}", s)
        if m:
            inner = m.group(1)
            if "rdh_version(arg1)" in inner:
                return "Some(rdh_version)"
            return "Some(%s)" % inner
        return s

    events_at = {}
    for x in b.live_blocks():
        evs = []
        for st in b.blocks[x]["s"]:
            if st["k"] == "assign":
                names = [e[2] for e in st["lhs"].get("p", []) if isinstance(e, list) and e[0] == "f" and len(e) > 2]
                if names[-2:] == ["rdh0_validator", "system_id"] or names[-1:] == ["system_id"] and "rdh0_validator" in names:
                    evs.append(("system_id", opt(b.origin(st["rv"]["op"])) if st["rv"]["k"] == "use" else "?"))
                elif names[-2:] == ["rdh0_validator", "header_id"]:
                    evs.append(("header_id", opt(b.origin(st["rv"]["op"])) if st["rv"]["k"] == "use" else "?"))
                elif names[-1:] == ["rdh0_validator"] and st["rv"]["k"] == "use":
                    # the whole RDH0 validator is replaced: fine when the value is a recorded construction, unknown otherwise
                    so_ = show_origin(b.origin(st["rv"]["op"]))
                    if "Rdh0Validator::new(" not in so_ and "Rdh0Validator as core::default::Default>::default(" not in so_ and "Rdh0Validator{" not in so_:
                        evs.append(("new", "?(%s)" % so_[:60], "?(%s)" % so_[:60]))
        t = b.blocks[x]["t"]
        if t["k"] == "call":
            cal = callee_of(t)[0] or ""
            if cal.endswith("rdh::Rdh0Validator::new"):
                evs.append(("new", opt(b.origin(t["args"][0])), opt(b.origin(t["args"][4]))))
            elif cal.endswith("Rdh0Validator as core::default::Default>::default"):
                evs.append(("new", "None", "None"))
        if evs:
            events_at[x] = evs
    rows = []
    sys.setrecursionlimit(10000)

    def walk(x, path, conds):
        if len(rows) > 400:
            return
        if x in rets:
            header = system = None
            for y in path + [x]:
                for e in events_at.get(y, []):
                    if e[0] == "new":
                        header, system = e[1], e[2]
                    elif e[0] == "system_id":
                        system = e[1]
                    elif e[0] == "header_id":
                        header = e[1]
            rows.append((dict(conds), header, system))
            return
        t = b.blocks[x]["t"]
        if t["k"] == "switch":
            so = show_origin(b.origin(t["d"]))
            label = None
            if "custom_checks_enabled(arg1)" in so:
                label = "custom"
            elif so.startswith("discr(") and "::target(" in so and "@Some" not in so:
                label = "target"
            elif so.startswith("discr(") and "rdh_version(arg1)" in so:
                label = "version"
            edges = [(v[0], v[1]) for v in t["vals"]] + [("else", t["else"])]
            for val, nxt in edges:
                if nxt in path or nxt == x:
                    continue
                c2 = conds
                if label:
                    explicit = [v[0] for v in t["vals"]]
                    truth = (val != 0) if val != "else" else (0 in explicit)
                    c2 = conds + [(label, truth)]
                walk(nxt, path + [x], c2)
            return
        for s_ in b.succ[x]:
            if s_ not in path and s_ != x:
                walk(s_, path + [x], conds)

    walk(0, [], [])
    if not rows:
        problems.append("no path through new_from_config reaches a return")
    return rows, problems
