"""C06 — each link is validated as if it were alone.

Decided (non-interference by construction): the type closure of
LinkValidator<T, C> holds no shared mutable state (no Arc/Rc/Mutex/RwLock/
RefCell/Cell/atomics/raw pointers; only the statistics Sender, its own input
Receiver and &'static configuration) (R6.1); every `static` is an immutable
OnceLock and validator code only reads the configuration cells (R6.2); packets
are routed only by their own link/FEE identifier to the channel at the
identifier's own index, the two parallel vectors are filled pairwise, and the
dispatch key is FEE ID exactly in its-stave mode (R6.3); each packet is sent
exactly once and consumed in order (R6.4); filter, dispatcher and layer/stave
extractors use the same masks (R6.5).  External crate types are allow-listed
by reading, not analysed."""
import re

from ..mir import callee_of, origin_calls, show_origin
from ..thir import Evaluator, Bits, Cond, Sym, ckey, vkey, Unsupported
from ..facts import where

EXPLANATION = __doc__
LV = "fastpasta::analyze::validators::link_validator::LinkValidator"
VD = "fastpasta::analyze::validators::validator_dispatcher::ValidatorDispatcher::<T, C>::"
FORBIDDEN = ("alloc::sync::Arc", "alloc::rc::Rc", "std::sync::mutex::Mutex", "std::sync::poison::mutex::Mutex", "std::sync::rwlock::RwLock", "std::sync::poison::rwlock::RwLock",
             "core::cell::RefCell", "core::cell::Cell", "core::cell::UnsafeCell", "core::sync::atomic::Atomic", "core::sync::atomic::AtomicBool", "core::sync::atomic::AtomicUsize",
             "std::sync::once_lock::OnceLock", "core::cell::once::OnceCell", "std::sync::mpsc::Sender", "std::sync::mpsc::Receiver")
ALLOWED_EXTERNAL = {
    "alloc::string::String": "owned", "alloc::vec::Vec": "owned", "alloc::alloc::Global": "allocator marker", "core::option::Option": "owned", "core::marker::PhantomData": "zero-sized",
    "alloc::boxed::Box": "owned", "ringbuffer::with_const_generics::ConstGenericRingBuffer": "owned fixed-size buffer of the validator's own previous RDHs",
    "crossbeam_channel::channel::Receiver": "the validator's own input queue (single consumer)", "flume::Sender": "statistics output only (never read back)",
    "core::ops::range::RangeInclusive": "constant", "sm::NoneEvent": "zero-sized marker of the sm! state-machine macro",
}


def run(ctx, rep):
    f = ctx.facts()
    cg = ctx.cg()
    reach = ctx.reachable()
    ev = Evaluator(f)

    # ---------- R6.1 type closure
    seen = {}
    work = [(LV, "LinkValidator")]
    n_fields = 0
    while work:
        a, via = work.pop()
        if a in seen:
            continue
        seen[a] = via
        ad = f.adts.get(a)
        if not ad:
            continue
        for v in ad["variants"]:
            for fd in v["fields"]:
                n_fields += 1
                ts = fd["ty"]["s"]
                path = "%s.%s" % (via, fd["name"])
                if "*const" in ts or "*mut" in ts:
                    rep.bad("R6.1", "R6.1|rawptr|%s" % path, "field %s: %s holds a raw pointer" % (path, ts), where(ad["span"]))
                if "&" in ts and "&'static" not in ts and not a.endswith("LaneAlpideFrameAnalyzer"):
                    rep.bad("R6.1", "R6.1|borrow|%s" % path, "field %s: %s borrows non-static data" % (path, ts), where(ad["span"]))
                if "&'static mut" in ts:
                    rep.bad("R6.1", "R6.1|static_mut|%s" % path, "field %s is a &'static mut" % path, where(ad["span"]))
                for x in fd["ty"].get("adts", []):
                    if x in f.adts:
                        work.append((x, path))
                    elif any(x == fb or x.startswith(fb + "<") for fb in FORBIDDEN):
                        rep.bad("R6.1", "R6.1|shared|%s|%s" % (path, x.split("::")[-1]), "validator state %s: %s contains %s — state that another thread can observe or mutate" % (path, ts, x), where(ad["span"]))
                    elif x in ALLOWED_EXTERNAL:
                        pass
                    else:
                        rep.bad("R6.1", "R6.1|unknown_type|%s|%s" % (path, x), "validator state %s uses external type %s which is not on the reviewed allow-list" % (path, x), where(ad["span"]))
    rep.check(len(seen) >= 12 and n_fields >= 40, "R6.1", "R6.1|closure", "type closure of LinkValidator: %d local types, %d fields scanned, no shared mutable state" % (len([s for s in seen if s in f.adts]), n_fields), LV,
              "type closure unexpectedly small (%d types, %d fields): anchor missing" % (len(seen), n_fields))
    rep.extra["closure_types"] = sorted(s.split("::")[-1] for s in seen if s in f.adts)
    # flume::Sender only for StatType; the Receiver only for the CDP tuple
    lv = f.adts.get(LV)
    if lv:
        tys = {fd["name"]: fd["ty"]["s"] for fd in lv["variants"][0]["fields"]}
        rep.check(tys.get("stats_send", "").startswith("flume::Sender<fastpasta::stats::StatType>"), "R6.1", "R6.1|sender_is_stats", "the only Sender in the validator is the statistics channel", LV)
        rep.check(tys.get("config", "") == "&'static C", "R6.1", "R6.1|config_static", "configuration is a shared immutable &'static", LV)

    # ---------- R6.2 statics
    n_static = 0
    for k, v in f.consts.items():
        if not v["kind"].startswith("Static"):
            continue
        n_static += 1
        ok = not v.get("mutable") and v["ty"]["s"].startswith("std::sync::once_lock::OnceLock<")
        rep.check(ok, "R6.2", "R6.2|static|%s" % k.split("::")[-1] + ("|" + k.split("::")[-2] if k.split("::")[-1] in ("DEFAULT_VALUE", "RE") else ""),
                  "static %s is an immutable OnceLock" % k.split("::")[-1], where(v["span"]),
                  "static %s: %s%s — mutable or interior-mutable global state shared by all validator threads" % (k, "mut " if v.get("mutable") else "", v["ty"]["s"]))
    rep.floor("R6.2", n_static, 3, "static items")
    roles, sp = ctx.roles()
    vfns = roles.get("dispatch_by_id", set())
    allowed_static = {"fastpasta::config::CONFIG", "fastpasta::config::CUSTOM_CHECKS"}
    used = {}
    for p in vfns:
        fn = f.fns[p]
        t = fn.get("thir")
        if not t:
            continue
        for n in t["exprs"]:
            if n["k"] == "StaticRef":
                used.setdefault(n["def"], set()).add(p)
    extra = {k: v for k, v in used.items() if k not in allowed_static}
    rep.check(not extra, "R6.2", "R6.2|validator_statics", "validator threads read only the configuration cells %s" % sorted(x.split("::")[-1] for x in used), "validators",
              "validator code accesses static(s) %s" % {k: sorted(v)[:2] for k, v in extra.items()})
    rep.floor("R6.2-validator-fns", len(vfns), 200, "functions in the validator role")
    # writers of the config cells: only init (set / get_or_init)
    for path, bb, t, cal, c in cg.call_sites(lambda c: c.endswith("OnceLock::<T>::set") or c.endswith("OnceLock::<T>::get_or_init") or c.endswith("OnceLock::<T>::take") or c.endswith("OnceLock::<T>::get_mut"), within=reach):
        okp = path in ("fastpasta::config::init_config", "fastpasta::config::Cfg::handle_custom_checks") or "extract_unique_error_codes" in path or "clap_builder" in path
        rep.check(okp, "R6.2", "R6.2|cell_writer|%s" % path.split("::")[-1], "OnceLock written during initialisation only (%s)" % path.split("::")[-1], path,
                  "%s writes a global cell (%s) outside start-up" % (path, cal.split("::")[-1]))

    # ---------- R6.3 routing
    # the per-packet step of dispatch_cdp_batch (the `for_each` closure or, written as a loop, the function itself) is
    # evaluated for each kind of dispatch key with one packet (RDHV, DATA, POS) substituted: exactly one call of
    # dispatch_by_id, with the packet's own parts unchanged and the key built from the packet's own fee_id() / link_id()
    from ..thir import Evaluator as _Ev, Agg as _Agg, Sym as _Sym, vkey as _vkey, Unsupported as _Uns
    ev = _Ev(f)
    dfn = VD + "dispatch_cdp_batch"
    cands = [q for q in [dfn + "::{closure#0}", dfn] if q in f.fns and ev.tb(q) is not None
             and any((c.get("res") or c.get("fn") or "") == VD + "dispatch_by_id" for _, c in ev.tb(q).calls())]
    DID = next((a_ for a_ in sorted(f.adts) if a_.endswith("validator_dispatcher::DispatchId")), None)
    if cands and DID:
        dcb = cands[0]
        pkt = (_Sym("RDHV"), _Sym("DATA"), _Sym("POS"))
        got = {}
        for variant in ("FeeId", "GbtLink"):
            slf = _Agg("ValidatorDispatcher", "ValidatorDispatcher", {"dispatch_by": _Agg(DID, variant, {"0": _Sym("K")})})
            ev.by_name = {"self": slf}
            ev.call_hooks = [(lambda fn_, r_: (r_ or fn_).endswith("Iterator>::next") or fn_.endswith("Iterator::next"), lambda n, a_: _Agg("core::option::Option", "Some", {"0": pkt})),
                             (lambda fn_, r_: fn_.endswith("::fee_id"), lambda n, a_: _Sym("FEE_ID_OF:" + _vkey(a_[0]))),
                             (lambda fn_, r_: fn_.endswith("::link_id"), lambda n, a_: _Sym("LINK_ID_OF:" + _vkey(a_[0])))]
            ev.watch = lambda c: c == VD + "dispatch_by_id"
            try:
                out = ev.collect_ifs(dcb, [_Sym("ENV"), pkt] if "{closure" in dcb else [slf, _Sym("BATCH")])
                got[variant] = [(tuple(o["args"][1:]), tuple(g for g in o["guard"] if g not in ("true", "not false"))) for o in out
                                if "call" in o and not o.get("closure") and not any(g in ("false", "not true") for g in o["guard"])]
            except _Uns as e:
                got[variant] = [(("unevaluable: %s" % e,), ())]
            finally:
                ev.by_name = {}
                ev.call_hooks = []
                ev.watch = None
        ids_ok = {"FeeId": ("DispatchId::FeeId(0=sym(FEE_ID_OF:sym(RDHV)))",),
                  "GbtLink": ("DispatchId::GbtLink(0=sym(cast(sym(LINK_ID_OF:sym(RDHV)) as u16)))", "DispatchId::GbtLink(0=sym(LINK_ID_OF:sym(RDHV)))")}
        ok_id = all(len(got[v_]) == 1 and got[v_][0][0][-1] in ids_ok[v_] for v_ in got)
        rep.check(ok_id, "R6.3", "R6.3|dispatch_id_source", "the dispatch id is the packet's own fee_id() / link_id()", dcb, "dispatch ids are built as %s" % {v_: [x[0][-1:] for x in got[v_]] for v_ in got})
        ok_t = all(len(got[v_]) == 1 and got[v_][0][0][:3] == ("sym(RDHV)", "sym(DATA)", "sym(POS)") and got[v_][0][1] == () for v_ in got)
        rep.check(ok_t, "R6.3", "R6.3|dispatch_passes_tuple", "every packet of the batch is dispatched once with its own (rdh, payload, offset)", dcb, "dispatch_by_id calls per key kind: %s" % got)
        rep.check(ok_id and {got[v_][0][0][-1].split("(")[0] for v_ in got} == {"DispatchId::FeeId", "DispatchId::GbtLink"}, "R6.3", "R6.3|dispatch_by_selects",
                  "the key kind is selected by the per-run constant dispatch_by", dcb, "key kinds per value of dispatch_by: %s" % {v_: [x[0][-1].split("(")[0] for x in got[v_]] for v_ in got})
    else:
        rep.missing("R6.3", dfn + " (per-packet step calling dispatch_by_id)")
    dbi = VD + "dispatch_by_id"
    if dbi in f.fns:
        # helper methods of the dispatcher are inlined: the rules speak about events (position lookup,
        # channel selection, send, push), not about how dispatch_by_id is split into functions
        from ..mir import Body, inline_fn, path_count_range
        b = Body(inline_fn(f, dbi, lambda c: c.startswith(VD)))
        pos = [(bb, t) for bb, t, cal, c in b.calls() if cal and cal.endswith("::position")]
        ok = len(pos) == 1 and "processors" in show_origin(b.origin(pos[0][1]["args"][0]))
        rep.check(ok, "R6.3", "R6.3|lookup", "the packet's id is looked up in `processors` (position)", dbi, "position() sites: %d" % len(pos))
        clo = dbi + "::{closure#0}"
        if clo in f.fns:
            cb = cg.body(clo)
            eqs = [show_origin(cb.origin(t["args"][k])) for bb, t, cal, c in cb.calls() if cal and cal.endswith("PartialEq>::eq") for k in (0, 1)]
            rep.check(len(eqs) == 2 and any("arg2" in e for e in eqs) and any("arg1" in e for e in eqs), "R6.3", "R6.3|position_predicate", "position() compares each stored id with the packet's id", clo, "closure compares %s" % eqs)
        sends = [(bb, t) for bb, t, cal, c in b.calls() if cal == "crossbeam_channel::channel::Sender::<T>::send"]
        pushes = [bb for bb, t, cal, c in b.calls() if cal and cal.endswith("Vec::<T, A>::push") and show_origin(b.origin(t["args"][0])).endswith(".process_channels")]
        rets = b.return_blocks()
        r = path_count_range(b, 0, rets, [x[0] for x in sends]) if rets else None
        rep.check(r == (1, 1), "R6.4", "R6.4|exactly_once", "every path through dispatch_by_id sends the packet to exactly one channel, once (%d send site(s))" % len(sends), dbi,
                  "number of channel sends on the paths through dispatch_by_id: %s (must be exactly 1)" % (r,))
        kinds = []
        for bb, t in sends:
            o = b.origin(t["args"][1])
            comps = [show_origin(x) for x in o[2]] if isinstance(o, tuple) and o and o[0] == "agg" else [show_origin(o)]
            rep.check(comps == ["arg2", "arg3", "arg4"], "R6.4", "R6.4|payload_unchanged|%d" % sends.index((bb, t)), "the tuple sent is (rdh, data, mem_pos) unchanged", dbi, "sent tuple: %s" % comps)
            ch = show_origin(b.origin(t["args"][0]))
            if "<impl [T]>::get(" in ch and "process_channels" in ch:
                gets = [c_ for c_ in origin_calls(b.origin(t["args"][0])) if c_[1] and c_[1].endswith("<impl [T]>::get")]
                # the index may be one value per send site, or one variable fed from both branches of the lookup:
                # every reaching definition is classified
                gterm = b.blocks[gets[0][3]]["t"] if gets else None
                idx_origins = b.origins(gterm["args"][1]) if gterm else []
                for io in idx_origins or [None]:
                    idx = show_origin(io) if io is not None else "?"
                    if io is not None and "position(" in idx and pos and any(c_[3] == pos[0][0] for c_ in origin_calls(io)):
                        kinds.append("found")
                    elif re.search(r"len\(&?arg1\*?\.process_channels\) (SubWithOverflow|-|Sub) 0x1\)(\.0)?$", idx):
                        lens = [c_[3] for c_ in origin_calls(io) if c_[1] and c_[1].endswith("::len")]
                        kinds.append("new" if pushes and lens and all(b.dominates(p_, l_) for p_ in pushes for l_ in lens) else "new-without-push")
                    else:
                        kinds.append("other:" + idx[:80])
            elif "<impl [T]>::last(" in ch and "process_channels" in ch:
                kinds.append("new" if pushes and all(b.dominates(p_, bb) for p_ in pushes) else "new-without-push")
            else:
                kinds.append("other:" + ch[:80])
        rep.check(sorted(kinds) == ["found", "new"], "R6.3", "R6.3|index_alignment",
                  "a known id uses process_channels[position of the id]; a new id uses the channel just pushed for it", dbi,
                  "channel selection of the send sites: %s — the id↔channel alignment is not preserved" % kinds)
        # the lookup result decides between the two
        if pos and len(sends) == 2:
            found_bb = [x[0] for x, k_ in zip(sends, kinds) if k_ == "found"]
            new_bb = [x[0] for x, k_ in zip(sends, kinds) if k_ == "new"]
            ok = bool(found_bb) and bool(new_bb) and b.dominates(pos[0][0], found_bb[0]) and b.dominates(pos[0][0], new_bb[0]) and all(not b.dominates(p_, found_bb[0]) for p_ in pushes)
            rep.check(ok, "R6.3", "R6.3|new_only_when_unknown", "a validator is created only when the lookup failed", dbi)
        elif pos and len(sends) == 1 and pushes:
            # one send fed from both branches: the creation (push) lies after the lookup and is bypassed on the found path
            ok = all(b.dominates(pos[0][0], p_) for p_ in pushes) and not b.all_paths_pass(pos[0][0], pushes, to=[sends[0][0]])
            rep.check(ok, "R6.3", "R6.3|new_only_when_unknown", "a validator is created only when the lookup failed", dbi)
    else:
        rep.missing("R6.3", dbi)
    iv = VD + "init_validator"
    if iv in f.fns:
        b = cg.body(iv)
        pushes = {}
        for bb, t, cal, c in b.calls():
            if cal and cal.endswith("Vec::<T, A>::push"):
                so = show_origin(b.origin(t["args"][0]))
                for fld in ("processors", "process_channels"):
                    if so.endswith("." + fld):
                        pushes.setdefault(fld, []).append(bb)
        ok = set(pushes) == {"processors", "process_channels"} and all(len(v) == 1 and b.all_paths_pass(0, v) for v in pushes.values())
        rep.check(ok, "R6.3", "R6.3|pairwise_push", "init_validator pushes exactly one id and one channel on every path", iv, "pushes: %s" % pushes)
    # who may write the two vectors
    for fld, allowed in (("processors", {iv}), ("process_channels", {iv, VD + "join"})):
        wr = set()
        for p in reach:
            if not p.startswith(VD.rsplit("::", 2)[0]):
                continue
            b = cg.body(p)
            for bb, t, cal, c in b.calls():
                if cal and t["args"] and any(cal.endswith(x) for x in ("::push", "::clear", "::remove", "::insert", "::swap_remove", "::pop", "::truncate", "::retain", "::drain", "::swap", "::sort")):
                    if show_origin(b.origin(t["args"][0])).endswith("." + fld):
                        wr.add(p)
        rep.check(wr == allowed, "R6.3", "R6.3|writers|%s" % fld, "%s is modified only by %s" % (fld, sorted(x.split("::")[-1] for x in wr)), VD,
                  "%s is modified by %s (reviewed: %s): the id↔channel alignment can break" % (fld, sorted(wr), sorted(allowed)))
    # dispatch_by is FeeId iff target is ITS_Stave
    nw = VD + "new"
    tb = ev.tb(nw)
    if tb:
        txt = []
        for i, n in tb.walk():
            if n["k"] == "Adt" and n.get("adt", "").endswith(("System", "DispatchId")):
                txt.append(n["vname"])
            if n["k"] == "Match" or n["k"] == "Let":
                pass
        pats = [a["pat"].get("vname") for a in tb.arms if a["pat"]["k"] == "Variant"]
        closures = [k for k in f.fns if k.startswith(nw + "::{closure")]
        alltxt = " ".join(txt)
        for c_ in closures:
            tc = ev.tb(c_)
            alltxt += " " + " ".join(n.get("vname", "") for n in tc.exprs if n["k"] == "Adt") + " " + " ".join(str(a["pat"].get("vname")) for a in tc.arms)
            alltxt += " " + " ".join("All" for a in tc.exprs if a["k"] == "Let" and a["pat"].get("vname") == "All")
        ok = "ITS_Stave" in alltxt and "FeeId" in alltxt and "GbtLink" in alltxt and "All" in alltxt
        # order: the `if` true-branch yields FeeId
        first_if = next((n for i, n in tb.walk() if n["k"] == "If"), None)
        if first_if:
            tnames = [x.get("vname") for _, x in tb.walk(first_if["then"]) if x["k"] == "Adt"]
            enames = [x.get("vname") for _, x in tb.walk(first_if["else"]) if x["k"] == "Adt"] if first_if.get("else") is not None else []
            ok = ok and "FeeId" in tnames and "GbtLink" in enames
        rep.check(ok, "R6.3", "R6.3|dispatch_by_table", "dispatch by FEE ID iff `check all its-stave`, by GBT link otherwise", nw, "constructor condition atoms: %s" % alltxt[:200])
    # ---------- R6.6 the dispatcher keeps no per-stream state that steers routing or seeds a validator
    vd_adt = VD.rsplit("::<", 1)[0]
    adt = f.adts.get(vd_adt)
    if adt:
        fields = [fd["name"] for fd in adt["variants"][0]["fields"]]
        ROUTING = {"processors", "process_channels", "validator_thread_handles"}
        # the dispatch role: every dispatcher method (and closure) reachable from dispatch_cdp_batch — whatever the
        # per-packet step is split into
        role_seen, role_st = set(), [p_ for p_ in reach if p_.startswith(VD + "dispatch_cdp_batch")]
        while role_st:
            x_ = role_st.pop()
            if x_ in role_seen or not x_.startswith(VD):
                continue
            role_seen.add(x_)
            role_st.extend(cg.edges.get(x_, ()))
        role = sorted(p_ for p_ in role_seen if p_ in f.fns and f.fns[p_].get("mir"))
        rep.floor("R6.6-role", len(role), 4, "dispatch-role functions of ValidatorDispatcher (incl. closures)")

        def proj_fields(pl):
            return [x[2] for x in pl.get("p", []) if isinstance(x, list) and x[0] == "f" and len(x) > 2 and x[2] in fields]

        written = {}
        for p_ in role:
            b = cg.body(p_)
            for i, j, st in b.stmts():
                if st["k"] != "assign":
                    continue
                # self, or in a closure the local holding the captured `&mut self`
                is_self = lambda l_: l_ == 1 or "ValidatorDispatcher<" in b.local_ty(l_)["s"]
                if is_self(st["lhs"]["l"]):
                    for fl in proj_fields(st["lhs"]):
                        written.setdefault(fl, set()).add(p_)
                rv = st["rv"]
                if rv["k"] in ("ref", "rawptr") and rv.get("bk") not in ("shared", "fake") and is_self(rv["pl"]["l"]):
                    for fl in proj_fields(rv["pl"]):
                        written.setdefault(fl, set()).add(p_)
        state = sorted(set(written) - ROUTING)
        flows = []
        for p_ in role:
            b = cg.body(p_)
            for bb in b.live_blocks():
                t = b.blocks[bb]["t"]
                if t["k"] == "switch":
                    so = show_origin(b.origin(t["d"]))
                    for m in state:
                        if "." + m in so:
                            flows.append("%s: branch on self.%s" % (p_.split("::")[-1], m))
                elif t["k"] == "call":
                    cal = callee_of(t)[0] if callee_of(t) else None
                    if not cal or not (cal.startswith(LV) or cal.startswith(VD) or "crossbeam_channel" in cal or cal.endswith("<impl [T]>::get") or "thread" in cal):
                        continue
                    for a in t["args"]:
                        so = show_origin(b.origin(a))
                        for m in state:
                            if "." + m in so:
                                flows.append("%s: self.%s flows into %s" % (p_.split("::")[-1], m, cal.split("::")[-1]))
        rep.check(not flows, "R6.6", "R6.6|dispatcher_state", "fields written while dispatching: %s; none besides the routing tables steers a send or reaches a validator" % sorted(written), VD,
                  "the dispatcher carries state across packets of different links (%s) that steers routing or is handed to a validator: %s" % (state, sorted(set(flows))))
        # the freshly built validator is only moved into its thread
        dbi_b = cg.body(VD + "dispatch_by_id") if VD + "dispatch_by_id" in f.fns else None
        if dbi_b is not None:
            lvcalls = sorted(set(cal.split("::")[-1] for bb, t, cal, c in dbi_b.calls() if cal and cal.startswith(LV)))
            rep.check(not lvcalls, "R6.6", "R6.6|validator_untouched", "dispatch_by_id calls no LinkValidator method on the new validator before moving it into its thread", VD,
                      "dispatch_by_id calls LinkValidator::%s on the new validator: state decided by another link's packet can be planted in it" % lvcalls)
    else:
        rep.missing("R6.6", vd_adt)
    # ---------- R6.4 validator consumes in order
    run_ = LV + "::<T, C>::run"
    if run_ in f.fns:
        b = cg.body(run_)
        rc = [bb for bb, t, cal, c in b.calls() if cal == "crossbeam_channel::channel::Receiver::<T>::recv"]
        dc = [(bb, t) for bb, t, cal, c in b.calls() if cal == LV + "::<T, C>::do_checks"]
        ok = len(rc) == 1 and len(dc) == 1 and b.on_cycle(dc[0][0]) and any(c_[3] == rc[0] for c_ in origin_calls(b.origin(dc[0][1]["args"][1])))
        rep.check(ok, "R6.4", "R6.4|consume_in_order", "the validator processes each received packet once, in FIFO order", run_)
    # ---------- R6.7 every checked packet goes through the dispatcher: one validator per identifier is a property of
    # the dispatcher's routing, so nothing else may create a validator or feed one directly (a "single source, skip the
    # dispatcher" shortcut would push packets of different identifiers through one validator's running state)
    reach_ = ctx.reachable()
    feeders = sorted(c_ for c_ in cg.callers(LV + "::<T, C>::do_checks") if c_ in reach_)
    makers = sorted({c_ for n_ in ("new", "with_chan_capacity") for c_ in cg.callers(LV + "::<T, C>::" + n_) if c_ in reach_ and not c_.startswith(LV)})
    runners = sorted(c_ for c_ in cg.callers(LV + "::<T, C>::run") if c_ in reach_)
    ok = feeders == [LV + "::<T, C>::run"] and all(c_.startswith(VD) for c_ in makers) and bool(makers) and all(c_.startswith(VD) for c_ in runners) and bool(runners)
    rep.check(ok, "R6.7", "R6.7|validators_only_via_dispatcher", "link validators are created and run only by the dispatcher, and fed only by their own receive loop", LV,
              "a link validator is fed by %s, created by %s, run by %s — packets can reach a validator without being routed by their identifier" % (feeders, makers, runners))
    # ---------- R6.8 (shares R8.4|filter of C08) a run restricted to one link / FEE ID sees exactly that identifier's
    # packets: the filter predicate is the exact identifier comparison
    from . import c08
    c08.filter_predicate_rules(ctx, ev, rep)
    # ---------- R6.5 sibling masks
    for p, want in (("fastpasta::words::its::layer_from_feeid", Bits(8, [("FEE", 12), ("FEE", 13), ("FEE", 14), 0, 0, 0, 0, 0])),
                    ("fastpasta::words::its::stave_number_from_feeid", Bits(8, [("FEE", i) for i in range(6)] + [0, 0]))):
        try:
            r = ev.call_fn(p, [Bits.inp("FEE", 0, 16)])
        except Unsupported:
            r = None
        rep.check(isinstance(r, Bits) and r.b == want.b, "R6.5", "R6.5|%s" % p.split("::")[-1], "%s = documented FEE-ID bits" % p.split("::")[-1], p, "%s evaluates to %s" % (p.split("::")[-1], vkey(r)))
    for p in ("alice_protocol_reader::input_scanner::is_match_feeid_layer_stave", "fastpasta::words::its::is_match_feeid_layer_stave"):
        if p not in f.fns:
            continue
        r = ev.call_fn(p, [Bits.inp("A", 0, 16), Bits.inp("B", 0, 16)])
        want = ckey(Cond("cmp", "Eq", Bits(16, [("A", i) if (0x703F >> i) & 1 else 0 for i in range(16)]), Bits(16, [("B", i) if (0x703F >> i) & 1 else 0 for i in range(16)])))
        rep.check(ckey(r) == want, "R6.5", "R6.5|layer_stave_mask|%s" % p.split("::")[0], "layer/stave match uses mask 0x703F = layer[14:12] | stave[5:0]", p, "predicate is %s" % ckey(r))
