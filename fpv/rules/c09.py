"""C09 — ITS payload words are classified as the documented state machine says.

The implementation's transition table is extracted on every run from the typed
syntax tree of ItsPayloadFsmContinuous::advance (state variants, identifier
patterns with first-match semantics, guards, result word, successor variant read
from the type of the `transition` call).  The documented diagram is parsed from
doc/ITS_payload_fsm_continuous_mode.puml.  The reachable product of both under
the refinement map of oracles/fsm.json is explored exhaustively over the
alphabet 256 identifiers × flag bits; every disagreement is a violation.
No hand-written model: the model *is* the extracted table."""
import re

from ..thir import Evaluator, Slice, Cond, ckey, vkey, Unsupported
from ..facts import where

EXPLANATION = __doc__
FSM = "fastpasta::analyze::validators::its::its_payload_fsm_cont::"


# ------------------------------------------------------------ extraction
def pat_ids(p):
    k = p["k"]
    if k == "Wild" or k == "Bind":
        return set(range(256))
    if k == "Const" and "int" in p:
        return {p["int"]}
    if k == "Range":
        hi = p["hi"] if p["incl"] else p["hi"] - 1
        return set(range(p["lo"], hi + 1))
    if k == "Or":
        s = set()
        for q in p["pats"]:
            s |= pat_ids(q)
        return s
    raise ValueError("unrecognised identifier pattern %s" % k)


def succ_variant(tb, eid):
    """successor variant name from `stm.transition(ev).as_enum()` — read from the type Machine<S, E>"""
    i, n = tb.e(eid)
    if n["k"] == "Call" and (n.get("fn") or "").endswith("AsEnum::as_enum"):
        s = n["ga"][0]["s"]
        m = re.search(r"Machine<([^,>]+),\s*([^>]+)>", s)
        if m:
            st = m.group(1).split("::")[-1]
            evn = m.group(2).split("::")[-1]
            return st + "By" + evn
    return None


def word_result(tb, eid):
    i, n = tb.e(_tail(tb, eid))
    if n["k"] == "Adt" and n["adt"] == "core::result::Result":
        ii, inner = tb.e(n["fields"][0]["e"])
        if inner["k"] == "Adt":
            return (n["vname"], inner["vname"])
    return None


def guard_flag(ev, tb, gid, flag_bits):
    """guard expression → (flagname, required value)"""
    env = {}
    # gbt_word param id
    for p in tb.params:
        pat = p.get("pat")
        if pat and pat["k"] == "Bind" and pat["name"] == "gbt_word":
            env[pat["id"]] = Slice("W", 0, 10)
    c = ev.as_cond(ev.eval(tb, gid, env, 0))
    if isinstance(c, Cond) and c.op == "any" and len(c.a[0]) == 1:
        (root, bit), = tuple(c.a[0])
        for name, b in flag_bits.items():
            if b == bit and root == "W":
                return name, 1 if c.a[1] else 0
    raise ValueError("unrecognised guard %s" % ckey(c))


def extract_impl(ctx, ev, orc):
    f = ctx.facts()
    path = FSM + "ItsPayloadFsmContinuous::advance"
    tb = ev.tb(path)
    if tb is None:
        return None, "advance not found"
    outer = None
    for i, n in tb.walk():
        if n["k"] == "Match":
            outer = n
            break
    table = {}
    for a in outer["arms"]:
        arm = tb.arms[a]
        pat = arm["pat"]
        if pat["k"] != "Variant":
            return None, "outer arm is not a state variant pattern"
        state = pat["vname"]
        bi, bn = tb.e(arm["body"])
        rows = []  # (idset, flag or None, flagval, result, succ)
        if bn["k"] == "Match":
            si, sn = tb.e(bn["scrut"])
            # scrutinee must be gbt_word[9]
            idx_ok = sn["k"] == "Index" and tb.node(sn["i"]).get("int") == 9
            if not idx_ok:
                return None, "state %s does not match on gbt_word[9]" % state
            for b in bn["arms"]:
                ar = tb.arms[b]
                ids = pat_ids(ar["pat"])
                fl = (None, None)
                if ar.get("guard") is not None:
                    fl = guard_flag(ev, tb, ar["guard"], orc["flag_bit"])
                ti, tn = tb.e(ar["body"])
                if tn["k"] != "Tuple":
                    return None, "arm body of %s is not (next, word)" % state
                rows.append((ids, fl[0], fl[1], word_result(tb, tn["es"][1]), succ_variant(tb, tn["es"][0]), where(ar.get("sp"))))
        elif bn["k"] == "Tuple":
            ni, nn = tb.e(bn["es"][0])
            res = word_result(tb, bn["es"][1])
            if nn["k"] == "If":
                ci, cn = tb.e(nn["cond"])
                fl = guard_flag(ev, tb, nn["cond"], orc["flag_bit"])
                rows.append((set(range(256)), fl[0], fl[1], res, succ_variant(tb, _tail(tb, nn["then"])), where(arm.get("sp"))))
                rows.append((set(range(256)), fl[0], 1 - fl[1], res, succ_variant(tb, _tail(tb, nn["else"])), where(arm.get("sp"))))
            else:
                rows.append((set(range(256)), None, None, res, succ_variant(tb, bn["es"][0]), where(arm.get("sp"))))
        else:
            return None, "unrecognised arm body kind %s in state %s" % (bn["k"], state)
        table[state] = rows
    return table, None


def extract_impl_eval(ctx, ev, orc):
    """Shape-independent extraction: ItsPayloadFsmContinuous::advance is evaluated (constant folding over the typed
    syntax tree, local classifier helpers inlined by the evaluator) for every state variant × identifier × flag
    assignment.  Returns table[state][(id, no_data, packet_done)] = (result, successor) or (None, error)."""
    from ..thir import Agg, Sym, Bits, vkey
    f = ctx.facts()
    path = FSM + "ItsPayloadFsmContinuous::advance"
    vadt = FSM + "ITS_Payload_Continuous::Variant"
    if path not in f.fns or vadt not in f.adts:
        return None, "advance / Variant not found"
    states = [v["name"] for v in f.adts[vadt]["variants"]]

    def hook(n, args):
        s_ = (n.get("ga") or [{}])[0].get("s", "")
        m = re.search(r"Machine<([^,>]+),\s*([^>]+)>", s_)
        if m:
            return Agg(vadt, m.group(1).split("::")[-1] + "By" + m.group(2).split("::")[-1], {"0": Sym("stm")})
        return None

    ev.call_hooks = [(lambda fn, res: fn.endswith("AsEnum::as_enum"), hook),
                     (lambda fn, res: fn.endswith("Clone::clone") and False, lambda n, a: None)]
    fb = orc["flag_bit"]

    def word(idv, nd, pd):
        bytes_ = []
        for k in range(10):
            if k == 9:
                bytes_.append(Bits.const(idv, 8))
                continue
            bits = []
            for j in range(8):
                pos = 8 * k + j
                if pos == fb["no_data"] and nd is not None:
                    bits.append(nd)
                elif pos == fb["packet_done"] and pd is not None:
                    bits.append(pd)
                else:
                    bits.append(("W", pos))
            bytes_.append(Bits(8, bits))
        return ("array",) + tuple(bytes_)

    def step(state, idv, nd, pd):
        slf = Agg(FSM + "ItsPayloadFsmContinuous", "ItsPayloadFsmContinuous", {"state_machine": Agg(vadt, state, {"0": Sym("stm")})})
        w = word(idv, nd, pd)
        recs = ev.collect_ifs(path, [slf, w])
        nxt = [o for o in recs if "assign" in o and o["assign"][0] == "=" and re.match(r"Variant::\w+\(", o["assign"][2]) and o["assign"][1].startswith("Variant::")
               and all(g == "true" or g.startswith("not false") for g in o["guard"])]
        r = ev.call_fn(path, [slf, w])
        res = None
        if isinstance(r, Agg) and r.var in ("Ok", "Err") and isinstance(r.fields.get("0"), Agg):
            res = (r.var, r.fields["0"].var)
        succ = None
        if len(nxt) == 1:
            m = re.match(r"Variant::(\w+)\(", nxt[0]["assign"][2])
            succ = m.group(1) if m else None
        return res, succ

    table = {}
    try:
        for st in states:
            rows = {}
            for idv in range(256):
                res, succ = step(st, idv, None, None)
                if res is not None and succ is not None:
                    for nd in (0, 1):
                        for pd in (0, 1):
                            rows[(idv, nd, pd)] = (res, succ)
                    continue
                for nd in (0, 1):
                    for pd in (0, 1):
                        res, succ = step(st, idv, nd, pd)
                        if res is None or succ is None:
                            # with the identifier and the two documented flag bits fixed the outcome is still open:
                            # name the other word bits it depends on
                            extra = ""
                            try:
                                slf_ = Agg(FSM + "ItsPayloadFsmContinuous", "ItsPayloadFsmContinuous", {"state_machine": Agg(vadt, st, {"0": Sym("stm")})})
                                txt = vkey(ev.call_fn(path, [slf_, word(idv, nd, pd)]))
                                bits_ = sorted(set(re.findall(r"W\[[0-9:,]+\]", txt)))
                                if bits_:
                                    extra = " — the outcome depends on word bits other than the identifier, no_data (bit %d) and packet_done (bit %d): %s" % (fb["no_data"], fb["packet_done"], ", ".join(bits_)[:200])
                            except Unsupported:
                                pass
                            return None, "advance(state=%s, id=%#x, no_data=%d, packet_done=%d) does not evaluate to (word, successor): %s, %s%s" % (st, idv, nd, pd, res, succ, extra)
                        rows[(idv, nd, pd)] = (res, succ)
            table[st] = rows
    except Unsupported as e:
        return None, "advance cannot be evaluated: %s" % e
    finally:
        ev.call_hooks = []
    return table, None


def rows_from_eval(etab, where_):
    """groups the evaluated transition function into the row format used by the product exploration"""
    table = {}
    for st, rows in etab.items():
        groups = {}
        for idv in range(256):
            o = {(nd, pd): rows[(idv, nd, pd)] for nd in (0, 1) for pd in (0, 1)}
            if len(set(o.values())) == 1:
                key = ("none", o[(0, 0)])
            elif o[(0, 0)] == o[(0, 1)] and o[(1, 0)] == o[(1, 1)]:
                key = ("no_data", o[(0, 0)], o[(1, 0)])
            elif o[(0, 0)] == o[(1, 0)] and o[(0, 1)] == o[(1, 1)]:
                key = ("packet_done", o[(0, 0)], o[(0, 1)])
            else:
                raise ValueError("state %s, id %#x: the outcome depends on both flag bits" % (st, idv))
            groups.setdefault(key, set()).add(idv)
        out = []
        for key, ids in sorted(groups.items(), key=lambda kv: min(kv[1])):
            if key[0] == "none":
                out.append((ids, None, None, key[1][0], key[1][1], where_))
            else:
                out.append((ids, key[0], 0, key[1][0], key[1][1], where_))
                out.append((ids, key[0], 1, key[2][0], key[2][1], where_))
        table[st] = out
    return table


def _tail(tb, eid):
    i, n = tb.e(eid)
    while n["k"] == "Block":
        b = tb.blocks[n["b"]]
        if b.get("expr") is None:
            break
        i, n = tb.e(b["expr"])
    return i


def impl_step(table, state, idv, flags):
    for ids, fl, fv, res, succ, w in table[state]:
        if idv in ids and (fl is None or flags.get(fl) == fv):
            return res, succ, w
    return None, None, None


# ------------------------------------------------------------ diagram
def parse_puml(text):
    choice = set()
    edges = []  # (src, dst, [atoms], scope)
    scope = [None]
    for raw in text.split("\n"):
        line = raw.strip()
        if not line or line.startswith("'"):
            continue
        m = re.match(r"state\s+(\w+)\s+<<choice>>", line)
        if m:
            choice.add(m.group(1))
            continue
        m = re.match(r"state\s+(\w+)\s*(#\w+)?\s*\{", line)
        if m:
            scope.append(m.group(1))
            continue
        if line == "}":
            if len(scope) > 1:
                scope.pop()
            continue
        m = re.match(r"(\[\*\]|\w+)\s*-[a-z]*-*>\s*(\[\*\]|\w+)\s*(?::\s*(.*))?$", line)
        if m:
            src, dst, g = m.group(1), m.group(2), m.group(3)
            atoms = []
            if g:
                g = g.strip().strip("[]").replace("\\n", " ")
                atoms = [a.strip() for a in g.split("&&") if a.strip()]
            edges.append((src, dst, atoms, scope[-1]))
    return choice, edges


class Diagram:
    def __init__(self, text, orc):
        self.choice, self.edges = parse_puml(text)
        self.orc = orc
        self.node_word = orc["node_word"]
        self.entry = {}
        for s, d, a, sc in self.edges:
            if s == "[*]":
                self.entry[sc] = d
        self.composites = {sc for _, _, _, sc in self.edges if sc}

    def out(self, node):
        return [(d, a) for s, d, a, sc in self.edges if s == node]

    def targets(self, pos, flag):
        """word nodes that may follow position pos (a word node or START) whose flag value is `flag`:
        list of (node, required_next_word_or_None)"""
        res = []
        if pos in ("START",):
            return [(self.entry[None], None)]
        seen = set()
        st = [(pos, None)]
        first = True
        while st:
            node, need = st.pop()
            for d, atoms in self.out(node):
                ok = True
                nw = need
                for a in atoms:
                    m = re.match(r"(no_data|packet_done)\s*==\s*(\d)", a)
                    if m:
                        if flag is not None and int(m.group(2)) != flag:
                            ok = False
                    elif a in ("TDH", "DDW0", "IHW", "TDT"):
                        nw = a
                    elif a == "Data Word":
                        nw = "Data"
                    # other atoms (event page full, RDH conditions) are not observable on the word stream
                if not ok:
                    continue
                if d == "[*]":
                    d = self.entry[None]
                    res.append((d, nw))
                    continue
                if d in self.composites:
                    d = self.entry[d]
                if d in self.choice:
                    if (d, nw) not in seen:
                        seen.add((d, nw))
                        st.append((d, nw))
                else:
                    res.append((d, nw))
        return res


def flag_relevant(dia, node):
    """does any guard downstream of `node` (through choice nodes) mention a word flag"""
    seen = set()
    st = [node]
    while st:
        x = st.pop()
        for d, atoms in dia.out(x):
            if any(re.match(r"(no_data|packet_done)\s*==", a) for a in atoms):
                return True
            if d in dia.choice and d not in seen:
                seen.add(d)
                st.append(d)
    return False


def word_type(idv, orc, data_ids):
    for w, ids in orc["alphabet"].items():
        if idv in ids:
            return w
    if idv in data_ids:
        return "Data"
    return None


# ------------------------------------------------------------ rule
def from_id_table(ev, fid="fastpasta::analyze::validators::its::lib::ItsPayloadWord::from_id"):
    """{identifier: ("Ok", variant) | ("Err", None) | ("?", text)} for all 256 identifiers — ItsPayloadWord::from_id
    evaluated per value (however its arms, ranges or helper predicates are written); None when it has no body"""
    from ..thir import Bits as _Bits, Agg as _Agg
    if ev.tb(fid) is None:
        return None
    out = {}
    for i in range(256):
        try:
            r = ev.call_fn(fid, [_Bits.const(i, 8)])
        except Unsupported as e:
            out[i] = ("?", str(e)[:60])
            continue
        if isinstance(r, _Agg) and r.var == "Ok" and isinstance(r.fields.get("0"), _Agg):
            out[i] = ("Ok", r.fields["0"].var)
        elif isinstance(r, _Agg) and r.var == "Err":
            out[i] = ("Err", None)
        else:
            out[i] = ("?", vkey(r)[:60])
    return out


def run(ctx, rep):
    f = ctx.facts()
    ev = Evaluator(f)
    orc = ctx.oracle("fsm.json")
    dwo = ctx.oracle("dw_ids.json")
    data_ids = set()
    for lo, hi in dwo["il"] + dwo["ol"]:
        data_ids.update(range(lo, hi + 1))

    # ---- the flag readers used by the FSM test exactly the documented bit, for all 2^80 words at once
    from ..thir import Slice, ckey
    U_ = "fastpasta::words::its::status_words::util::"
    for fn_, bit in (("tdh_no_data", orc["flag_bit"]["no_data"]), ("tdt_packet_done", orc["flag_bit"]["packet_done"])):
        if U_ + fn_ in f.fns:
            try:
                k_ = ckey(ev.as_cond(ev.call_fn(U_ + fn_, [Slice("W", 0, 10)])))
            except Unsupported as e:
                k_ = "unevaluable %s" % e
            rep.check(k_ == "any(W[%d])" % bit, "R9.1", "R9.1|flag-reader|%s" % fn_, "%s(word) ⇔ bit %d of the word" % (fn_, bit), U_ + fn_,
                      "%s tests %s, documented: bit %d alone" % (fn_, k_, bit))
    # ---- extraction + well-formedness
    # the transition function is obtained by evaluating advance() for every state × identifier × flag assignment
    # (independent of how the function is written: inline match arms, classifier helpers, guard order)
    try:
        etab, err = extract_impl_eval(ctx, ev, orc)
        table = rows_from_eval(etab, where(f.fns[FSM + "ItsPayloadFsmContinuous::advance"]["span"])) if etab is not None else None
    except (ValueError, KeyError, Unsupported) as e:
        table, err = None, "advance cannot be evaluated to a transition table: %s" % e
    if table is None:
        rep.bad("R9.0", "R9.0|extract", err, FSM + "ItsPayloadFsmContinuous::advance")
        return
    vadt = f.adts.get(FSM + "ITS_Payload_Continuous::Variant")
    variants = [v["name"] for v in vadt["variants"]] if vadt else []
    rep.check(set(table) == set(variants) and len(variants) >= 11, "R9.0", "R9.0|exhaustive_states",
              "advance has one arm per state variant (%d)" % len(table), FSM,
              "state arms %s != variants %s" % (sorted(table), sorted(variants)))
    for st, rows in table.items():
        cover = set()
        for ids, fl, fv, res, succ, w in rows:
            if fl is None:
                cover |= ids
        # rows with a flag must come in complementary pairs over the same ids
        for ids, fl, fv, res, succ, w in rows:
            if fl is not None and not any(i2 == ids and f2 == fl and v2 == 1 - fv for i2, f2, v2, _, _, _ in rows):
                if not ids <= cover:
                    rep.bad("R9.0", "R9.0|guard_pair|%s" % st, "guarded arm without complementary arm in state %s" % st, w)
        rep.check(all(r[3] is not None and r[4] is not None for r in rows), "R9.0", "R9.0|rows|%s" % st,
                  "state %s: %d rows with recognised result and successor" % (st, len(rows)), rows[0][5])
        for r in rows:
            if r[4] is not None and r[4] not in variants:
                rep.bad("R9.0", "R9.0|succ|%s" % st, "successor %s is not a variant" % r[4], r[5])
    # writers of state_machine: only new/reset_fsm/advance, and new/reset give the initial state
    writers = set()
    for path, fn in f.fns.items():
        if not fn.get("mir") or not path.startswith(FSM):
            continue
        for bb in fn["mir"]["blocks"]:
            for s in bb["s"]:
                if s["k"] == "assign":
                    for e in s["lhs"].get("p", []):
                        if isinstance(e, list) and e[0] == "f" and e[2] == "state_machine":
                            writers.add(path)
    for path, fn in f.fns.items():
        if fn.get("mir") and not path.startswith(FSM):
            for bb in fn["mir"]["blocks"]:
                for s in bb["s"]:
                    if s["k"] == "assign" and any(isinstance(e, list) and e[0] == "f" and e[2] == "state_machine" for e in s["lhs"].get("p", [])):
                        writers.add(path)
    okw = {FSM + "ItsPayloadFsmContinuous::advance", FSM + "ItsPayloadFsmContinuous::reset_fsm"}
    rep.check(writers <= okw and writers, "R9.0", "R9.0|writers", "state_machine is written only by advance/reset_fsm: %s" % sorted(x.split("::")[-1] for x in writers), FSM,
              "unexpected writer(s) of state_machine: %s" % sorted(writers - okw))
    from ..thir import Agg as _Agg, Sym as _Sym, vkey as _vkey
    initial = orc.get("initial_variant", "InitialIHW_")
    try:
        nv = ev.call_fn(FSM + "ItsPayloadFsmContinuous::new", [])
        ok_new = isinstance(nv, _Agg) and isinstance(nv.fields.get("state_machine"), _Agg) and nv.fields["state_machine"].var == initial
    except Unsupported:
        nv, ok_new = None, False
    rep.check(ok_new, "R9.0", "R9.0|initial|new", "new() yields the initial IHW state", FSM + "ItsPayloadFsmContinuous::new",
              "new() evaluates to %s" % (_vkey(nv)[:200] if nv is not None else "unevaluable"))
    try:
        recs = ev.collect_ifs(FSM + "ItsPayloadFsmContinuous::reset_fsm", [_Sym("self")])
        asg = [o["assign"][2] for o in recs if "assign" in o and o["assign"][1] == "sym(self.state_machine)" and not o["guard"]]
        ok_reset = len(asg) == 1 and asg[0].startswith("Variant::%s(" % initial)
    except Unsupported:
        asg, ok_reset = [], False
    rep.check(ok_reset, "R9.0", "R9.0|initial|reset_fsm", "reset_fsm() yields the initial IHW state", FSM + "ItsPayloadFsmContinuous::reset_fsm", "reset_fsm assigns %s" % [a[:120] for a in asg])

    # ---- diagram
    try:
        dia = Diagram(ctx.doc("doc/ITS_payload_fsm_continuous_mode.puml"), orc)
    except Exception as e:
        rep.bad("R9.1", "R9.1|puml", "cannot parse the documented diagram: %r" % e, "doc/ITS_payload_fsm_continuous_mode.puml")
        return
    rep.check(len(dia.edges) >= 22 and len(dia.choice) >= 4, "R9.1", "R9.1|puml|size", "diagram parsed: %d edges, %d choice nodes" % (len(dia.edges), len(dia.choice)), "doc/…puml")

    vp = orc["variant_position"]
    for v in variants:
        if v not in vp:
            rep.bad("R9.1", "R9.1|refinement|%s" % v, "implementation state %s has no diagram position in the refinement map (new state?)" % v, FSM)
    # ---- product exploration
    start = "InitialIHW_"
    seen = set()
    work = [start]
    transitions = 0
    letters = 0
    edges_taken = set()
    samples = []
    while work:
        st = work.pop()
        if st in seen or st not in table or st not in vp:
            continue
        seen.add(st)
        pos, flag = vp[st]
        tg = dia.targets(pos, flag)
        cand_types = {orc["node_word"][n] for n, need in tg}
        single = len({(n) for n, need in tg}) == 1
        for idv in range(256):
            for nd in (0, 1):
                for pd in (0, 1):
                    letters += 1
                    flags = {"no_data": nd, "packet_done": pd}
                    res, succ, w = impl_step(table, st, idv, flags)
                    transitions += 1
                    if res is None:
                        rep.bad("R9.1", "R9.1|nomatch|%s|%#x" % (st, idv), "no arm matches id %#x in state %s" % (idv, st), FSM)
                        continue
                    wt = word_type(idv, orc, data_ids)
                    allowed = [(n, need) for n, need in tg if orc["node_word"][n] == wt and (need is None or need == orc["node_word"][n] or need == wt)]
                    key_base = "%s|%s" % (st, wt or "other")
                    if wt == "CDW" and "Data" in cand_types:
                        # documented refinement: CDW is a data-class word in data states
                        dnode = [n for n, need in tg if orc["node_word"][n] == "Data"][0]
                        want_pos = (dnode, None)
                        if res != ("Ok", "CDW") or tuple(vp.get(succ, (None, None))) != want_pos:
                            rep.bad("R9.1", "R9.1|cdw|%s" % st, "state %s: CDW must be classified CDW and stay in the data state; got %s → %s" % (st, res, succ), w)
                        else:
                            edges_taken.add((st, "CDW(refinement)", None, None, succ))
                        if succ and succ not in seen:
                            work.append(succ)
                        continue
                    if allowed:
                        node = allowed[0][0]
                        exp_kind = _expected_kind(orc, node, single)
                        okk = res == ("Ok", exp_kind)
                        # successor must refine the position after consuming `node` with its flag
                        fl_name = orc["flag_of_word"].get(orc["node_word"][node])
                        fv = flags[fl_name] if fl_name and flag_relevant(dia, node) else None
                        if fv is None:
                            fl_name = None
                        want_pos = (orc["position_aliases"].get(node, node), fv)
                        got_pos = tuple(vp.get(succ, (None, None)))
                        oks = got_pos == want_pos
                        if not okk:
                            rep.bad("R9.1", "R9.1|class|%s" % key_base,
                                    "state %s, id %#x (%s): diagram prescribes %s, implementation returns %s" % (st, idv, wt, exp_kind, res), w)
                        elif not oks:
                            rep.bad("R9.1", "R9.1|succ|%s|%s=%s" % (key_base, fl_name, fv),
                                    "state %s, id %#x (%s, %s=%s): successor %s is at diagram position %s, diagram says %s" % (st, idv, wt, fl_name, fv, succ, got_pos, want_pos), w)
                        else:
                            edges_taken.add((st, wt, fl_name, fv, succ))
                    else:
                        # not legal here
                        if single:
                            node = tg[0][0]
                            exp_kind = _expected_kind(orc, node, True)
                            if res != ("Ok", exp_kind) and res[0] != "Err":
                                wfl = orc["flag_of_word"].get(wt)
                                rep.bad("R9.1", "R9.1|single|%s|%s|%s=%s→%s" % (key_base, res[1], wfl, flags.get(wfl), succ),
                                        "single-successor state %s must hand id %#x to the %s sanity check, got %s" % (st, idv, exp_kind, res), w)
                            else:
                                edges_taken.add((st, "illegal→" + exp_kind, None, None, succ))
                        else:
                            if res[0] != "Err":
                                rep.bad("R9.1", "R9.1|illegal_accepted|%s" % key_base,
                                        "choice state %s silently accepts id %#x (%s) as %s although the diagram allows only %s here" % (
                                            st, idv, wt or "unknown id", res[1], sorted(cand_types)), w)
                            else:
                                edges_taken.add((st, "illegal→Err", None, None, succ))
                    if succ and succ not in seen:
                        work.append(succ)
    rep.extra["states"] = len(seen)
    rep.extra["transitions"] = transitions
    rep.extra["traces_validated_against_impl"] = 0
    rep.extra["exhaustive"] = True
    rep.extra["alphabet"] = "256 identifiers x no_data x packet_done"
    rep.extra["distinct_edges"] = len(edges_taken)
    for e in sorted(edges_taken, key=str)[:40]:
        rep.ok("R9.1", "R9.1|edge|%s|%s|%s=%s" % (e[0], e[1], e[2], e[3]), "→ %s" % e[4], FSM)
    rep.check(len(seen) == len(variants), "R9.1", "R9.1|reachable_states", "all %d implementation states reachable in the product" % len(seen), FSM,
              "only %d of %d states reachable: %s unreachable" % (len(seen), len(variants), sorted(set(variants) - seen)))

    # ---- R9.2 sibling identifier sets
    sets = []
    for st, rows in table.items():
        for ids, fl, fv, res, succ, w in rows:
            if res == ("Ok", "DataWord"):
                sets.append((st, ids, w))
    rep.floor("R9.2", len(sets), 4, "data-word arms in advance")
    for st, ids, w in sets:
        rep.check(ids == data_ids, "R9.2", "R9.2|fsm|%s" % st, "data-word ID set of %s = documented 37 identifiers" % st, w,
                  "data-word ID set in state %s differs: extra %s missing %s" % (st, sorted(map(hex, ids - data_ids)), sorted(map(hex, data_ids - ids))))
    fid = "fastpasta::analyze::validators::its::lib::ItsPayloadWord::from_id"
    tab = from_id_table(ev, fid)
    if tab is not None:
        got = {}
        for i_, r_ in tab.items():
            got.setdefault(r_, set()).add(i_)
        rep.check(got.get(("Ok", "DataWord")) == data_ids, "R9.2", "R9.2|from_id|data", "ItsPayloadWord::from_id data-word set = documented (decided for all 256 identifiers)", fid,
                  "from_id data-word set differs from documented: extra %s missing %s" % (sorted(map(hex, got.get(("Ok", "DataWord"), set()) - data_ids)), sorted(map(hex, data_ids - got.get(("Ok", "DataWord"), set())))))
        for wname, ids in orc["alphabet"].items():
            rep.check(got.get(("Ok", wname)) == set(ids), "R9.2", "R9.2|from_id|%s" % wname, "from_id maps %s to %s" % ([hex(x) for x in ids], wname), fid,
                      "from_id maps %s to %s (documented %s)" % (sorted(map(hex, got.get(("Ok", wname), set()))), wname, [hex(x) for x in ids]))
    else:
        rep.missing("R9.2", fid)

    # ---- R9.3 consumer table
    _consumer_table(ctx, ev, rep, orc, etab if 'etab' in dir() else None)
    # R9.4 (shares R12.3 of C12): after a payload that could not be cut the state machine restarts, so the next packet is
    # classified from the initial state
    from . import c12
    c12.error_path_rules(ctx, rep)


def _expected_kind(orc, node, single):
    ek = orc["expected_kind"]
    if node == "TDH":
        return ek["TDH@IHW"] if single else ek["TDH@choice"]
    return ek[node]


def _consumer_table(ctx, ev, rep, orc, etab=None):
    f = ctx.facts()
    p = "fastpasta::analyze::validators::its::cdp_running::CdpRunningValidator::<T, C>::check"
    tb = ev.tb(p)
    if not tb:
        rep.missing("R9.3", p)
        return
    # every word is classified by the state machine: advance() runs exactly once on every path through check(),
    # before any of the word handlers, and check() is the only caller
    cg = ctx.cg()
    adv = FSM + "ItsPayloadFsmContinuous::advance"
    b = cg.body(p)
    asites = [bb for bb, t, cal, c in b.calls() if cal == adv]
    handlers = [bb for bb, t, cal, c in b.calls() if cal and cal.startswith(p.rsplit("::", 1)[0] + "::") and cal.split("::")[-1].startswith(("preprocess_", "process_", "check_", "report_error"))]
    from ..mir import path_count_range
    r = path_count_range(b, 0, b.return_blocks(), asites) if asites else None
    okc = len(asites) == 1 and r == (1, 1) and all(b.dominates(asites[0], h) for h in handlers) and bool(handlers)
    rep.check(okc, "R9.3", "R9.3|classified_by_fsm", "every word handed to check() is classified by advance() exactly once, before any handler runs", p,
              "check(): advance() sites %d, executions per path %s, handlers not dominated by it: %d — a word can be handled without (or with a second) FSM step" % (
                  len(asites), r, sum(1 for h in handlers if not (asites and b.dominates(asites[0], h)))))
    callers = sorted(set(c for c, *_ in cg.call_sites(lambda q: q == adv) if c in ctx.reachable()))
    rep.check(callers == [p], "R9.3", "R9.3|single_stepper", "advance() is called only by CdpRunningValidator::check", p, "callers of advance: %s" % callers)
    ct = orc["consumer_table"]
    found = {}
    for i, n in tb.walk():
        if n["k"] != "Match":
            continue
        for a in n["arms"]:
            arm = tb.arms[a]
            pat = arm["pat"]
            # one match on the state machine's Result: `Ok(ItsPayloadWord::X)` / `Err(AmbigiousError::Y)` arms
            if pat["k"] == "Variant" and pat["adt"].endswith("result::Result") and len(pat.get("subs", [])) == 1:
                pat = pat["subs"][0]["p"]
            names = []
            if pat["k"] == "Variant" and pat["adt"].endswith(("ItsPayloadWord", "AmbigiousError")):
                names = [pat["vname"]]
            elif pat["k"] == "Or":
                names = [q["vname"] for q in pat["pats"] if q["k"] == "Variant"]
            if not names:
                continue
            # what does the body call?
            kinds = []
            codes = []
            for j, c in tb.calls(arm["body"]):
                fn = c.get("fn") or ""
                if fn.endswith("::preprocess_data_word"):
                    kinds.append("preprocess_data_word")
                if fn.endswith("::preprocess_status_word"):
                    ai, an = tb.e(c["args"][1])
                    if an["k"] == "Adt":
                        kinds.append(an["vname"])
                # the per-kind parsers called directly (no dispatcher in between)
                m_ = re.search(r"::preprocess_(tdh|tdt|ihw|ddw0)$", fn)
                if m_:
                    kinds.append(m_.group(1).capitalize())
                if fn.endswith("::report_error"):
                    for _, an in tb.walk(c["args"][1]):
                        m = re.search(r"\[(E\d+)\]", an.get("str") or "")
                        if m:
                            codes.append(m.group(1))
            for nm in names:
                found[nm] = (kinds, codes)
    for nm, exp in ct.items():
        got = found.get(nm)
        if got is None:
            rep.bad("R9.3", "R9.3|%s" % nm, "check() has no arm for %s" % nm, p)
            continue
        if isinstance(exp, list):
            ok = got[1] == [exp[0]] and got[0] == [exp[1]]
            rep.check(ok, "R9.3", "R9.3|%s" % nm, "ambiguous %s → report [%s] and parse as %s" % (nm, exp[0], exp[1]), p,
                      "ambiguous-ID arm %s reports %s and parses as %s (documented: [%s], %s)" % (nm, got[1], got[0], exp[0], exp[1]))
        else:
            ok = got[0][:1] == [exp] and not got[1]
            rep.check(ok, "R9.3", "R9.3|%s" % nm, "%s → %s" % (nm, exp), p, "word kind %s is handed to %s (documented: %s)" % (nm, got[0], exp))
    # every kind the dispatcher has an arm for is produced by the state machine for some (state, identifier, flags),
    # and nothing else is (an arm that can never be reached means classifier and consumer disagree about a case)
    if etab is not None:
        produced = {res[1] for rows in etab.values() for (res, succ) in rows.values() if res}
        dead = sorted(set(ct) - produced)
        unhandled = sorted(produced - set(ct))
        rep.check(not dead and not unhandled, "R9.3", "R9.3|kinds_agree", "the kinds produced by advance() are exactly the kinds check() handles (%d)" % len(produced), p,
                  "advance() never yields %s although check() handles it; yields %s without a documented handler" % (dead, unhandled))
