"""C03 — scanning follows the RDH chain exactly in every input mode.

Decided (structure of the scanner on every CFG path): the offset handed out
with a packet is read from the position tracker while it equals that packet's
start (R3.1); after an RDH is produced the tracker is advanced exactly once by
that RDH's offset_to_next and the payload read uses that RDH's payload_size
(R3.2); the reader only moves together with the tracker (R3.3); the offset
range check precedes every use of offset_to_next (R3.4); the filter predicate
(R3.5); the header decode table against the RDH byte layout (R3.6); batch
builders keep order, stop strictly below capacity (R3.7); skip/load decision
table (R3.8); both reader back-ends advance by exactly the argument (R3.9).
Not decided: OS I/O behaviour, channel hand-over, large payload behaviour."""
import re
from ..mir import Body, callee_of, origin_calls, origin_leaves, show_origin, op_place
from ..thir import Evaluator, Slice, Bits, Agg, Obj, Sym, Cond, ckey, vkey, Unsupported, oracle_cond
from ..facts import where

EXPLANATION = __doc__
AP = "alice_protocol_reader::"
SCAN = "<alice_protocol_reader::input_scanner::InputScanner<R> as alice_protocol_reader::scan_cdp::ScanCDP>::"
TRK = AP + "mem_pos_tracker::MemPosTracker"


def tracker_writers(ctx):
    """functions that assign the address field of the tracker"""
    f = ctx.facts()
    out = set()
    for path, fn in f.fns.items():
        if not fn.get("mir") or fn.get("derived"):
            continue
        for bb in fn["mir"]["blocks"]:
            if bb.get("cleanup"):
                continue
            for s in bb["s"]:
                if s["k"] == "assign":
                    pr = s["lhs"].get("p", [])
                    if any(isinstance(e, list) and e[0] == "f" and e[2] == "memory_address_bytes" for e in pr):
                        # aggregate constructors excluded: only projections through a reference (mutation)
                        if "*" in pr:
                            out.add(path)
    return out


def advancing_fns(ctx, writers):
    """all functions that transitively reach a tracker writer"""
    cg = ctx.cg()
    adv = set(writers)
    changed = True
    while changed:
        changed = False
        for a, bs in cg.edges.items():
            if a not in adv and bs & adv:
                adv.add(a)
                changed = True
    return adv


def run(ctx, rep):
    run_offset_rules(ctx, rep)
    run_rest(ctx, rep)


def run_offset_rules(ctx, rep):
    """R3.0–R3.3: tracker/reader bookkeeping (shared with C07 as its rule R7.6)"""
    f = ctx.facts()
    cg = ctx.cg()
    reach = ctx.reachable()
    ev = Evaluator(f)

    writers = tracker_writers(ctx)
    # (one of the two may be written in terms of the other)
    rep.check(bool(writers) and writers <= {TRK + "::next", TRK + "::update_mem_address"}, "R3.0", "R3.0|tracker_writers",
              "tracker address is written only by %s" % sorted(w.split("::")[-1] for w in writers), TRK,
              "unexpected set of tracker writers: %s" % sorted(writers))
    adv = advancing_fns(ctx, writers)

    # ---- tuple constructors
    ctors = [p for p in reach if "(T, alloc::vec::Vec<u8>, u64)" in (f.fns[p]["mir"]["locals"][0]["ty"]["s"] if f.fns[p].get("mir") else "")
             and "Result<(T, alloc::vec::Vec<u8>, u64)" in f.fns[p]["mir"]["locals"][0]["ty"]["s"]]
    rep.floor("R3.1", len(ctors), 1, "reachable functions returning Result<(RDH, Vec<u8>, u64)>")
    for p in ctors:
        b = cg.body(p)
        # the returned tuple aggregate
        tuples = [(i, j, s) for i, j, s in b.stmts() if s["k"] == "assign" and s["rv"]["k"] == "agg" and s["rv"]["ak"] == "tuple" and len(s["rv"]["ops"]) == 3
                  and b.local_ty(s["lhs"]["l"])["s"] == "(T, alloc::vec::Vec<u8>, u64)"]
        if len(tuples) != 1:
            rep.bad("R3.1", "R3.1|%s|tuple" % p, "expected exactly one (rdh, payload, offset) construction, found %d" % len(tuples), p)
            continue
        ti, tj, ts = tuples[0]
        o_rdh = b.origin(ts["rv"]["ops"][0])
        o_off = b.origin(ts["rv"]["ops"][2])
        o_pay = b.origin(ts["rv"]["ops"][1])
        prod = [c for c in origin_calls(o_rdh) if c[1] and c[1].endswith("load_rdh_cru")]
        reads = [c for c in origin_calls(o_off)]
        okread = len(reads) == 1 and reads[0][1] == TRK + "::current_mem_address"
        if not okread:
            rep.bad("R3.1", "R3.1|%s|offset_source" % p, "the packet offset is %s, not a read of the position tracker" % show_origin(o_off), p)
            continue
        if len(prod) != 1:
            rep.bad("R3.1", "R3.1|%s|producer" % p, "the returned RDH is %s, not the result of one load_rdh_cru call" % show_origin(o_rdh), p)
            continue
        b_read, b_prod = reads[0][3], prod[0][3]
        prod_adv = prod[0][1] in adv
        adv_blocks = {bb for bb, t, cal, c in b.calls() if cal in adv and bb != b_prod}
        if b.dominates(b_read, b_prod) and b_read != b_prod:
            # read before the RDH is produced: nothing in between, and the producer itself, may advance the tracker
            between = b.reachable_from(b_read) & _can_reach(b, b_prod)
            ok = not prod_adv and not (between & adv_blocks)
            msg = "offset is read at bb%d before load_rdh_cru (bb%d), which advances the tracker when it skips filtered-out RDHs (%s)" % (
                b_read, b_prod, " → ".join(x.split("::")[-1] for x in (cg.chain([prod[0][1]], TRK + "::next") or [])))
        else:
            between = b.reachable_from(b_prod) & _can_reach(b, b_read)
            ok = b.dominates(b_prod, b_read) and not (between & adv_blocks - {b_read})
            msg = "a tracker-advancing call lies between the RDH producer (bb%d) and the offset read (bb%d)" % (b_prod, b_read)
        rep.check(ok, "R3.1", "R3.1|%s|offset_at_packet_start" % p.split("::")[-1],
                  "offset read at bb%d while the tracker still equals the start of the RDH produced at bb%d" % (b_read, b_prod),
                  "%s" % where(f.fns[p]["span"]), msg)

        # ---- R3.2 advance pairing
        ok_rets = [r for r in b.return_blocks()]
        adv_sites = []
        for bb, t, cal, c in b.calls():
            if cal in adv and bb != b_prod and b.dominates(b_prod, bb):
                adv_sites.append((bb, t, cal))
        # paths from producer to the Ok construction
        ok_blocks = [ti]
        passes = b.all_paths_pass(b_prod, [x[0] for x in adv_sites], to=ok_blocks)
        rep.check(passes and adv_sites, "R3.2", "R3.2|%s|advance_on_all_paths" % p.split("::")[-1],
                  "every path from the RDH producer to Ok(..) advances the tracker (%d sites)" % len(adv_sites), p,
                  "a path from the RDH producer to the Ok return does not advance the tracker")
        twice = any(b2 in b.reachable_from(b1) and b1 != b2 for b1, _, _ in adv_sites for b2, _, _ in adv_sites)
        rep.check(not twice, "R3.2", "R3.2|%s|advance_once" % p.split("::")[-1], "no path advances the tracker twice for one packet", p)
        for bb, t, cal in adv_sites:
            o = b.origin(t["args"][1]) if len(t["args"]) > 1 else ("unknown",)
            calls = origin_calls(o)
            good = any(c[1] and c[1].endswith("RDH_CRU::offset_to_next") and _same_rdh(b, c[2][0], o_rdh) for c in calls)
            rep.check(good, "R3.2", "R3.2|%s|advance_arg|%s" % (p.split("::")[-1], cal.split("::")[-1]),
                      "%s advances by offset_to_next() of the RDH being returned" % cal.split("::")[-1], p,
                      "%s is called with %s instead of the returned RDH's offset_to_next()" % (cal.split("::")[-1], show_origin(o)))
        # payload size
        pays = b.origins(ts["rv"]["ops"][1])
        pl = [c for o in pays for c in origin_calls(o) if c[1] and c[1].endswith("load_payload_raw")]
        other = [o for o in pays if not any(c[1] and (c[1].endswith("load_payload_raw") or c[1].endswith("Vec::<T>::with_capacity")) for c in origin_calls(o))]
        rep.check(len(pl) >= 1 and not other, "R3.2", "R3.2|%s|payload_source" % p.split("::")[-1], "payload comes from load_payload_raw (or is an empty Vec when skipped / truncated)", p,
                  "payload operand has sources %s" % [show_origin(o)[:120] for o in pays])
        for c in pl:
            cc = origin_calls(c[2][1])
            good = any(x[1] and x[1].endswith("RDH_CRU::payload_size") and _same_rdh(b, x[2][0], o_rdh) for x in cc)
            rep.check(good, "R3.2", "R3.2|%s|payload_size_arg" % p.split("::")[-1], "load_payload_raw(payload_size() of the returned RDH)", p,
                      "load_payload_raw is called with %s" % show_origin(c[2][1])[:200])

    # ---- R3.2c the same on the inlined scanner (helper methods expanded): the primitive tracker writers are
    #      executed exactly once per packet on every path — independent of how the code is split into helpers
    from ..mir import inline_fn, path_count_range
    ISP = AP + "input_scanner::InputScanner::<R>::"
    lc = SCAN + "load_cdp"
    if lc in f.fns:
        bi = Body(inline_fn(f, lc, lambda c: c.startswith(ISP)))
        prim = [bb for bb, t, cal, c in bi.calls() if cal in (TRK + "::next", TRK + "::update_mem_address")]
        prodb = [bb for bb, t, cal, c in bi.calls() if cal and cal.endswith("::load_rdh_cru")]
        oks = [i_ for i_, j_, st in bi.stmts() if st["k"] == "assign" and st["rv"]["k"] == "agg" and st["rv"].get("ak") == "tuple" and len(st["rv"]["ops"]) == 3]
        r = path_count_range(bi, bi.blocks[prodb[0]]["t"]["t"], oks, prim) if len(prodb) == 1 and oks else None
        rep.check(r == (1, 1), "R3.2", "R3.2|load_cdp|advance_exactly_once", "on every path from the RDH producer to the returned tuple the tracker is advanced exactly once (%d primitive sites)" % len(prim), lc,
                  "load_cdp (helpers inlined): the tracker is advanced %s times on the paths from load_rdh_cru to the returned tuple" % (r,))
    ln = SCAN + "load_next_rdh_to_filter"
    if ln in f.fns:
        bi = Body(inline_fn(f, ln, lambda c: c.startswith(ISP)))
        prim = [bb for bb, t, cal, c in bi.calls() if cal == TRK + "::next"]
        loads = [bb for bb, t, cal, c in bi.calls() if cal and cal.endswith("SerdeRdh::load")]
        if len(loads) == 1:
            L = loads[0]
            r_entry = path_count_range(bi, 0, [L], prim)
            r_loop = path_count_range(bi, bi.blocks[L]["t"]["t"], [L], prim)
            rep.check(r_entry == (1, 1) and r_loop == (1, 1), "R3.2", "R3.2|filter_loop|advance_exactly_once",
                      "the tracker is advanced exactly once before the first load and exactly once per skipped RDH", ln,
                      "load_next_rdh_to_filter (helpers inlined): tracker advances before the first load %s, per loop iteration %s" % (r_entry, r_loop))
        else:
            rep.bad("R3.2", "R3.2|filter_loop|advance_exactly_once", "expected one RDH load in the filter loop, found %d" % len(loads), ln)

    # ---- R3.2b filter-skip loop: each iteration advances by that RDH's offset
    p = SCAN + "load_next_rdh_to_filter"
    if p in f.fns:
        b = cg.body(p)
        prods = [(bb, t) for bb, t, cal, c in b.calls() if cal and cal.endswith("SerdeRdh::load")]
        seeks = [(bb, t) for bb, t, cal, c in b.calls() if cal and cal.endswith("seek_to_next_rdh")]
        # two seeks (one before the loop with the parameter, one per iteration with the loaded RDH's offset) or one seek at
        # the top of the loop fed by a variable that holds the parameter first and the loaded RDH's offset afterwards
        one_seek = False
        if len(prods) == 1 and len(seeks) == 1 and b.on_cycle(seeks[0][0]):
            defs_ = b.origins(seeks[0][1]["args"][1])
            from_param = [d_ for d_ in defs_ if d_ == ("param", 2, ())]
            from_rdh = [d_ for d_ in defs_ if any(c[1] and c[1].endswith("RDH_CRU::offset_to_next") for c in origin_calls(d_)) and _origin_from_call_block(b, d_, prods[0][0])]
            one_seek = len(defs_) == 2 and len(from_param) == 1 and len(from_rdh) == 1 and _cycle_passes(b, prods[0][0], seeks[0][0]) and b.dominates(seeks[0][0], prods[0][0])
        rep.check(len(prods) == 1 and (len(seeks) == 2 or one_seek), "R3.2", "R3.2|filter_loop|shape", "one RDH producer; seeks: entry + loop, or one at the top of the loop fed by (parameter, then the loaded RDH's offset)", p,
                  "filter loop has %d producers / %d seeks" % (len(prods), len(seeks)))
        if len(prods) == 1 and len(seeks) == 2:
            pb = prods[0][0]
            entry = [s for s in seeks if not b.on_cycle(s[0])]
            loop = [s for s in seeks if b.on_cycle(s[0])]
            rep.check(len(entry) == 1 and b.origin(entry[0][1]["args"][1]) == ("param", 2, ()), "R3.2", "R3.2|filter_loop|entry_seek",
                      "entry seek uses the offset_to_next parameter", p)
            if loop:
                o = b.origin(loop[0][1]["args"][1])
                cs = origin_calls(o)
                good = any(c[1] and c[1].endswith("RDH_CRU::offset_to_next") for c in cs) and _origin_from_call_block(b, o, pb)
                rep.check(good, "R3.2", "R3.2|filter_loop|loop_seek", "loop seek uses offset_to_next() of the RDH loaded in this iteration", p,
                          "loop seek argument is %s" % show_origin(o))
                # every cycle through the producer passes the seek
                rep.check(b.all_paths_pass(pb, [loop[0][0]], to=[pb]) if False else _cycle_passes(b, pb, loop[0][0]), "R3.2", "R3.2|filter_loop|every_iteration",
                          "every loop iteration seeks before loading the next RDH", p)
        # call site in load_rdh_cru passes offset_to_next of the non-matching RDH
        q = SCAN + "load_rdh_cru"
        if q in f.fns:
            bq = cg.body(q)
            cs = [(bb, t) for bb, t, cal, c in bq.calls() if cal == p]
            rep.floor("R3.2-callsite", len(cs), 1, "call of load_next_rdh_to_filter in load_rdh_cru")
            for bb, t in cs:
                o = bq.origin(t["args"][1])
                good = any(c[1] and c[1].endswith("RDH_CRU::offset_to_next") for c in origin_calls(o))
                rep.check(good, "R3.2", "R3.2|filter_entry|arg", "skip starts from offset_to_next() of the non-matching RDH", q,
                          "load_next_rdh_to_filter called with %s" % show_origin(o))
    else:
        rep.missing("R3.2", p)

    # ---- R3.3 reader moves only with the tracker
    seeks = list(cg.call_sites(lambda c: c.endswith("BufferedReaderWrapper::seek_relative_offset"), within=reach))
    own_impls = {im_it["def"] for im in f.impls if (im.get("trait") or "").endswith("BufferedReaderWrapper") for im_it in im["items"]}
    n = 0
    for path, bb, t, cal, c in seeks:
        if path in own_impls:
            continue  # forwarding impls for &mut T / Box<T>
        n += 1
        o = cg.body(path).origin(t["args"][1])
        good = o[0] == "call" and o[1] == TRK + "::next"
        rep.check(good, "R3.3", "R3.3|seek_arg|%s" % path.split("::")[-1], "seek_relative_offset(tracker.next(offset))", path,
                  "the reader is moved by %s, not by the value the tracker was advanced with" % show_origin(o))
    rep.floor("R3.3", n, 1, "seek_relative_offset call sites outside forwarding impls")
    readers = set()
    for path, bb, t, cal, c in cg.call_sites(lambda c: c.endswith("::read_exact") or c.endswith("Read::read") or c.endswith("::read_to_end"), within=reach):
        if AP in path:
            readers.add(path)
    allowed = {AP + "rdh::SerdeRdh::load", AP + "rdh::SerdeRdh::load_from_rdh0", AP + "rdh::RdhSubword::load", SCAN + "load_payload_raw",
               "<alice_protocol_reader::stdin_reader::StdInReaderSeeker<std::io::stdio::Stdin> as alice_protocol_reader::bufreader_wrapper::BufferedReaderWrapper>::seek_relative_offset",
               "<alice_protocol_reader::stdin_reader::StdInReaderSeeker<std::io::stdio::Stdin> as std::io::Read>::read"}
    rep.check(readers <= allowed and len(readers) >= 4, "R3.3", "R3.3|who_may_read", "input bytes are consumed only by the RDH/payload loaders and the stdin skip: %s" % sorted(x.split("::")[-1] for x in readers),
              AP, "unexpected function(s) reading from the input: %s" % sorted(readers - allowed))
    # tracker.next/update callers
    for w, exp in ((TRK + "::next", {AP + "input_scanner::InputScanner::<R>::seek_to_next_rdh"}), (TRK + "::update_mem_address", {SCAN + "load_cdp"})):
        callers = {path for path, bb, t, cal, c in cg.call_sites(lambda c, w=w: c == w, within=reach) if not path.startswith(TRK + "::")}
        rep.check(callers == exp, "R3.3", "R3.3|who_may_advance|%s" % w.split("::")[-1], "%s is called only from %s" % (w.split("::")[-1], sorted(x.split("::")[-1] for x in exp)), w,
                  "callers of %s: %s" % (w, sorted(callers)))



def run_rest(ctx, rep):
    f = ctx.facts()
    cg = ctx.cg()
    reach = ctx.reachable()
    ev = Evaluator(f)
    range_check_rules(ctx, rep)
    rest2(ctx, rep, ev)


def range_check_rules(ctx, rep):
    """R3.4 (shared with C04 as its R4.6): the offset range check precedes every use of offset_to_next"""
    f = ctx.facts()
    cg = ctx.cg()
    reach = ctx.reachable()
    ev = Evaluator(f)
    # ---- R3.4 range check precedes use
    chk = AP + "input_scanner::sanity_check_offset_next"
    for p in (SCAN + "load_rdh_cru", SCAN + "load_next_rdh_to_filter"):
        if p not in f.fns:
            rep.missing("R3.4", p)
            continue
        b = cg.body(p)
        prods = [bb for bb, t, cal, c in b.calls() if cal and (cal.endswith("SerdeRdh::load") or cal.endswith("SerdeRdh::load_from_rdh0"))]
        checks = [bb for bb, t, cal, c in b.calls() if cal == chk]
        uses = [bb for bb, t, cal, c in b.calls() if cal and (cal.endswith("seek_to_next_rdh") or cal.endswith("load_next_rdh_to_filter") or cal.endswith("RDH_CRU::offset_to_next"))
                and any(b.dominates(pb, bb) for pb in prods)]
        rep.check(len(checks) == 1 and prods, "R3.4", "R3.4|%s|present" % p.split("::")[-1], "offset range check present after the RDH producer(s)", p,
                  "sanity_check_offset_next calls: %d" % len(checks))
        if checks:
            cb = checks[0]
            # the RDH result continues only via the Ok edge of the check ('?'): every use of the offset is dominated by the check
            bad_use = [u for u in uses if not b.dominates(cb, u)]
            # in the loop version the seek of the *previous* iteration precedes the producer; exclude entry seek
            bad_use = [u for u in bad_use if any(b.dominates(pb, u) for pb in prods)]
            rep.check(not bad_use, "R3.4", "R3.4|%s|dominates_uses" % p.split("::")[-1], "range check dominates every use of offset_to_next for skipping", p,
                      "offset_to_next is used at bb%s without passing the range check" % bad_use)
            oks = [i for i, j, st in b.stmts() if st["k"] == "assign" and st["rv"]["k"] == "agg" and st["rv"].get("vname") == "Ok"
                   and (st["rv"].get("adt") or "").endswith("result::Result")]
            rep.check(oks and all(b.dominates(cb, o) for o in oks), "R3.4", "R3.4|%s|ok_after_check" % p.split("::")[-1],
                      "every Ok(rdh) result is constructed after the range check passed (%d sites)" % len(oks), p,
                      "an Ok(rdh) result can be produced without passing the offset range check")
    # accepted interval 64..=10064
    try:
        out = ev.collect_ifs(chk, [Sym("rdh"), Sym("addr"), Sym("ch")])
        conds = [ckey(o["cond"]) for o in out if "cond" in o]
        tb = ev.tb(chk)
        # find the literal range and the -64
        lits = sorted({n["int"] for i, n in tb.walk() if n["k"] == "Lit" and "int" in n})
        rep.check(lits[:3] == [0, 64, 10000], "R3.4", "R3.4|interval", "accepted interval is offset_to_next − 64 ∈ 0..=10000 (literals %s)" % lits, chk,
                  "range-check literals are %s (expected 64, 0..=10000)" % lits)
        has_contains = any((n.get("fn") or "").endswith("::contains") for i, n in tb.calls())
        rep.check(has_contains and len(conds) >= 1 and ("Not(" in conds[0] or conds[0].startswith("not(")) and "contains" in conds[0], "R3.4", "R3.4|polarity", "error iff NOT contained in the interval", chk,
                  "range check condition: %s" % conds[:1])
    except Unsupported as e:
        rep.bad("R3.4", "R3.4|interval", "UNRECOGNISED range check: %s" % e, chk)



def rest2(ctx, rep, ev):
    f = ctx.facts()
    cg = ctx.cg()
    reach = ctx.reachable()
    # ---- R3.5 filter predicate
    fp = AP + "input_scanner::is_rdh_filter_target"
    RC = AP + "rdh::rdh_cru::RdhCru"
    if fp in f.fns:
        FT = AP + "config::filter::FilterTarget"
        exp = {
            "Link": ckey(Cond("cmp", "Eq", Bits.inp("RDH", 96, 8), Bits.inp("ARG", 0, 8))),
            "Fee": ckey(Cond("cmp", "Eq", Bits.inp("RDH", 16, 16), Bits.inp("ARG", 0, 16))),
        }
        for var, w in (("Link", 8), ("Fee", 16), ("ItsLayerStave", 16)):
            try:
                r = ev.call_fn(fp, [Obj("RDH", 0, RC), Agg(FT, var, {"0": Bits.inp("ARG", 0, w)})])
            except Unsupported as e:
                r = Sym("unsupported %s" % e)
            k = ckey(r)
            if var == "ItsLayerStave":
                mask = 0x703F
                a = Bits(16, [("RDH", 16 + i) if (mask >> i) & 1 else 0 for i in range(16)])
                bb_ = Bits(16, [("ARG", i) if (mask >> i) & 1 else 0 for i in range(16)])
                want = ckey(Cond("cmp", "Eq", a, bb_))
            else:
                want = exp[var]
            rep.check(k == want, "R3.5", "R3.5|%s" % var, "filter %s ⇔ %s" % (var, want), fp, "filter predicate for %s is %s, documented %s" % (var, k, want))
    else:
        rep.missing("R3.5", fp)
    # an RDH is returned under a filter only on the true edge
    for p in (SCAN + "load_rdh_cru", SCAN + "load_next_rdh_to_filter"):
        if p not in f.fns:
            continue
        # helper methods of the scanner are inlined: the rule is about events, not about how the code is split
        from ..mir import inline_fn
        b = Body(inline_fn(f, p, lambda c: c.startswith(AP + "input_scanner::InputScanner::<R>::")))
        sites = [(bb, t) for bb, t, cal, c in b.calls() if cal == fp]
        rep.check(len(sites) == 1, "R3.5", "R3.5|use|%s" % p.split("::")[-1], "filter predicate evaluated once per RDH", p)
        for bb, t in sites:
            nxt = t["t"]
            sw = b.blocks[nxt]["t"]
            if sw["k"] != "switch":
                rep.bad("R3.5", "R3.5|edge|%s" % p.split("::")[-1], "result of the filter predicate is not branched on directly", p)
                continue
            false_t = [v[1] for v in sw["vals"] if v[0] == 0]
            true_t = sw["else"]
            filt = [x for x, tt, cal, c in b.calls() if cal and cal.endswith("Stats::rdh_filtered")]
            r_true = b.reachable_from(true_t, removed=false_t)
            good = all(x in r_true and not any(x in b.reachable_from(ft, removed=[true_t]) and not b.on_cycle(x) for ft in false_t) for x in filt) and filt
            rep.check(good, "R3.5", "R3.5|edge|%s" % p.split("::")[-1], "rdh_filtered()/return only on the matching edge", p,
                      "the 'matched' bookkeeping is reachable from the non-matching edge of the filter test")

    # ---- R3.6 decode table
    _decode_table(ctx, ev, rep)

    # ---- R3.7 batches
    _batches(ctx, rep)

    # ---- R3.9 back-ends
    _backends(ctx, ev, rep)

    # ---- R3.10 whole reads: a single `Read::read` may return fewer bytes than asked for (the buffered reader hands
    # out what is left in its buffer), so the input layer consumes input with `read_exact`, or with `read` inside a
    # loop that continues until the buffer is filled — a lone `read` turns a packet that straddles a buffer refill into
    # "end of input"
    cg_ = ctx.cg()
    lone = []
    n_reads = 0
    for p_ in sorted(ctx.reachable()):
        if not p_.replace("<", "").startswith(AP):
            continue
        fn_ = f.fns.get(p_) if (f := ctx.facts()) else None
        if not fn_ or not fn_.get("mir"):
            continue
        b_ = cg_.body(p_)
        for bb, t, cal, c in b_.calls():
            if cal and (cal.endswith("io::Read::read_exact") or cal.endswith("Read>::read_exact")):
                n_reads += 1
            elif cal and (cal.endswith("io::Read::read") or cal.endswith("Read>::read")):
                n_reads += 1
                if not b_.on_cycle(bb):
                    lone.append("%s (%s)" % (p_.split("::")[-1], where(t["sp"])))
    rep.floor("R3.10", n_reads, 2, "input reads in the input layer")
    rep.check(not lone, "R3.10", "R3.10|whole_reads", "input is consumed by read_exact or by read inside a fill loop (%d read sites)" % n_reads, AP,
              "a single Read::read outside a loop consumes input in %s: a short read (buffer refill boundary, pipe) is taken for the end of the input" % lone)


def _can_reach(b, target):
    """blocks from which target is reachable"""
    seen = set()
    st = [target]
    while st:
        x = st.pop()
        if x in seen:
            continue
        seen.add(x)
        st.extend(b.pred[x])
    return seen


def _same_rdh(b, recv_origin, rdh_origin):
    """receiver of an accessor is (a reference to) the same RDH value"""
    def strip(o):
        while isinstance(o, tuple) and o and o[0] == "ref":
            o = o[1]
        return o
    a, c = strip(recv_origin), strip(rdh_origin)
    if a == c:
        return True
    # both derive from the same producer call block
    ca = [x[3] for x in origin_calls(a) if x[1] and (x[1].endswith("load_rdh_cru") or x[1].endswith("SerdeRdh::load"))]
    cc = [x[3] for x in origin_calls(c) if x[1] and (x[1].endswith("load_rdh_cru") or x[1].endswith("SerdeRdh::load"))]
    if ca and ca == cc:
        return True
    if a[0] == "local" and c[0] == "local" and a[1] == c[1]:
        return True
    return False


def _origin_from_call_block(b, o, blk):
    return any(c[3] == blk for c in origin_calls(o)) or any(l[0] == "local" for l in origin_leaves(o))


def _cycle_passes(b, head, through):
    """every cycle head→…→head passes `through`"""
    reach = b.reachable_from(head, removed=[through])
    # can we come back to head without `through`?
    for x in reach:
        if head in b.succ[x] and x != head or (x == head and head in b.succ[head]):
            return False
    return True


def _decode_table(ctx, ev, rep):
    f = ctx.facts()
    lay = ctx.oracle("rdh_layout.json")
    RC = AP + "rdh::rdh_cru::RdhCru"
    fb = "<%s as %srdh::SerdeRdh>::from_rdh0_and_buf" % (RC, AP)
    default_from_buf = AP + "rdh::SerdeRdh::from_buf"
    sub = {"rdh0": AP + "rdh::rdh0::Rdh0", "rdh1": AP + "rdh::rdh1::Rdh1", "rdh2": AP + "rdh::rdh2::Rdh2", "rdh3": AP + "rdh::rdh3::Rdh3"}
    a = f.adts.get(RC)
    if not a or fb not in f.fns:
        rep.missing("R3.6", fb)
        return
    rep.check(a.get("packed") and a.get("size") == 64, "R3.6", "R3.6|RdhCru|layout", "RdhCru is repr(packed), 64 bytes", where(a.get("span")),
              "RdhCru packed=%s size=%s" % (a.get("packed"), a.get("size")))
    # evaluate: from_buf(buf[0..64]) = from_rdh0_and_buf(Rdh0::from_buf(buf[0..=7]), buf[8..=63])
    try:
        r0 = ev.call_fn("<%s as %srdh::RdhSubword>::from_buf" % (sub["rdh0"], AP), [Slice("RDH", 0, 8)])
        v = ev.call_fn(fb, [r0.fields["0"] if isinstance(r0, Agg) and r0.var == "Ok" else r0, Slice("RDH", 8, 56)])
    except (Unsupported, AttributeError) as e:
        rep.bad("R3.6", "R3.6|eval", "UNRECOGNISED decode function: %s" % e, fb)
        return
    if not (isinstance(v, Agg) and v.var == "Ok"):
        rep.bad("R3.6", "R3.6|eval", "UNRECOGNISED decode result %s" % vkey(v)[:200], fb)
        return
    st = v.fields["0"]
    n_leaf = 0

    def leaves(val, adt_path, base, prefix):
        nonlocal n_leaf
        ad = f.adts.get(adt_path)
        fields = ad["variants"][0]["fields"]
        for i, fd in enumerate(fields):
            off = base + ad["offsets"][i]
            sz = ad["field_sizes"][i]
            fv = val.fields.get(fd["name"]) if isinstance(val, Agg) else None
            fadt = fd["ty"].get("adt")
            name = prefix + fd["name"]
            if isinstance(fv, Agg) and fv.var == "Ok":
                fv = fv.fields["0"]
            # `?` on sub-word results shows up as a match on Try::branch: unwrap
            if isinstance(fv, tuple) and fv and fv[0] == "match":
                for c, x in fv[2]:
                    if isinstance(x, Agg):
                        fv = x
                        break
            if fadt in f.adts and isinstance(fv, Agg) and fv.adt == fadt and len(f.adts[fadt]["variants"][0]["fields"]) >= 1 and fd["ty"]["s"] not in ("u8", "u16", "u32", "u64"):
                leaves(fv, fadt, off, name + ".")
                continue
            n_leaf += 1
            exp = Bits.inp("RDH", 8 * off, 8 * sz)
            good = isinstance(fv, Bits) and fv.w == exp.w and fv.b == exp.b
            want = lay["fields"].get(name)
            lay_ok = want is not None and want == [off, sz]
            rep.check(good and lay_ok, "R3.6", "R3.6|field|%s" % name, "%s ← little-endian bytes [%d, %d) = protocol layout" % (name, off, off + sz), fb,
                      "field %s (struct offset %d, size %d) is decoded from %s; protocol layout says bytes %s" % (name, off, sz, vkey(fv)[:120], want))
    leaves(st, RC, 0, "")
    rep.floor("R3.6", n_leaf, 19, "leaf fields of RdhCru")
    # the default SerdeRdh::from_buf splits at 8
    tb = ev.tb(default_from_buf)
    if tb:
        lits = sorted(n["int"] for i, n in tb.walk() if n["k"] == "Lit" and "int" in n)
        rep.check(lits == [0, 7, 8, 63], "R3.6", "R3.6|split", "from_buf splits the 64 bytes into [0..=7] and [8..=63]", default_from_buf, "split literals %s" % lits)
    # accessors of RDH_CRU denote the documented fields
    for acc, (lo, w) in lay["accessors"].items():
        p = "<%s as %srdh::RDH_CRU>::%s" % (RC, AP, acc)
        if p not in f.fns:
            rep.missing("R3.6", p)
            continue
        try:
            r = ev.call_fn(p, [Obj("RDH", 0, RC)])
        except Unsupported:
            r = None
        exp = Bits.inp("RDH", lo, w)
        good = isinstance(r, Bits) and r.resize(max(r.w, w)).b[:w] == exp.b and all(x == 0 for x in r.resize(max(r.w, w)).b[w:])
        rep.check(good, "R3.6", "R3.6|accessor|%s" % acc, "%s() = RDH bits [%d:%d]" % (acc, lo + w - 1, lo), p, "%s() evaluates to %s" % (acc, vkey(r)[:120] if r is not None else "?"))
    # payload_size = memory_size - 64
    p = "<%s as %srdh::RDH_CRU>::payload_size" % (RC, AP)
    try:
        r = ev.call_fn(p, [Obj("RDH", 0, RC)])
        k = vkey(r)
    except Unsupported:
        k = "?"
    rep.check(k == "sym(Sub({b0..15=RDH[95:80]},0x40))", "R3.6", "R3.6|payload_size", "payload_size() = memory_size − 64", p, "payload_size() evaluates to %s" % k)


def _batches(ctx, rep):
    f = ctx.facts()
    cg = ctx.cg()
    for builder, spawner, cap in ((AP + "get_array_batch", AP + "spawn_reader::{closure#0}", "CAP"),):
        if builder not in f.fns or spawner not in f.fns:
            rep.missing("R3.7", builder)
            continue
        b = cg.body(builder)
        # the builder with the container's push methods inlined: the events are the three element pushes, however the
        # tuple reaches them (destructured and `push`ed, or handed over whole to `push_tuple`)
        from ..mir import Body as _Body, inline_fn as _inline
        bi = _Body(_inline(f, builder, lambda c: "cdp_wrapper::" in c and c.split("::")[-1].startswith("push")))
        loads = [(bb, t) for bb, t, cal, c in bi.calls() if cal and cal.endswith("ScanCDP>::load_cdp")]
        FIELDS = ["rdhs", "payloads", "rdh_mem_pos"]
        pushes = []
        for bb, t, cal, c in bi.calls():
            if cal and cal.endswith("::push") and len(t["args"]) == 2:
                rcv = show_origin(bi.origin(t["args"][0]))
                fld = rcv.rsplit(".", 1)[-1] if "." in rcv else None
                if fld in FIELDS:
                    pushes.append((bb, t, fld))
        rep.check(len(loads) == 1 and sorted(x[2] for x in pushes) == sorted(FIELDS) and bi.on_cycle(loads[0][0]) and all(bi.on_cycle(x[0]) for x in pushes),
                  "R3.7", "R3.7|builder|shape", "one load_cdp and one push onto each of the three parallel vectors per loop iteration", builder,
                  "load_cdp calls %d, element pushes %s" % (len(loads), [x[2] for x in pushes]))
        if len(loads) == 1 and len(pushes) == 3:
            lb = loads[0][0]
            comps = {}
            for bb, t, fld in pushes:
                so = show_origin(bi.origin(t["args"][1]))
                m_ = re.search(r"load_cdp\(arg1\)@Ok\.0\.(\d)$", so)
                comps[fld] = ".%s" % m_.group(1) if m_ else so[-60:]
            rep.check([comps.get(x) for x in FIELDS] == [".0", ".1", ".2"], "R3.7", "R3.7|builder|components",
                      "the three tuple components of the loaded CDP are pushed unchanged onto rdhs / payloads / rdh_mem_pos", builder,
                      "pushed components: %s (expected .0,.1,.2 of the load_cdp result)" % comps)
            # push on every loop path after a successful load
            rep.check(all(_cycle_passes(bi, lb, x[0]) for x in pushes), "R3.7", "R3.7|builder|push_every_ok", "every iteration that loaded a CDP pushes it", builder)
        # the loop bound and the reader's stop condition use the same CAP, strict '<'
        s = cg.body(spawner)
        cmp_ = []
        for i, j, st in s.stmts():
            if st["k"] == "assign" and st["rv"]["k"] == "bin" and st["rv"]["op"] in ("Lt", "Le", "Gt", "Ge", "Eq", "Ne"):
                a_, b_ = st["rv"]["a"], st["rv"]["b"]
                oa = s.origin(a_)
                if oa[0] == "call" and oa[1] and oa[1].endswith("CdpArray::<T, CAP>::len"):
                    cmp_.append((st["rv"]["op"], b_))
        okc = len(cmp_) == 1 and cmp_[0][0] == "Lt" and cmp_[0][1].get("c", {}).get("cty") == "CAP"
        rep.check(okc, "R3.7", "R3.7|reader|stop_condition", "reader stops after a batch iff len < CAP (strict)", spawner,
                  "reader stop condition is %s" % (cmp_,))
        # builder loop bound: Range { 0, CAP }
        rng = [st for i, j, st in b.stmts() if st["k"] == "assign" and st["rv"]["k"] == "agg" and (st["rv"].get("adt") or "").endswith("ops::range::Range")]
        okr = len(rng) == 1 and rng[0]["rv"]["ops"][0].get("c", {}).get("int") == 0 and rng[0]["rv"]["ops"][1].get("c", {}).get("cty") == "CAP"
        rep.check(okr, "R3.7", "R3.7|builder|bound", "batch loop runs 0..CAP", builder, "loop range is %s" % (rng[0]["rv"]["ops"] if rng else None))
        # EOF / InvalidData keep the partial batch; only an empty batch is an error
        sends = [(bb, t) for bb, t, cal, c in s.calls() if cal and cal.endswith("Sender::<T>::send")]
        rep.check(len(sends) == 1, "R3.7", "R3.7|reader|one_send", "each batch is sent exactly once", spawner)


def _copy_source(b, pl):
    """field suffix (.0/.1/.2) of the tuple a moved local was destructured from"""
    if pl is None:
        return None
    seen = 0
    while seen < 6:
        seen += 1
        if pl.get("p"):
            last = pl["p"][-1]
            if isinstance(last, list) and last[0] == "f":
                return ".%s" % last[1]
        sd = b.single_def(pl["l"])
        if not sd or sd[2] != "assign" or sd[3]["rv"]["k"] != "use":
            return None
        pl = op_place(sd[3]["rv"]["op"])
        if pl is None:
            return None
    return None


def _backends(ctx, ev, rep):
    f = ctx.facts()
    cg = ctx.cg()
    impls = [im for im in f.impls if (im.get("trait") or "").endswith("bufreader_wrapper::BufferedReaderWrapper")]
    rep.floor("R3.9", len(impls), 4, "impls of BufferedReaderWrapper")
    for im in impls:
        d = [it["def"] for it in im["items"] if it["name"] == "seek_relative_offset"][0]
        b = cg.body(d)
        s = im["self"]["s"]
        calls = [(bb, t, cal) for bb, t, cal, c in b.calls()]
        if "BufReader" in s:
            sr = [t for bb, t, cal in calls if cal and cal.endswith("BufReader::<R>::seek_relative")]
            good = len(sr) == 1 and b.origin(sr[0]["args"][1]) == ("param", 2, ())
            rep.check(good, "R3.9", "R3.9|file", "file back-end forwards the offset to BufReader::seek_relative", d)
        elif "StdInReaderSeeker" in s:
            # vec![0; offset as usize] then read_exact of all of it; UnexpectedEof → InvalidInput
            fe = [t for bb, t, cal in calls if cal and cal.endswith("from_elem")]
            rx = [t for bb, t, cal in calls if cal and cal.endswith("::read_exact")]
            good = len(fe) == 1 and len(rx) == 1
            if good:
                o = b.origin(fe[0]["args"][1])
                good = o[0] == "cast" and o[1] == ("param", 2, ())
            rep.check(good, "R3.9", "R3.9|stdin|length", "stdin back-end reads and discards exactly `offset` bytes", d,
                      "stdin skip buffer length is not the requested offset")
            # decided on the three outcomes of the read: Ok stays Ok, UnexpectedEof becomes InvalidInput, any other
            # error is passed on unchanged
            EK = "std::io::error::ErrorKind"
            outc = {}
            for case, (res_, kind_) in {"ok": (Agg("core::result::Result", "Ok", {"0": ()}), None),
                                        "eof": (Agg("core::result::Result", "Err", {"0": Sym("E")}), "UnexpectedEof"),
                                        "other": (Agg("core::result::Result", "Err", {"0": Sym("E")}), "PermissionDenied")}.items():
                ev.call_hooks = [(lambda fn, r_: fn.endswith("::read_exact"), lambda n, a, res_=res_: res_),
                                 (lambda fn, r_: fn.endswith("io::error::Error::kind"), lambda n, a, kind_=kind_: Agg(EK, kind_, {}))]
                try:
                    outc[case] = vkey(ev.call_fn(d, [Sym("self"), Sym("OFFSET")]))
                except Unsupported as e:
                    outc[case] = "unevaluable %s" % e
                finally:
                    ev.call_hooks = []
            txt = "InvalidInput UnexpectedEof" if (outc["ok"] == "Result::Ok(0=())" and outc["eof"].startswith("Result::Err(") and "ErrorKind::InvalidInput" in outc["eof"]
                                                   and outc["other"] == "Result::Err(0=sym(E))") else "outcomes: %s" % {k_: v_[:80] for k_, v_ in outc.items()}
            rep.check("InvalidInput" in txt and "UnexpectedEof" in txt, "R3.9", "R3.9|stdin|eof_kind",
                      "short read while skipping on stdin is mapped UnexpectedEof → InvalidInput (reported as E101, batch not aborted)", d)
        else:
            fw = [t for bb, t, cal in calls if cal and cal.endswith("seek_relative_offset")]
            good = len(fw) == 1 and b.origin(fw[0]["args"][1]) == ("param", 2, ())
            rep.check(good, "R3.9", "R3.9|forward|%s" % s, "forwarding impl passes the offset unchanged", d)
