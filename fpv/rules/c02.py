"""C02 — every documented violation is detected with its code and location (catalogue, arm coverage, mode gating).

Decided (necessary conditions of detection, on the resolved program):
R2.1 catalogue: the set of error codes that can be emitted by reachable code is
     exactly the reviewed catalogue (oracles/error_codes.json); every code
     belongs to a README family.
R2.2 arm coverage: for each arm of the per-word dispatcher
     (CdpRunningValidator::check, the match on the FSM's verdict) the set of
     codes reachable from that arm through the resolved call graph (status
     word kind resolved per call) equals the documented set for that word
     kind — a check call dropped from an arm, or a check attached to the wrong
     word kind, changes the set.
R2.3 mode gating: the conjunction of mode tests that every path from the
     per-packet entry to an emission of a code passes through is exactly the
     documented one: running codes behind `running checks enabled`
     (so `check sanity` cannot report them), sanity codes behind no mode test
     (every check mode reports them), stave codes behind the presence of the
     readout-frame validator.
R2.4 every emission is a StatType::Error that reaches the error counter
     (C14 R14.2/R14.4) and hence the exit status (C16).
Not decided: that each predicate is the documented one (C10/C11/C13/C20
decide the stateless predicates), offsets (C07), stateful behaviour over
actual streams."""
import re

from ..thir import Evaluator, Sym, Agg, ckey, vkey, Unsupported
from ..emit import all_code_literals

EXPLANATION = __doc__
REG = ("fastpasta::analyze::validators::", "fastpasta::words::its::")
LV = "fastpasta::analyze::validators::link_validator::LinkValidator::<T, C>::"
CDP = "fastpasta::analyze::validators::its::cdp_running::CdpRunningValidator::<T, C>::"
ENTRY = LV + "do_checks"


class Region:
    def __init__(self, f, ev):
        self.f = f
        self.ev = ev
        self.cache = {}

    def recs(self, path, argv=None):
        key = (path, tuple(vkey(a) for a in argv) if argv else None)
        if key in self.cache:
            return self.cache[key]
        fn = self.f.fns.get(path)
        if not fn or not fn.get("thir") or not fn.get("mir"):
            self.cache[key] = []
            return []
        argc = fn["mir"]["argc"]
        args = list(argv) if argv else []
        args = args[:argc] + [Sym("a%d" % i) for i in range(len(args), argc)]
        # closures take their environment first
        ev = self.ev
        ev.watch = lambda c: c.startswith(REG)
        ev.watch_codes = True
        try:
            out = ev.collect_ifs(path, args)
        except Unsupported:
            out = None
        finally:
            ev.watch = None
            ev.watch_codes = False
        self.cache[key] = out
        return out


RUN = re.compile(r"\.running_checks(_enabled)?\b")
STV = re.compile(r"\.readout_frame_validator\b")


def atoms(guard):
    """mode tests that are known to hold under a guard (conjunction of conditions)"""
    out = set()
    for g in guard:
        neg = g.startswith("not ")
        body = g[4:] if neg else g
        parts = [body]
        if body.startswith("and[") and not neg:
            parts = body[4:-1].split(";")
        elif body.startswith("or[") and neg:
            parts = body[3:-1].split(";")  # not(or[a;b]) = and[not a; not b]
        elif body.startswith(("and[", "or[")):
            continue
        for p in parts:
            inner_neg = "sym(Not(sym(" in p or p.startswith("not(")
            pos = neg == inner_neg  # (not neg and not inner_neg) or (neg and inner_neg)
            if RUN.search(p) and re.fullmatch(r"(not\()?symc\(sym\((Not\(sym\()?[\w:\.]+\.running_checks(_enabled)?\)*", p):
                if pos:
                    out.add("running")
            elif STV.search(p) and "isSome(" in p and "is_readout_frame" not in p and "stave" not in p.split("readout_frame_validator")[1][:12]:
                if not neg and not inner_neg:
                    out.add("stave")
    return out


def run(ctx, rep):
    f = ctx.facts()
    ev = Evaluator(f)
    cg = ctx.cg()
    reach = ctx.reachable()
    O = ctx.oracle("error_codes.json")
    R = Region(f, ev)

    # ---------------- R2.1 catalogue
    lits = all_code_literals(f, [p for p in reach if not f.fns[p].get("derived")])
    found = {}
    for code, fn, where_ in lits:
        found.setdefault(code, set()).add(fn)
    # bare code strings (computed codes of the frame validator)
    for p in sorted(reach):
        fn = f.fns[p]
        if not fn.get("thir") or not p.startswith(REG):
            continue
        for n in fn["thir"]["exprs"]:
            s = n.get("str")
            if s and re.fullmatch(r"E\d{2,4}", s):
                found.setdefault(s, set()).add(p)
    cat = set(O["codes"]) | set(O["outside_validators"])
    fam = [re.compile(x) for x in O["family_regex"]]
    rep.floor("R2.1-codes", len(found), 30, "distinct error codes in reachable code")
    for code in sorted(set(found) | cat):
        ok = code in found and code in cat
        rep.check(ok, "R2.1", "R2.1|code|%s" % code, "%s is emitted by %s" % (code, sorted(x.split("::")[-1] for x in found.get(code, []))[:3]), sorted(found.get(code, ["?"]))[0],
                  ("code %s of the documented catalogue is no longer emitted by any reachable code" % code) if code not in found else
                  ("code %s is emitted by %s but is not in the reviewed catalogue" % (code, sorted(found[code]))))
        if code in found:
            rep.check(any(r.fullmatch(code) for r in fam), "R2.1", "R2.1|family|%s" % code, "%s belongs to a README error-code family" % code, sorted(found[code])[0],
                      "%s matches none of the documented families %s" % (code, O["family_regex"]))

    # ---------------- call graph of the validator region with guards
    edges = {}   # callee -> list of (caller, atoms)
    codes_at = {}  # fn -> list of (code, atoms)
    work = [ENTRY]
    seen = set()
    unevaluable = []
    while work:
        p = work.pop()
        if p in seen:
            continue
        seen.add(p)
        recs = R.recs(p)
        if recs is None:
            unevaluable.append(p)
            continue
        for o in recs:
            if "call" in o:
                callee = o["call"]
                if callee in f.fns and f.fns[callee].get("thir"):
                    edges.setdefault(callee, []).append((p, atoms(o["guard"])))
                    work.append(callee)
            elif "code" in o:
                codes_at.setdefault(p, []).append((o["code"], atoms(o["guard"]), o["where"]))
    rep.floor("R2.3-region", len(seen), 40, "validator functions reachable from LinkValidator::do_checks")
    rep.check(not unevaluable, "R2.3", "R2.3|evaluable", "all %d region functions were analysed" % len(seen), ENTRY, "functions that could not be analysed: %s" % unevaluable[:5])
    TOP = frozenset(["running", "stave", "⊤"])
    gates = {p: TOP for p in seen}
    gates[ENTRY] = frozenset()
    changed = True
    while changed:
        changed = False
        for p in seen:
            if p == ENTRY:
                continue
            acc = None
            for caller, at in edges.get(p, []):
                if gates[caller] is TOP:
                    continue
                g = frozenset(gates[caller] | at)
                acc = g if acc is None else (acc & g)
            if acc is not None and acc != gates[p]:
                gates[p] = acc
                changed = True
    # ---------------- R2.3 gating per code site
    per_code = {}
    for p, lst in codes_at.items():
        if gates[p] is TOP:
            continue
        for code, at, where_ in lst:
            per_code.setdefault(code, []).append((frozenset(gates[p] | at), p, where_))
    for code, spec in sorted(O["codes"].items()):
        sites = per_code.get(code, [])
        exp = [frozenset(spec["gates"])] + ([frozenset(spec["also"]["gates"])] if "also" in spec else [])
        got = sorted(set(g for g, _, _ in sites), key=sorted)
        # stave implies running (validate_args rejects `check sanity its-stave`): a stave site may also sit behind the running test
        norm = lambda g: frozenset(g - {"running"}) if "stave" in g else g
        ok = bool(sites) and set(norm(g) for g in got) == set(norm(e) for e in exp)
        rep.check(ok, "R2.3", "R2.3|gate|%s" % code, "%s (%s): emitted behind %s" % (code, spec["rule"], [sorted(g) or ["no mode test"] for g in got]),
                  sites[0][1] if sites else CDP,
                  "%s (%s) is emitted behind the mode tests %s at %s — documented: %s" % (code, spec["rule"], [sorted(g) or ["none"] for g in got], [s[2] for s in sites][:3], [sorted(e) or ["none"] for e in exp]))
    extra = sorted(set(per_code) - set(O["codes"]))
    rep.check(not extra, "R2.3", "R2.3|uncatalogued", "every code emitted by the validators is in the gating table", CDP, "codes without a documented mode: %s" % extra)

    # ---------------- R2.2 arm coverage
    chk = CDP + "check"
    recs = R.recs(chk) or []
    arms = {}
    for o in recs:
        if "call" not in o and "code" not in o:
            continue
        label = None
        for g in o["guard"]:
            names = re.findall(r"symc\(is(\w+)\(sym\(payload\(", g)
            if names:
                label = "|".join(sorted(names))
        if label is None:
            continue
        arms.setdefault(label, []).append(o)
    rep.floor("R2.2-arms", len(arms), 11, "arms of CdpRunningValidator::check")

    def closure_codes(start_recs, base=frozenset()):
        """codes reachable from the given records → for each code the mode tests common to all paths to it"""
        got = {}
        todo = [(o, base | atoms(o["guard"])) for o in start_recs]
        visited = set()
        while todo:
            o, at = todo.pop()
            if "code" in o:
                got[o["code"]] = at if o["code"] not in got else (got[o["code"]] & at)
                continue
            if "call" not in o:
                continue
            callee = o["call"]
            if callee not in f.fns or not f.fns[callee].get("thir"):
                continue
            argv = o.get("argv") or []
            ctx_args = argv if any(isinstance(a, Agg) for a in argv) else None
            key = (callee, tuple(vkey(a) for a in ctx_args) if ctx_args else None, at)
            if key in visited:
                continue
            visited.add(key)
            sub = R.recs(callee, ctx_args)
            if sub is None:
                continue
            # arms decided by the actual argument are already pruned by the evaluator (guards `false` are skipped)
            todo.extend((x, at | atoms(x["guard"])) for x in sub if not any(g == "false" for g in x["guard"]))
        return got

    for label in sorted(set(arms) | set(O["arms"])):
        want = set(O["arms"].get(label, []))
        gotg = closure_codes(arms.get(label, []))
        got = set(gotg)
        missing, extra = sorted(want - got), sorted(got - want)
        rep.check(not missing and not extra and label in arms and label in O["arms"], "R2.2", "R2.2|arm|%s" % label, "word kind %s can report exactly %s" % (label, sorted(got)), chk,
                  "word kind %s: documented codes that cannot be reported %s; codes reported but not documented for this word kind %s%s" % (
                      label, missing, extra, (" — " + O["arm_doc"][label]) if label in O.get("arm_doc", {}) else ""))
        # within this word kind every code sits behind exactly its documented mode tests (a sanity rule gated by
        # `running checks` on one arm only is invisible to the meet over all arms)
        wrong = {}
        for code, at in sorted(gotg.items()):
            spec = O["codes"].get(code)
            if not spec:
                continue
            exp = [frozenset(spec["gates"])] + ([frozenset(spec["also"]["gates"])] if "also" in spec else [])
            nrm = lambda g: frozenset(g - {"running"}) if "stave" in g else frozenset(g)
            if nrm(at) not in [nrm(e) for e in exp]:
                wrong[code] = sorted(at)
        rep.check(not wrong, "R2.3", "R2.3|arm-gate|%s" % label, "word kind %s: every code behind its documented mode tests" % label, chk,
                  "word kind %s: codes behind the wrong mode tests on this arm: %s (documented: %s)" % (label, wrong, {c: O["codes"][c]["gates"] for c in wrong}))
    # RDH step
    rd = R.recs(LV + "do_rdh_checks") or []
    got = set(closure_codes(rd))
    rep.check(got == {"E10", "E11"}, "R2.2", "R2.2|arm|RDH", "the per-packet RDH step can report E10 (sanity) and E11 (running)", LV + "do_rdh_checks", "RDH step reports %s" % sorted(got))
    # entry: RDH step and payload step for every packet
    dr = R.recs(ENTRY) or []
    names = [(o["call"].split("::")[-1], atoms(o["guard"]), len(o["guard"])) for o in dr if "call" in o]
    rdc = [x for x in names if x[0] == "do_rdh_checks"]
    # the per-word step of the ITS target, looked for through the link validator's own helper methods
    ITS_STEP = "fastpasta::analyze::validators::its::lib::do_payload_checks"
    ev.watch = lambda c: c == ITS_STEP
    try:
        nargs = f.fns[ENTRY]["mir"]["argc"]
        dr2 = ev.collect_ifs(ENTRY, [Sym("a%d" % i) for i in range(nargs)], follow=lambda c: c.startswith(LV) and c != ENTRY and not c.endswith("do_rdh_checks"))
    except Unsupported:
        dr2 = []
    finally:
        ev.watch = None
    pay = [o for o in dr2 if "call" in o and o["call"] == ITS_STEP]
    okp = len(pay) == 1 and any(("isSome(" in g and "target" in g) and not g.startswith("not ") for g in pay[0]["guard"]) and any("is_empty" in g for g in pay[0]["guard"])
    rep.check(len(rdc) == 1 and rdc[0][2] == 0 and okp, "R2.2", "R2.2|entry", "every packet gets the RDH step; non-empty payloads of an ITS target get the per-word step", ENTRY,
              "do_checks: RDH step %s payload step guards %s" % (rdc, [o["guard"] for o in pay]))
    # the padding limit (no code): measured unconditionally for every payload that reaches the per-word step
    dp = "fastpasta::analyze::validators::its::lib::do_payload_checks"
    chain = [dp, "fastpasta::analyze::validators::lib::preprocess_payload", "fastpasta::analyze::validators::lib::extract_payload_ff_padding"]
    okc = True
    det = []
    for a, b_ in zip(chain, chain[1:]):
        rr = [o for o in (R.recs(a) or []) if "call" in o and o["call"] == b_]
        okc = okc and len(rr) == 1 and not rr[0]["guard"]
        det.append("%s→%s: %s" % (a.split("::")[-1], b_.split("::")[-1], [list(o["guard"])[:2] for o in rr] or "no call"))
    others = sorted(set(c for c, *_ in cg.call_sites(lambda p_: p_ == chain[2]) if c in reach and c != chain[1]))
    rep.check(okc and not others, "R2.2", "R2.2|padding-limit", "the end-of-payload padding limit is checked unconditionally for every checked payload (both data formats)", chain[1],
              "the padding limit is not checked unconditionally on the way do_payload_checks → preprocess_payload → extract_payload_ff_padding: %s; other callers %s" % (det, others))
    dpr = [o for o in (R.recs(dp) or [])]
    errsend = [o for o in dpr if "call" in o and o["call"].endswith("Sender::<T>::send")]
    ev.watch = None
    rep.note("R2.4: every emission is a StatType::Error; its way into the error counter and the exit status is decided by C14 (R14.2, R14.4) and C16")
    # ---------------- R2.5 the predicates are the documented ones
    # "detected" needs the test in front of each code to be the documented one: the predicate rules of the word
    # classification (C09), the RDH rules (C10), the status/data word rules (C11), the payload cut (C12), the stave
    # rules (C13) and the custom checks (C20) are necessary conditions of C02 too and run here under their own rule ids.
    from . import c09, c10, c11, c12, c13, c20
    for m in (c09, c10, c11, c12, c13, c20):
        m.run(ctx, rep)
