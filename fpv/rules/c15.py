"""C15 — statistics files round-trip and detect any drift (comparison half).

Decided: every serialised leaf of the StatsCollector tree is compared when an
input statistics file is validated (per struct: fields compared in
validate_fields ∪ fields delegated to a sub-struct's validate_other = all
fields, and the rebuilt `other` literal copies field f from other.f); the tree
derives both Serialize and Deserialize with no skip/default/rename attributes
and the written root is the root that is read back; a mismatch stores the
any-errors flag on all paths.  The collected data must be normalised
(finalize: sorted errors/links) before it is written or compared — otherwise
a file written by one run need not equal the next run's (shares C05 R5.3).
Not decided: behaviour of serde_json/toml themselves."""
from ..mir import callee_of, origin_calls, show_origin
from ..thir import Evaluator, TB, Agg, Sym, Unsupported
from ..facts import where

EXPLANATION = __doc__
SC = "fastpasta::stats::stats_collector::"
ROOT = SC + "StatsCollector"
EXEMPT = {(ROOT, "is_finalized"): "bookkeeping flag of the collector, not a statistic of the input"}


def closure_adts(f, root):
    seen, work = [], [root]
    while work:
        a = work.pop()
        if a in seen or a not in f.adts:
            continue
        seen.append(a)
        for v in f.adts[a]["variants"]:
            for fd in v["fields"]:
                for x in fd["ty"].get("adts", []):
                    if x.startswith("fastpasta::") and x not in seen:
                        work.append(x)
    return seen


def field_of_expr(tb, eid, base_names):
    """field name if expr is `<base>.f`, `<base>.f.clone()`, `<base>.f()` (accessor named f) — base var in base_names"""
    i, n = tb.e(eid)
    while n["k"] in ("Borrow", "Deref"):
        i, n = tb.e(n["e"])
    if n["k"] == "Call":
        fn = n.get("fn") or ""
        if fn.endswith("Clone::clone") or fn.endswith("::clone") or fn.endswith("::to_owned") or fn.endswith("::as_ref") or fn.endswith("::as_deref"):
            return field_of_expr(tb, n["args"][0], base_names)
        # accessor method other.f()
        if len(n["args"]) == 1:
            ai, an = tb.e(n["args"][0])
            while an["k"] in ("Borrow", "Deref"):
                ai, an = tb.e(an["e"])
            if an["k"] == "Var" and an["name"] in base_names:
                return fn.split("::")[-1], an["name"]
        return None
    if n["k"] == "Field":
        bi, bn = tb.e(n["e"])
        while bn["k"] in ("Borrow", "Deref"):
            bi, bn = tb.e(bn["e"])
        if bn["k"] == "Var" and bn["name"] in base_names:
            return n.get("name"), bn["name"]
    return None


def run(ctx, rep):
    f = ctx.facts()
    cg = ctx.cg()
    reach = ctx.reachable()
    ev = Evaluator(f)
    adts = closure_adts(f, ROOT)
    structs = [a for a in adts if f.adts[a]["kind"] == "struct"]
    rep.floor("R15.1", len(structs), 7, "structs in the serialisable closure of StatsCollector")

    # ---------- R15.1 every serialised leaf is compared
    for s in structs:
        name = s.split("::")[-1]
        fields = [fd["name"] for fd in f.adts[s]["variants"][0]["fields"]]
        vo = [p for p in f.fns if p.startswith(s + "::") and p.rsplit("::", 1)[1] in ("validate_other", "validate_other_stats")]
        vf = s + "::validate_fields"
        if not vo:
            rep.bad("R15.1", "R15.1|%s|validate_other" % name, "serialised struct %s has no validate_other: its fields are written to the statistics file but never compared" % name, where(f.adts[s]["span"]))
            continue
        vo = vo[0]
        tb = ev.tb(vo)
        compared = set()
        if vf in f.fns:
            tbf = ev.tb(vf)
            for i, n in tbf.walk():
                # a comparison of the two sides wherever it stands (an `if` condition, `(a != b).then(..)`, a match guard)
                if n["k"] == "If":
                    continue    # its condition is itself visited as a node
                ci, cn = i, n
                l = r = None
                if cn["k"] == "Binary" and cn["op"] == "Ne":
                    l, r = field_of_expr(tbf, cn["l"], {"self", "other"}), field_of_expr(tbf, cn["r"], {"self", "other"})
                elif cn["k"] == "Call" and (cn.get("fn") or "").endswith("PartialEq::ne"):
                    l, r = field_of_expr(tbf, cn["args"][0], {"self", "other"}), field_of_expr(tbf, cn["args"][1], {"self", "other"})
                if l and r and l[0] == r[0] and {l[1], r[1]} == {"self", "other"}:
                    compared.add(l[0])
                elif l or r:
                    rep.bad("R15.1", "R15.1|%s|compare_pair|%s" % (name, (l or r)[0]), "validate_fields of %s compares %s with %s (different fields or same side)" % (name, l, r), vf)
        # the rebuilt `other` literal and delegations in validate_other
        copied, defaulted, delegated = set(), set(), set()
        uses_validate_fields = False
        for i, n in tb.walk():
            if n["k"] == "Adt" and n["adt"] == s:
                for fd in n["fields"]:
                    src = field_of_expr(tb, fd["e"], {"other"})
                    if src and src[0] == fd["f"]:
                        copied.add(fd["f"])
                    elif src:
                        rep.bad("R15.1", "R15.1|%s|copy|%s" % (name, fd["f"]), "%s::validate_other rebuilds field `%s` from other.%s" % (name, fd["f"], src[0]), vo)
                    else:
                        defaulted.add(fd["f"])
            if n["k"] == "Call":
                fn = n.get("res") or n.get("fn") or ""
                if fn.endswith("::validate_other") and len(n["args"]) == 2:
                    a = field_of_expr(tb, n["args"][0], {"self"})
                    b_ = field_of_expr(tb, n["args"][1], {"other"})
                    if a and b_ and a[0] == b_[0]:
                        delegated.add(a[0])
                    elif a and b_:
                        rep.bad("R15.1", "R15.1|%s|delegate|%s" % (name, a[0]), "%s delegates self.%s against other.%s" % (name, a[0], b_[0]), vo)
                    elif a is None and b_ is None:
                        # `if let Some(alpide_stats) = self.alpide_stats() { if let Some(o) = other.alpide_stats() { alpide_stats.validate_other(o) } }`
                        ai, an = tb.e(n["args"][0])
                        bi, bn = tb.e(n["args"][1])
                        while an["k"] in ("Borrow", "Deref"):
                            ai, an = tb.e(an["e"])
                        while bn["k"] in ("Borrow", "Deref"):
                            bi, bn = tb.e(bn["e"])
                        if an["k"] == "Var" and bn["k"] == "Var" and an["name"].replace("other_", "") == bn["name"].replace("other_", ""):
                            delegated.add(an["name"])
                if fn == vf:
                    uses_validate_fields = True
                    # `other` handed over as it is (no rebuilt literal needed): every field reaches the comparison
                    if len(n["args"]) == 2:
                        oi, on = tb.e(n["args"][1])
                        while on["k"] in ("Borrow", "Deref"):
                            oi, on = tb.e(on["e"])
                        if on["k"] == "Var" and on.get("name") == "other":
                            copied.update(fields)
        if uses_validate_fields:
            # the field comparison lies on every path through validate_other (no shortcut returns before it)
            bvo = cg.body(vo)
            vfc = [bb for bb, t, cal, c in bvo.calls() if cal == vf]
            if not (vfc and bvo.all_paths_pass(0, vfc, to=bvo.return_blocks())):
                uses_validate_fields = False
                rep.bad("R15.1", "R15.1|%s|compare_on_every_path" % name, "%s::validate_other can return without having compared the fields (a path bypasses validate_fields)" % name, vo)
        for fld in fields:
            if (s, fld) in EXEMPT:
                rep.ok("R15.1", "R15.1|%s.%s" % (name, fld), "exempt: " + EXEMPT[(s, fld)], vo)
                continue
            ok = (fld in compared and fld in copied and uses_validate_fields) or (fld in delegated)
            why = "compared in validate_fields and copied from other.%s" % fld if fld in compared else ("delegated to %s's validate_other" % fld if fld in delegated else "")
            rep.check(ok, "R15.1", "R15.1|%s.%s" % (name, fld), "statistic %s.%s is %s" % (name, fld, why), vo,
                      "statistic %s.%s is serialised but not compared when an input statistics file is validated (compared=%s copied=%s delegated=%s)" % (
                          name, fld, fld in compared, fld in copied, fld in delegated))

    # ---------- R15.1b accessors named after a field return that field (validate_other rebuilds `other` through them)
    import re as _re
    from ..thir import Sym as _Sym, vkey as _vkey, ckey as _ckey, Unsupported as _Uns, Cond as _Cond
    n_acc = 0
    for s_ in structs:
        name = s_.split("::")[-1]
        fields = [fd["name"] for fd in f.adts[s_]["variants"][0]["fields"]]
        for fld in fields:
            acc = "%s::%s" % (s_, fld)
            fn = f.fns.get(acc)
            if not fn or not fn.get("mir") or fn["mir"]["argc"] != 1:
                continue
            n_acc += 1
            try:
                r = ev.call_fn(acc, [_Sym("SELF")])
                k = _ckey(r) if isinstance(r, _Cond) else _vkey(r)
            except _Uns as e:
                k = "unsupported"
            used = set(_re.findall(r"SELF\.(\w+)", k))
            rep.check(used == {fld}, "R15.1", "R15.1|accessor|%s.%s" % (name, fld), "%s::%s() reads field %s" % (name, fld, fld), acc,
                      "accessor %s::%s() reads field(s) %s — statistics rebuilt or reported through it belong to another field" % (name, fld, sorted(used) or k[:80]))
    rep.floor("R15.1-accessors", n_acc, 25, "field-named accessors of the statistics structs")

    # ---------- R15.2 serde symmetry
    for a in adts:
        name = a.split("::")[-1]
        traits = {im.get("trait") for im in f.impls if im["self"].get("adt") == a}
        ok = "serde::ser::Serialize" in traits and "serde::de::Deserialize" in traits
        rep.check(ok, "R15.2", "R15.2|derive|%s" % name, "%s derives Serialize and Deserialize" % name, where(f.adts[a]["span"]),
                  "%s is part of the statistics file but does not implement both Serialize and Deserialize" % name)
        attrs = list(f.adts[a].get("attrs") or [])
        for v in f.adts[a]["variants"]:
            attrs += (v.get("attrs") or [])
            for fd in v["fields"]:
                attrs += [(fd["name"] + ": " + x) for x in (fd.get("attrs") or [])]
        bad = [x for x in attrs if "serde" in x and any(k in x for k in ("skip", "default", "rename", "flatten", "with", "alias"))]
        rep.check(not bad, "R15.2", "R15.2|attrs|%s" % name, "no serde skip/default/rename attributes on %s" % name, where(f.adts[a]["span"]),
                  "serde attribute(s) %s make the written and the read statistics differ / hide a field" % bad)
    # serialised / deserialised field names (from the derive expansions) equal the struct's fields: catches skip, rename, default-on-missing
    for a in structs:
        name = a.split("::")[-1]
        fields = [fd["name"] for fd in f.adts[a]["variants"][0]["fields"]]
        ser = [k for k in f.fns if k.endswith("<impl serde::ser::Serialize for %s>::serialize" % a)]
        fconst = [k for k in f.consts if k.endswith("<impl serde::de::Deserialize<'de> for %s>::deserialize::FIELDS" % a)]
        if not ser or not fconst:
            rep.bad("R15.2", "R15.2|fields|%s" % name, "derive expansion of Serialize/Deserialize for %s not found" % name, where(f.adts[a]["span"]))
            continue
        sb = cg.body(ser[0])
        sn = []
        for bb, t, cal, c in sb.calls(live_only=False):
            if cal and cal.endswith("SerializeStruct::serialize_field"):
                o = sb.origin(t["args"][1])
                while o and o[0] in ("ref", "proj"):
                    o = o[1]
                if o[0] == "const" and "str" in o[1]:
                    sn.append(o[1]["str"])
        ct = TB(f.consts[fconst[0]], fconst[0])
        dn = [n["str"] for n in ct.exprs if n["k"] == "Lit" and "str" in n] if ct.ok else []
        rep.check(sn == fields and dn == fields, "R15.2", "R15.2|fields|%s" % name, "%s: written fields = read fields = struct fields (%d)" % (name, len(fields)), ser[0],
                  "%s: struct fields %s, serialised %s, deserialised %s — a skipped/renamed field drifts silently" % (name, fields, sn, dn))
    # write_stats serialises &self (the root); Controller::run deserialises the same root type
    ws = ROOT + "::write_stats"
    if ws in f.fns:
        b = cg.body(ws)
        sers = [(t, cal, c) for bb, t, cal, c in b.calls() if cal in ("serde_json::ser::to_string_pretty", "toml::ser::to_string_pretty")]
        ok = len(sers) == 2 and all(show_origin(b.origin(t["args"][0])).strip("&") in ("arg1", "&arg1") or "arg1" == show_origin(b.origin(t["args"][0])).replace("&", "") for t, cal, c in sers)
        rep.check(ok, "R15.2", "R15.2|write_root", "write_stats serialises the collector itself in both formats", ws)
        # the statistics file holds exactly the serialised document: it is written by a truncating call (fs::write,
        # File::create, or OpenOptions with truncate(true) and without append) — a longer file left from an earlier run
        # would otherwise keep its tail and the result would not parse / not compare
        from ..mir import Body as _Body, inline_fn as _inline
        wb = _Body(_inline(f, ws, lambda c: c.startswith("fastpasta::stats::") and "{closure" not in c, max_depth=3, max_blocks=2000))
        sinks_ok, sinks_bad = [], []
        truncs = [bb for bb, t, cal, c in wb.calls() if cal == "std::fs::OpenOptions::truncate" and t["args"][1].get("c", {}).get("int") == 1]
        appends = [bb for bb, t, cal, c in wb.calls() if cal == "std::fs::OpenOptions::append"]
        for bb, t, cal, c in wb.calls():
            if cal in ("std::fs::write", "std::fs::File::create", "std::fs::File::create_new"):
                sinks_ok.append(cal.split("::")[-1])
            elif cal == "std::fs::OpenOptions::open":
                (sinks_ok if (any(wb.dominates(tb_, bb) for tb_ in truncs) and not appends) else sinks_bad).append("OpenOptions::open")
        rep.check(bool(sinks_ok) and not sinks_bad, "R15.2", "R15.2|sink_truncated", "the statistics file is written by a truncating call (%s)" % sorted(set(sinks_ok)), ws,
                  "the statistics file is opened without truncation (%s): an existing longer file keeps its tail" % (sinks_bad or "no file sink found"))
    cr = "fastpasta::controller::Controller::<C>::run"
    if cr in f.fns:
        # run() with the free helper functions of its module inlined (the file loading may live in an extracted helper)
        from ..mir import Body, inline_fn
        b = Body(inline_fn(f, cr, lambda c: c.startswith("fastpasta::controller::") and "{closure" not in c, max_depth=3, max_blocks=6000))
        des = [(t, cal, c) for bb, t, cal, c in b.calls() if cal in ("serde_json::de::from_str", "toml::de::from_str")]
        ok = len(des) == 2 and all(any(g.get("adt") == ROOT for g in (c.get("ga") or [])) for t, cal, c in des)
        rep.check(ok, "R15.2", "R15.2|read_root", "the input statistics file is deserialised into StatsCollector in both formats", cr,
                  "deserialisation targets: %s" % [[g.get("s") for g in (c.get("ga") or [])] for t, cal, c in des])

        # ---------- R15.3 mismatch ⇒ status
        # decided per outcome of the comparison (run() and the controller's helpers evaluated with validate_other_stats
        # replaced by Ok / Err): the only difference is one store of `true` into the any-errors flag
        ev = Evaluator(f)
        evs = {}
        for outcome in ("Ok", "Err"):
            ev.call_hooks = [(lambda fn_, r_: (r_ or fn_).endswith("::validate_other_stats"),
                              lambda n, a, outcome=outcome: Agg("core::result::Result", outcome, {"0": () if outcome == "Ok" else Sym("MISMATCH")}))]
            ev.watch = lambda c: c.endswith("::store")
            try:
                out = ev.collect_ifs(cr, [Sym("self")], follow=lambda c: c.startswith("fastpasta::controller::"))
                evs[outcome] = [(tuple(o["args"]), tuple(g for g in o["guard"] if g not in ("true", "not false"))) for o in out
                                if "call" in o and not any(g in ("false", "not true") for g in o["guard"])]
            except Unsupported as e:
                evs[outcome] = [(("unevaluable: %s" % e,), ())]
            finally:
                ev.call_hooks = []
                ev.watch = None
        extra = [e for e in evs["Err"] if e not in evs["Ok"]]
        lost = [e for e in evs["Ok"] if e not in evs["Err"]]
        ok = len(extra) == 1 and not lost and "self.any_errors_flag" in extra[0][0][0] and extra[0][0][1] == "true" \
            and all("input_stats_file" in g and g.startswith("symc(isSome(") for g in extra[0][1])
        rep.check(ok, "R15.3", "R15.3|mismatch_sets_flag", "a statistics mismatch stores true into the any-errors flag on every path", cr,
                  "the Err result of validate_other_stats does not always set the any-errors flag (stores only after Err: %s; only after Ok: %s)" % ([(e[0][:2], [g[:60] for g in e[1]]) for e in extra], [(e[0][:2]) for e in lost]))
        # the file that is written and the statistics a file is compared with are in the same normalisation state:
        # finalisation (sorting, derived lists) is skipped in the report-less modes, so it must be skipped — or done —
        # for both; a file written by a command must be accepted when the same command verifies it
        fin_ = [bb for bb, t, cal, c in b.calls() if cal == ROOT + "::finalize"]
        wr_ = [bb for bb, t, cal, c in b.calls() if cal == ROOT + "::write_stats"]
        va_ = [bb for bb, t, cal, c in b.calls() if cal == ROOT + "::validate_other_stats"]
        if fin_ and wr_ and va_:
            w_always = all(b.all_paths_pass(0, fin_, to=[x]) for x in wr_)
            v_always = all(b.all_paths_pass(0, fin_, to=[x]) for x in va_)
            rep.check(w_always == v_always, "R15.3", "R15.3|same_state_written_and_compared", "statistics are written and compared in the same finalisation state", cr,
                      "finalize() lies on every path to %s but not to %s: in the modes that skip the report a statistics file no longer round-trips" % (
                          ("write_stats", "validate_other_stats") if w_always else ("validate_other_stats", "write_stats")))
        else:
            rep.missing("R15.3", "finalize / write_stats / validate_other_stats in Controller::run")
        # validation compares *finalised* data: finalize (sorting) must precede write_stats and validate_other_stats on every path
        from . import c05
        c05.normalisation_rules(ctx, rep)
    else:
        rep.missing("R15.2", cr)
