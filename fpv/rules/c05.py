"""C05 — results do not depend on thread scheduling.

Decided: every piece of result state that more than one thread can feed is
either accumulated commutatively or normalised by a deterministic total order
before it is observed: producer attribution of every StatType variant by
thread role (R5.1); the accumulator of each multi-producer variant is a
field-wise sum or an order-sensitive container (R5.2); order-sensitive
containers are sorted — unconditionally and with a stable sort — on every path
before they are printed, serialised or compared, and derived containers are
computed after the sort (R5.3); observations are dominated by the exit of the
receive loop, which only ends on disconnect (R5.4).
Not decided: what the OS/thread library delivers; timing."""
import re
from ..mir import callee_of, origin_calls, show_origin
from ..thir import Evaluator
from ..facts import where

EXPLANATION = __doc__
SC = "fastpasta::stats::stats_collector::"
ES = SC + "error_stats::ErrorStats::"
ST = "fastpasta::stats::StatType"
MULTI_INSTANCE_ROLES = {"dispatch_by_id": "one validator thread is spawned per link / FEE ID"}
STABLE_SORTS = ("::sort_by_cached_key", "::sort_by_key", "::sort_by", "::sort")
UNSTABLE = ("::sort_unstable", "::sort_unstable_by", "::sort_unstable_by_key")


MUT_CALLS = ("::push", "::extend", "::append", "::insert", "::extend_from_slice", "::push_str", "::push_back", "::push_front")


def mutated_receivers(f, cg, body, depth=0):
    """receiver provenance strings of all container-growing calls in a body, including the bodies of closures
    created in it (captured variables are mapped back to what was captured)"""
    out = []
    for bb, t, c2, ci in body.calls():
        if c2 and c2.startswith(("alloc::vec::Vec", "alloc::string::String", "alloc::collections")) and any(c2.endswith(m) for m in MUT_CALLS):
            out.append(show_origin(body.origin(t["args"][0])))
    if depth < 3:
        for i_, j_, st in body.stmts():
            if st["k"] == "assign" and st["rv"]["k"] == "agg" and st["rv"].get("closure") and st["rv"]["closure"] in f.fns and f.fns[st["rv"]["closure"]].get("mir"):
                caps = [show_origin(body.origin(op_)) for op_ in st["rv"]["ops"]]
                cb = cg.body(st["rv"]["closure"])
                for so in mutated_receivers(f, cg, cb, depth + 1):
                    m_ = re.match(r"^&?\*?arg1\*?\.(\d+)(\*?)(.*)$", so.replace("(", "").replace(")", "")) or re.match(r"^&?arg1\*?\.(\d+)(\*?)(.*)$", so)
                    if m_ and int(m_.group(1)) < len(caps):
                        out.append(caps[int(m_.group(1))] + m_.group(3))
                    else:
                        out.append(so)
    return out


def normalisation_rules(ctx, rep):
    """R5.3 (shared with C15): sorting of the order-sensitive result containers"""
    f = ctx.facts()
    cg = ctx.cg()
    fz = ES + "finalize_stats"
    srt = ES + "sort_error_msgs_by_mem_pos"
    if fz not in f.fns or srt not in f.fns:
        rep.missing("R5.3", fz)
        return
    b = cg.body(fz)
    sorts = [bb for bb, t, cal, c in b.calls() if cal == srt]
    rep.check(len(sorts) == 1 and b.all_paths_pass(0, sorts), "R5.3", "R5.3|sort_unconditional",
              "finalize_stats sorts reported_errors on every path (also when errors are muted)", fz,
              "the error list is not sorted on every path of finalize_stats (e.g. skipped under --mute-errors): the statistics output then carries the thread-arrival order")
    derived = [bb for bb, t, cal, c in b.calls() if cal in (ES + "check_errors_for_stave_id", ES + "process_unique_error_codes")]
    rep.check(len(derived) == 2 and sorts and all(b.dominates(sorts[0], d) for d in derived), "R5.3", "R5.3|derived_after_sort",
              "staves_with_errors and unique_error_codes are derived after the sort", fz)
    sb = cg.body(srt)
    sc = [(cal, t) for bb, t, cal, c in sb.calls() if cal and ("::sort" in cal)]
    stable = len(sc) == 1 and sc[0][0].startswith("alloc::slice::<impl [T]>") and any(sc[0][0].endswith(x) for x in STABLE_SORTS) and not any(u in sc[0][0] for u in UNSTABLE)
    recv_ok = sc and "reported_errors" in show_origin(sb.origin(sc[0][1]["args"][0]))
    rep.check(stable and recv_ok, "R5.3", "R5.3|sort_stable", "reported_errors is sorted with a stable sort (%s): ties keep their per-producer order" % (sc[0][0].split("::")[-1] if sc else None), srt,
              "reported_errors is sorted with %s: several messages share an offset, so an unstable sort leaves their order dependent on the arrival permutation" % ([c for c, t in sc]))
    # links
    rf = SC + "rdh_stats::RdhStats::finalize"
    if rf in f.fns:
        rb = cg.body(rf)
        sl = [bb for bb, t, cal, c in rb.calls() if cal == SC + "rdh_stats::RdhStats::sort_links_observed"]
        ok = bool(sl) and rb.all_paths_pass(0, sl)
        so = SC + "rdh_stats::RdhStats::sort_links_observed"
        if ok and so in f.fns:
            ok = any(cal and "::sort" in cal and "links" in show_origin(cg.body(so).origin(t["args"][0])) for bb, t, cal, c in cg.body(so).calls())
        rep.check(ok, "R5.3", "R5.3|links_sorted", "RdhStats::finalize sorts the observed links", rf)
    cf = SC + "StatsCollector::finalize"
    if cf in f.fns:
        cb = cg.body(cf)
        calls = [cal for bb, t, cal, c in cb.calls()]
        rep.check(rf in calls and fz in calls, "R5.3", "R5.3|finalize_calls", "StatsCollector::finalize finalises RDH and error statistics", cf)
    # Controller: process_stats (→ finalize) precedes printing; it is skipped only in view / stdout-output mode
    ps = "fastpasta::controller::Controller::<C>::process_stats"
    cr = "fastpasta::controller::Controller::<C>::run"
    if ps in f.fns and cr in f.fns:
        pb = cg.body(ps)
        fin = [bb for bb, t, cal, c in pb.calls() if cal == cf]
        prn = [bb for bb, t, cal, c in pb.calls() if cal and cal.endswith("ErrPrinter::print")]
        rep.check(fin and pb.all_paths_pass(0, fin) and all(any(pb.dominates(x, p_) for x in fin) for p_ in prn), "R5.3", "R5.3|finalize_before_print",
                  "process_stats finalises on every path and before errors are printed", ps)
        rb = cg.body(cr)
        psb = [bb for bb, t, cal, c in rb.calls() if cal == ps]
        guard_ok = False
        for x in rb.live_blocks():
            tt = rb.blocks[x]["t"]
            if tt["k"] == "switch" and psb and rb.dominates(x, psb[0]):
                srcs = rb.source_calls(tt["d"])
                if any(s.endswith("ViewOpt::view") or s.endswith("::view") for s in srcs) or any(s.endswith("output_mode") for s in srcs):
                    guard_ok = True
        rep.check(len(psb) == 1 and guard_ok, "R5.3", "R5.3|finalize_skipped_only_by_mode",
                  "finalisation is skipped only in view / stdout-output mode (single producer of errors there: the scanner)", cr)


def process_consumers(f, ev):
    """{(check given, view given, filter set, output mode): ([consumer threads started], undecided?)} — fastpasta::process
    evaluated for each of the 24 combinations with the configuration accessors replaced by the combination's values"""
    from ..thir import Agg as _Agg, Sym as _Sym, Cond as _Cond, Unsupported as _Uns
    pr = "fastpasta::process"
    some = lambda x: _Agg("core::option::Option", "Some", {"0": x})
    none = _Agg("core::option::Option", "None", {})
    dom = [k for k in f.adts if k.endswith("::DataOutputMode")]
    out = {}
    for chk in (False, True):
        for vw in (False, True):
            for flt in (False, True):
                for om in ("None", "File", "Stdout"):
                    ev.call_hooks = [
                        (lambda fn, res: (res or fn).endswith("::check") and "Opt" in (res or fn), lambda n, a, chk=chk: some(_Sym("CHK")) if chk else none),
                        (lambda fn, res: (res or fn).endswith("::view") and "Opt" in (res or fn), lambda n, a, vw=vw: some(_Sym("VW")) if vw else none),
                        (lambda fn, res: (res or fn).endswith("::filter_enabled"), lambda n, a, flt=flt: _Cond("true" if flt else "false")),
                        (lambda fn, res: (res or fn).endswith("::output_mode"), lambda n, a, om=om: _Agg(dom[0] if dom else "DataOutputMode", om, {} if om != "File" else {"0": _Sym("P")})),
                    ]
                    ev.watch = lambda c: c.endswith("::spawn_analysis") or c.endswith("::spawn_writer")
                    und = False
                    try:
                        recs_ = [o for o in ev.collect_ifs(pr, [_Sym("cfg"), _Sym("loader"), _Sym("stat_send"), _Sym("stop")]) if "call" in o and not o.get("closure")]
                    except _Uns as e:
                        und = "%s" % e
                        recs_ = []
                    finally:
                        ev.call_hooks = []
                        ev.watch = None
                    live = [o for o in recs_ if not any(g in ("false", "not true") for g in o["guard"])]
                    if any(g not in ("true", "not false") for o in live for g in o["guard"]):
                        und = und or True
                    out[(chk, vw, flt, om)] = ([o["call"].split("::")[-1] for o in live], und)
    return out


def run(ctx, rep):
    f = ctx.facts()
    cg = ctx.cg()
    reach = ctx.reachable()
    roles, sp = ctx.roles()

    # ---------- R5.1 producer attribution
    prod = {}
    for p in sorted(reach):
        fn = f.fns[p]
        if not fn.get("mir") or fn.get("derived"):
            continue
        b = cg.body(p)
        for i, j, s in b.stmts():
            if s["k"] == "assign" and s["rv"]["k"] == "agg" and s["rv"].get("adt") == ST:
                v = s["rv"]["vname"]
                rs = [r for r, fs in roles.items() if p in fs and r != "spawn_vec_reader"]
                if p.startswith("fastpasta::controller::") or p.startswith(SC):
                    continue  # the consumer side re-wraps received values
                prod.setdefault(v, set()).update(rs)
    variants = [v["name"] for v in f.adts[ST]["variants"]]
    multi = {}
    for v in variants:
        rs = prod.get(v, set())
        is_multi = len(rs) > 1 or bool(rs & set(MULTI_INSTANCE_ROLES))
        multi[v] = is_multi
        rep.ok("R5.1", "R5.1|%s" % v, "StatType::%s produced by roles %s → %s" % (v, sorted(rs), "multi-producer" if is_multi else "single producer"), ST)
    rep.extra["multi_producer_variants"] = sorted(v for v, m in multi.items() if m)
    expected_multi = {"Error", "Fatal", "AlpideStats"}
    got_multi = {v for v, m in multi.items() if m}
    rep.check(got_multi == expected_multi, "R5.1", "R5.1|multi_set", "multi-producer variants are exactly %s" % sorted(expected_multi), ST,
              "the set of statistics fed by several threads is now %s (reviewed set: %s): a newly shared statistic needs a commutative accumulator or a normalisation" % (sorted(got_multi), sorted(expected_multi)))

    # ---------- R5.2 accumulation of multi-producer variants
    col = SC + "StatsCollector::collect"
    ev = Evaluator(f)
    tb = ev.tb(col)
    if not tb:
        rep.missing("R5.2", col)
        return
    arm_callee = {}
    for i, n in tb.walk():
        if n["k"] == "Match":
            for a in n["arms"]:
                arm = tb.arms[a]
                pat = arm["pat"]
                if pat["k"] == "Variant" and pat["adt"] == ST:
                    cals = [(c.get("res") or c.get("fn")) for _, c in tb.calls(arm["body"]) if (c.get("fn") or "").startswith("fastpasta::")]
                    arm_callee[pat["vname"]] = cals
            break
    rep.check(set(arm_callee) == set(variants), "R5.2", "R5.2|collect_exhaustive", "collect() has one arm per StatType variant", col,
              "collect arms %s vs variants %s" % (sorted(arm_callee), sorted(variants)))
    # AlpideStats: field-wise sums only
    for v in sorted(got_multi):
        cals = arm_callee.get(v, [])
        if v == "Fatal":
            rep.ok("R5.2", "R5.2|Fatal", "first-arrival-wins fatal message: exempt (the property excludes runs with a fatal input error)", col)
            continue
        if v == "Error":
            ok = cals and cals[-1] == ES + "add_err"
            rep.check(ok, "R5.2", "R5.2|Error", "errors go to add_err (order-sensitive Vec + counter): normalised by R5.3", col)
            continue
        ok = True
        why = []
        from .c14 import fieldwise_sum_problems
        todo_, seen_ = [c_ for c_ in cals if c_.endswith("::sum")], set()
        while todo_:
            cal = todo_.pop()
            if cal in seen_:
                continue
            seen_.add(cal)
            why.extend(fieldwise_sum_problems(ev, f, cal)[0])
            # nested sums (a struct field that is itself summed)
            tbc_ = ev.tb(cal)
            if tbc_ is not None:
                todo_.extend(q_ for q_ in ((c_.get("res") or c_.get("fn") or "") for _, c_ in tbc_.calls()) if q_.endswith("::sum") and q_ in f.fns)
        ok = bool(cals) and any(c.endswith("::sum") for c in cals) and not why
        rep.check(ok, "R5.2", "R5.2|%s" % v, "StatType::%s is accumulated by field-wise `+=` only (commutative)" % v, col,
                  "accumulator of multi-producer StatType::%s is not a pure field-wise sum: %s" % (v, why or cals))
    # ---------- R5.3
    normalisation_rules(ctx, rep)
    # every order-sensitive container that is filled while multi-producer messages ARRIVE must be normalised in
    # finalize: sorted, or rebuilt wholesale from normalised data (helpers inlined, so it does not matter where
    # the push sits)
    from ..mir import Body, inline_fn
    MUT = ("::push", "::extend", "::append", "::insert", "::extend_from_slice", "::push_str", "::push_back", "::push_front")
    es_adt = f.adts.get(ES.rstrip(":"))
    es_mod = ES.rsplit("::", 2)[0] + "::"
    arrival = {}
    for v in sorted(got_multi - {"Fatal"}):
        for cal in arm_callee.get(v, []):
            if cal not in f.fns or not f.fns[cal].get("mir"):
                continue
            bi = Body(inline_fn(f, cal, lambda c: c.startswith(SC), max_depth=3, max_blocks=1500))
            for so in mutated_receivers(f, cg, bi):
                m_ = re.search(r"arg1\*?((?:\.[A-Za-z_]\w*)+)\*?$", so.lstrip("&"))
                if m_:
                    arrival.setdefault(m_.group(1).lstrip("."), set()).add("%s via %s" % (v, cal.split("::")[-1]))
    rep.floor("R5.3-arrival-fields", len(arrival), 1, "containers filled in arrival order by multi-producer messages")
    fzb = Body(inline_fn(f, SC + "StatsCollector::finalize", lambda c: c.startswith(SC), max_depth=4, max_blocks=3000)) if SC + "StatsCollector::finalize" in f.fns else None
    for fld, how in sorted(arrival.items()):
        leaf = fld.split(".")[-1]
        norm = []
        if fzb is not None:
            for bb, t, c2, ci in fzb.calls():
                if c2 and "::sort" in c2 and re.search(r"\.%s\b" % re.escape(leaf), show_origin(fzb.origin(t["args"][0]))):
                    norm.append(bb)
            for i_, j_, st in fzb.stmts():
                if st["k"] == "assign":
                    pr = st["lhs"].get("p", [])
                    if pr and isinstance(pr[-1], list) and pr[-1][0] == "f" and len(pr[-1]) > 2 and pr[-1][2] == leaf:
                        norm.append(i_)
        # `if self.is_finalized { return; }` — already normalised by an earlier call
        done = []
        for x in fzb.live_blocks():
            tt = fzb.blocks[x]["t"]
            if tt["k"] == "switch" and show_origin(fzb.origin(tt["d"])).endswith(".is_finalized"):
                done += [tt["else"]] if any(v[0] == 0 for v in tt["vals"]) else [v[1] for v in tt["vals"] if v[0] != 0]
        ok = bool(norm) and fzb.all_paths_pass(0, norm + done, to=[x for x in fzb.return_blocks()])
        rep.check(ok, "R5.3", "R5.3|arrival_ordered|%s" % fld, "%s (filled on arrival: %s) is sorted or rebuilt in finalize on every path" % (fld, sorted(how)), ES,
                  "%s is filled in message-arrival order (%s) and finalize neither sorts it nor rebuilds it: its order depends on thread scheduling" % (fld, sorted(how)))

    # ---------- R5.4 observations after the receive loop ended by disconnect
    cr = "fastpasta::controller::Controller::<C>::run"
    if cr in f.fns:
        b = cg.body(cr)
        recv = [bb for bb, t, cal, c in b.calls() if cal == "flume::Receiver::<T>::recv"]
        obs = [bb for bb, t, cal, c in b.calls() if cal and (cal.endswith("::process_stats") or cal.endswith("::write_stats") or cal.endswith("::validate_other_stats")
                                                              or cal.endswith("::validate_custom_stats") or cal.endswith("Controller::<C>::print"))]
        ok = len(recv) == 1 and obs and all(b.dominates(recv[0], o) and not b.on_cycle(o) for o in obs)
        rep.check(ok, "R5.4", "R5.4|observe_after_loop", "all observations of the statistics happen after the receive loop ended (all producers dropped their senders)", cr,
                  "statistics are observed before the receive loop has ended")
        upd = [bb for bb, t, cal, c in b.calls() if cal and cal.endswith("Controller::<C>::update")]
        rep.check(len(upd) == 1 and b.on_cycle(upd[0]), "R5.4", "R5.4|single_consumer", "one consumer applies the updates sequentially", cr)

    # ---------- R5.6 one consumer per packet stream
    # The reader's packet batches go to exactly one consumer thread (analysis or writer).  Two consumers on the same
    # channel would share the batches by whoever receives first: which packets are analysed depends on scheduling.
    pr = "fastpasta::process"
    if pr in f.fns:
        # decided for each of the 24 combinations of (check given, view given, filter set, output mode) by evaluating
        # process() with the configuration accessors replaced by the combination's values and counting the consumer
        # threads it starts (a CFG path count would pair branches that exclude each other)
        table = process_consumers(f, ev)
        many, undecided, n_comb = [], [], len(table)
        for (chk, vw, flt, om), (names, und) in sorted(table.items()):
            if und:
                undecided.append("check=%s view=%s filter=%s output=%s%s" % (chk, vw, flt, om, (": " + und) if isinstance(und, str) else ""))
            if len(names) > 1:
                many.append("check=%s view=%s filter=%s output=%s → %s" % (chk, vw, flt, om, names))
        rep.check(not many and not undecided, "R5.6", "R5.6|single_consumer_of_batches", "in each of the %d option combinations process() gives the reader's batch channel to at most one consumer thread" % n_comb, pr,
                  "process() starts more than one consumer of the reader's batch channel (the batches are then split between them by scheduling): %s%s" % (many[:4], (" — undecided: %s" % undecided[:3]) if undecided else ""))
    else:
        rep.missing("R5.6", pr)

    # ---------- R5.5 messages of different producers never share a sort key
    # The error list is ordered by the leading offset only (stable): two messages with the same offset keep their
    # arrival order, which is deterministic only when both come from the same thread.  Validators report at a packet's
    # RDH offset or inside its payload; the reader's own messages (payload cut short / skip past the end) must therefore
    # not be positioned at a delivered packet: on every path to such a report the tracker has already been advanced
    # past the packet (the position after its end is used by no validator message).  [This is the flip side of the
    # recorded finding F9: repairing F9 needs a tie-break in the sort, and this rule replaced by it.]
    from . import c03
    from ..mir import Body as _Body, inline_fn as _inline
    lc = c03.SCAN + "load_cdp"
    if lc in f.fns:
        rp_ = [p_ for p_ in f.fns if p_.endswith("InputScanner::<R>::report")]
        bi = _Body(_inline(f, lc, lambda c: (c.startswith(c03.AP + "input_scanner::InputScanner::<R>::") and not c.endswith("::report")), max_depth=3, max_blocks=2000))
        reps = [bb for bb, t, cal, c in bi.calls() if rp_ and cal == rp_[0]]
        adv = [bb for bb, t, cal, c in bi.calls() if cal in (c03.TRK + "::next", c03.TRK + "::update_mem_address")]
        bad = [bb for bb in reps if not bi.all_paths_pass(0, adv, to=[bb])]
        rep.check(bool(reps) and bool(adv) and not bad, "R5.5", "R5.5|reader_messages_after_packet",
                  "the reader's own error messages (%d site(s)) are positioned after the tracker moved past the packet — never at an offset a validator reports at" % len(reps), lc,
                  "%d of %d reader message(s) in load_cdp can be emitted before the position tracker was advanced past the packet: the message then carries the packet's own offset, "
                  "the same sort key as the validators' messages for that packet, and their relative order depends on thread scheduling" % (len(bad), len(reps)))
    else:
        rep.missing("R5.5", lc)


def _sum_only(f, ev, path):
    """violations of 'only field-wise +=' inside a sum() function (recursing into nested sum calls)"""
    tb = ev.tb(path)
    if not tb:
        return ["%s has no body" % path]
    bad = []
    n_ops = 0
    for i, n in tb.walk():
        if n["k"] == "AssignOp":
            n_ops += 1
            if n["op"] != "AddAssign":
                bad.append("%s at %s" % (n["op"], where(n.get("sp"))))
            else:
                # self.f += other.f (same field)
                lf = _field_name(tb, n["l"])
                rf = _field_name(tb, n["r"])
                if lf != rf:
                    bad.append("self.%s += other.%s at %s" % (lf, rf, where(n.get("sp"))))
        elif n["k"] == "Assign":
            # accepted form: self.f = self.f.sum(other.f)
            ri, rn = tb.e(n["r"])
            lf = _field_name(tb, n["l"])
            okf = False
            if rn["k"] == "Call" and ((rn.get("res") or rn.get("fn") or "").endswith("::sum")) and len(rn["args"]) == 2:
                if _field_name(tb, rn["args"][0]) == lf == _field_name(tb, rn["args"][1]):
                    okf = True
                    n_ops += 1
            if not okf:
                bad.append("plain assignment at %s" % where(n.get("sp")))
        elif n["k"] == "Adt" and n.get("adt") and path.startswith(n["adt"] + "::"):
            # functional form: Self { f: self.f + other.f, .. }
            for fd in n["fields"]:
                ei, en = tb.e(fd["e"])
                if en["k"] == "Binary" and en["op"] == "Add" and _field_name(tb, en["l"]) == fd["f"] == _field_name(tb, en["r"]):
                    n_ops += 1
                else:
                    bad.append("field %s is not self.%s + other.%s at %s" % (fd["f"], fd["f"], fd["f"], where(en.get("sp"))))
        elif n["k"] == "Call":
            cal = n.get("res") or n.get("fn") or ""
            if cal.endswith("::sum") and cal in f.fns and cal != path:
                bad.extend(_sum_only(f, ev, cal))
                n_ops += 1
    if n_ops == 0:
        bad.append("%s contains no accumulation" % path)
    return bad


def _field_name(tb, eid):
    i, n = tb.e(eid)
    while n["k"] in ("Borrow", "Deref", "Cast"):
        i, n = tb.e(n["e"])
    if n["k"] == "Field":
        return n.get("name")
    return None
