#!/bin/bash
# every confirmed seed applied to its own scratch copy of /repo, the property check run on the copy; J seeds at a time
cd /verif; export FPV_EXTRACT_SLOTS=${FPV_EXTRACT_SLOTS:-8}
J=${1:-6}
one() {
  d=$1; id=$(basename $d); pid=$(python3 -c "import json;print(json.load(open('$d/meta.json'))['property'])")
  D=$(mktemp -d /tmp/fpv_seedtab_XXXX)
  rsync -a --exclude target --exclude .git --exclude '*.raw' /repo/ $D/repo/
  if ! patch -p1 -s -d $D/repo -i "/verif/$d/patch.diff" >/dev/null 2>&1; then echo "$id|$pid|PATCH-DOES-NOT-APPLY"; rm -rf $D; return; fi
  out=$(FPV_EVIDENCE_DIR=$D/ev ./check $pid --repo $D/repo 2>&1)
  rules=$(echo "$out" | grep -o "key=[^ ]*" | sed 's/key=//' | tr '\n' ' ')
  verdict=$(echo "$out" | grep -c "^VIOLATION")
  echo "$id|$pid|$([ $verdict -gt 0 ] && echo DETECTED || echo MISSED)|$rules"
  rm -rf $D
}
export -f one
ls -d seeded/*/ | sed 's#/$##' | xargs -P $J -I{} bash -c 'one {}' | sort
