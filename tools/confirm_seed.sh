#!/bin/bash
# usage: confirm_seed.sh <worktree> <seeddir-name> <seed-id>
# Confirms a seeded change in its scratch worktree (compiles, suite green, demo fails with / passes without),
# then stores it under /verif/seeded/<seed-id>/.
WT=$1; SD=$2; ID=$3
LOG=/tmp/confirm_$ID.log
cd "$WT" || exit 2
git checkout -q -- . 2>/dev/null
{
echo "== apply"; git apply "$SD/patch.diff" || { echo "APPLY-FAILED"; exit 3; }
echo "== build"; cargo build --offline -q 2>&1 | tail -3
echo "== demo with change"; bash "$SD/demo.sh" "$WT" > /tmp/confirm_$ID.demo1 2>&1; D1=$?; echo "demo rc=$D1"; tail -5 /tmp/confirm_$ID.demo1
echo "== tests with change"; cargo test --workspace --no-fail-fast --offline 2>&1 | grep -E "^test result|FAILED|panicked" > /tmp/confirm_$ID.tests; T_FAIL=$(grep -c -E "FAILED|[1-9][0-9]* failed" /tmp/confirm_$ID.tests); T_PASS=$(awk '/^test result/{s+=$4} END{print s}' /tmp/confirm_$ID.tests); echo "tests passed=$T_PASS failing-lines=$T_FAIL"
echo "== revert"; git checkout -q -- .; cargo build --offline -q 2>&1 | tail -3
echo "== demo without change"; bash "$SD/demo.sh" "$WT" > /tmp/confirm_$ID.demo0 2>&1; D0=$?; echo "demo rc=$D0"; tail -3 /tmp/confirm_$ID.demo0
if [ "$D1" != "0" ] && [ "$D0" = "0" ] && [ "$T_FAIL" = "0" ] && [ "$T_PASS" -ge 323 ]; then
  mkdir -p /verif/seeded/$ID
  cp "$SD/patch.diff" /verif/seeded/$ID/patch.diff
  cp "$SD/demo.sh" /verif/seeded/$ID/demo.sh
  for f in "$SD"/*; do case "$f" in *patch.diff|*demo.sh|*meta.json) ;; *) [ -f "$f" ] && [ $(stat -c %s "$f") -lt 200000 ] && cp "$f" /verif/seeded/$ID/ ;; esac; done
  python3 - "$SD/meta.json" "/verif/seeded/$ID/meta.json" "$T_PASS" "$D1" "$D0" <<'PY'
import json,sys
m=json.load(open(sys.argv[1]))
m["confirmed"]={"tests_passed_with_change":int(sys.argv[3]),"demo_rc_with_change":int(sys.argv[4]),"demo_rc_without_change":int(sys.argv[5]),
 "ran":["git apply patch.diff","cargo build --offline","bash demo.sh <worktree> (non-zero)","cargo test --workspace --no-fail-fast --offline (all green)","git checkout -- .","cargo build --offline","bash demo.sh <worktree> (zero)"]}
json.dump(m,open(sys.argv[2],"w"),indent=1)
PY
  echo "CONFIRMED $ID"
else
  echo "NOT-CONFIRMED $ID (demo_with=$D1 demo_without=$D0 tests_fail=$T_FAIL tests_pass=$T_PASS)"
fi
} > $LOG 2>&1
tail -1 $LOG
