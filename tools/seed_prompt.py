#!/usr/bin/env python3
"""prints the sub-agent prompt for a property id (text of the property only; nothing from /verif)"""
import json, sys
pid = sys.argv[1]
hints = sys.argv[2] if len(sys.argv) > 2 else ""
for l in open('/verif/properties.jsonl'):
    p = json.loads(l)
    if p['id'] == pid:
        title = p['title']
wt = "/tmp/wt_%s" % pid
print(f"""You are working in a scratch git worktree of the CramBL/fastPASTA repository at {wt} (a Rust cargo workspace: crates `fastpasta` and `alice_protocol_reader`; fastPASTA is a CLI that parses and validates ALICE detector raw binary data). Work ONLY inside {wt}. Never touch /repo or /verif or any other directory. There is no network; build with `cargo build --offline` and test with `cargo test --workspace --offline` (a prebuilt `target/` directory is already there, so builds are incremental). Test data files are under tests/test-data/.

The file {wt}/PROPERTY.json contains the text of one semantic property of the tool (id {pid}, "{title}"). Read it carefully, then read the relevant source code and documentation (README.md, doc/).

YOUR TASK: produce a realistic code change to the repository sources (the kind of bug a developer could plausibly introduce: a refactoring slip, an off-by-one, a wrong constant or mask, misordered statements, a dropped update or dropped cleanup, a changed ownership/lifetime of a handle, two cooperating sites that each look fine alone) that BREAKS this property, while (1) the workspace still compiles, and (2) the ENTIRE existing test suite still passes (`cargo test --workspace --offline`; do not edit or delete any existing test). Prefer changes that need something specific to manifest ({hints or 'a particular interleaving, a fault at a particular point, a multi-step sequence of operations, an unusual input, a particular option combination'}), NOT changes that ordinary use would expose at once.

DELIVERABLES, all under {wt}/seed1/ (and optionally a second, independent change under {wt}/seed2/ built the same way, starting again from a clean checkout):
 (a) patch.diff — `git diff` of the source change only, relative to HEAD (must apply with `git apply` on a clean checkout);
 (b) a demonstration — a shell script demo.sh (it may generate input files with python3 and run the built binary target/debug/fastpasta, or run an extra Rust test/program you add under seed1/) that EXITS NON-ZERO when the change is applied and EXITS 0 on the unchanged code. It must take the repository root as $1 and be runnable as `bash seed1/demo.sh {wt}` after `cargo build --offline`. For timing/scheduling-dependent behaviour make the demo robust (retry loops, bounded timeouts) so that it reliably passes on unchanged code;
 (c) meta.json — {{"property":"{pid}","summary":"what the change does","needs_to_manifest":"what specific input/option/sequence/schedule is needed","files_changed":[...],"how_to_run_demo":"..."}}.

You must verify everything yourself: with the change applied run the full test suite (must be all green) and the demo (must fail); then revert the change, rebuild, and run the demo (must pass). Leave the worktree with the change REVERTED (clean `git status` apart from the untracked seed1/, seed2/, PROPERTY.json, target/) when you finish. In your final message, report: the diff, the demo outcome with/without the change, and the test-suite result.""")
