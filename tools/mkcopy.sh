#!/bin/bash
# mkcopy.sh <name> <patch.diff>: scratch copy of /repo with a patch applied at /tmp/fpv_<name>/repo (remove it when done)
D=/tmp/fpv_$1; rm -rf $D; mkdir -p $D
rsync -a --exclude target --exclude .git --exclude '*.raw' /repo/ $D/repo/
patch -p1 -s -d $D/repo -i "$(realpath $2)" && echo $D/repo
