#!/bin/bash
# seed_table_some.sh <seed-id>... — like seed_table_copy.sh but only for the given seeds
cd /verif; export FPV_EXTRACT_SLOTS=8
one() {
  d=seeded/$1; id=$1; pid=$(python3 -c "import json;print(json.load(open('$d/meta.json'))['property'])")
  D=$(mktemp -d /tmp/fpv_seedtab_XXXX)
  rsync -a --exclude target --exclude .git --exclude '*.raw' /repo/ $D/repo/
  if ! patch -p1 -s -d $D/repo -i "/verif/$d/patch.diff" >/dev/null 2>&1; then echo "$id|$pid|PATCH-DOES-NOT-APPLY"; rm -rf $D; return; fi
  out=$(FPV_EVIDENCE_DIR=$D/ev ./check $pid --repo $D/repo 2>&1)
  rules=$(echo "$out" | grep -o "key=[^ ]*" | sed 's/key=//' | tr '\n' ' ')
  verdict=$(echo "$out" | grep -c "^VIOLATION")
  echo "$id|$pid|$([ $verdict -gt 0 ] && echo DETECTED || echo MISSED)|$rules"
  rm -rf $D
}
export -f one
printf "%s\n" "$@" | xargs -P 8 -I{} bash -c 'one {}' | sort
