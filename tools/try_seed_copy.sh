#!/bin/bash
# usage: try_seed_copy.sh <patch.diff> <Cnn> [<Cnn>...] — applies the patch to a scratch COPY of /repo (never touches /repo itself)
P=$1; shift
D=$(mktemp -d /tmp/fpv_seedcopy_XXXX)
rsync -a --exclude target --exclude .git --exclude '*.raw' /repo/ $D/repo/
if ! patch -p1 -s -d $D/repo -i "$P"; then echo "apply failed"; rm -rf $D; exit 2; fi
for c in "$@"; do (cd /verif && FPV_EVIDENCE_DIR=$D/ev ./check $c --repo $D/repo 2>&1 | grep -E "rule=|VIOLATION|^OK" | cut -c1-260 | head -8); done
rm -rf $D
