#!/bin/bash
# usage: try_seed.sh <patch.diff> <Cnn> [<Cnn>...] — apply to /repo, run checks, undo
P=$1; shift
git -C /repo apply "$P" || { echo "apply failed"; exit 2; }
for c in "$@"; do (cd /verif && FPV_EVIDENCE_DIR=/tmp/try_seed_ev ./check $c 2>&1 | grep -E "rule=|VIOLATION|^OK" | cut -c1-260 | head -8); done
git -C /repo checkout -- .
