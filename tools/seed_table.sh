#!/bin/bash
# prints, for every confirmed seed, which rules of its property's check fire on the current tree (+ patch applicability)
cd /verif
for d in seeded/*/; do
  id=$(basename $d); pid=$(python3 -c "import json;print(json.load(open('$d/meta.json'))['property'])")
  if ! git -C /repo apply --check "$PWD/$d/patch.diff" 2>/dev/null; then echo "$id|$pid|PATCH-DOES-NOT-APPLY"; continue; fi
  git -C /repo apply "$PWD/$d/patch.diff"
  out=$(FPV_EVIDENCE_DIR=/tmp/seed_table_ev ./check $pid 2>&1)
  git -C /repo checkout -- . ; git -C /repo clean -fdq -- fastpasta alice_protocol_reader 2>/dev/null
  rules=$(echo "$out" | grep -o "key=[^ ]*" | sed 's/key=//' | tr '\n' ' ')
  verdict=$(echo "$out" | grep -c "^VIOLATION")
  echo "$id|$pid|$([ $verdict -gt 0 ] && echo DETECTED || echo MISSED)|$rules"
done
