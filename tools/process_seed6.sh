#!/bin/bash
# usage: process_seed6.sh <Cnn> <seed-id> — confirm the sub-agent's seed1 in its scratch worktree, store it, run the property's check on a scratch copy
pid=$1; id=$2
bash /verif/tools/confirm_seed.sh /tmp/wt_$pid /tmp/wt_$pid/seed1 $id
[ -d /verif/seeded/$id ] && bash /verif/tools/seed_table_some.sh $id
