#!/bin/bash
# every refactor patch (or the given ones) applied to its own scratch copy of /repo, all checks run on the copy; J patches at a time
# usage: run_refactors_copy.sh [-j N] [patch.diff ...]
cd /verif; export FPV_EXTRACT_SLOTS=${FPV_EXTRACT_SLOTS:-8}
J=6; if [ "$1" = "-j" ]; then J=$2; shift 2; fi
PROPS=$(python3 -c "import json;print(' '.join(c['property_id'] for c in json.load(open('MANIFEST.json'))['checks']))")
one() {
  p=$1; name=$(basename $p .diff)
  D=$(mktemp -d /tmp/fpv_refcopy_XXXX)
  rsync -a --exclude target --exclude .git --exclude '*.raw' /repo/ $D/repo/
  if ! patch -p1 -s -d $D/repo -i "/verif/$p" >/dev/null 2>&1; then echo "$name PATCH-DOES-NOT-APPLY"; rm -rf $D; return; fi
  for c in $PROPS; do
    out=$(FPV_EVIDENCE_DIR=$D/ev ./check $c --repo $D/repo 2>&1)
    if echo "$out" | grep -q "^VIOLATION"; then echo "$name $c FALSE-ALARM $(echo "$out" | grep -o 'key=[^ ]*' | tr '\n' ' ')"; fi
  done
  rm -rf $D
  echo "$name done"
}
export -f one; export PROPS
ls ${@:-selftest/refactors/*.diff} | xargs -P $J -I{} bash -c 'one {}'
