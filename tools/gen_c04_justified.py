#!/usr/bin/env python3
"""Maintenance helper (NOT part of any check): proposes entries for
/verif/justified/c04.json from the current list of undischarged C04 sites
using the reviewed category table below.  Every entry written is one exact
site key with the reason of its category; sites that match no category are
left unjustified so that they are reported.  Run:  tools/gen_c04_justified.py
then review the diff of justified/c04.json before committing."""
import json
import os
import re
import subprocess
import sys

VERIF = os.path.dirname(os.path.dirname(os.path.abspath(__file__)))

# (regex on key, reason, requires list)
CATS = [
    # ---- controller / report: progress spinner and tables (not input dependent)
    (r"^unwrap\|fp::controller::Controller::<C>::\w+\|::as_mut\(arg1\.spinner\)", "progress spinner: `spinner` is Some by construction on this path (guarded by is_some() or set by new_spinner_with_prefix just before); depends only on view/non-view mode, not on input", []),
    (r"^unwrap\|fp::stats::stats_report::report::Report::format\|", "report table Options: taken/unwrapped only under the is_some() tests evaluated just above in the same function, report_table assigned Some a few lines before", []),
    (r"^(unwrap|panic:panic!)\|fp::controller::Controller::<C>::send_channel\|", "send_channel() is only called from init_controller before run() clears the channel; start-up invariant, not input dependent", [{"kind": "only_callers", "fn": "controller::Controller::<C>::send_channel", "callers": ["controller::init_controller"]}]),
    (r"^unwrap\|fp::controller::Controller::<C>::run\|InputOutputOpt::stats_output_format", "clap `requires` ties --output-stats to --stats-format, so the format is Some whenever the mode is not None (option validation, not input)", []),
    (r"^(unwrap|panic:panic!)\|fp::controller::Controller::<C>::run\|(Path::extension|::from_str\(const\))", "extension of the --input-stats-file path: existence and json/toml extension are enforced by validate_args before any processing", []),
    (r"^expect\|fp::controller::Controller::<C>::run\|de::from_str", "malformed --input-stats-file content: configuration-file well-formedness is outside the property's input domain (valid configuration files)", []),
    (r"^unwrap\|fp::config::lib::Config::validate_args\|Path::extension", "guarded by the `extension().is_none()` test in the preceding else-if arm", []),
    (r"^unwrap\|fp::util::lib::exit\|", "guarded by any_errors_exit_code().is_some() in the same condition", []),
    # ---- configuration accessors
    (r"^expect\|<fp::config::Cfg as fp::config::custom_checks::CustomChecksOpt>::\w+\|::custom_checks\(arg1\)", "CUSTOM_CHECKS is set by handle_custom_checks during init_config whenever checks_toml is Some (the guard of this branch)", []),
    (r"^unwrap\|<fp::config::Cfg as fp::config::inputoutput::InputOutputOpt>::output_mode\|", "inside `if self.output().is_some()`", []),
    (r"^(expect|panic:panic!)\|<fp::config::Cfg as AP::config::filter::FilterOpt>::filter_its_stave\|", "ill-formed --filter-its-stave value: option-value well-formedness is outside the property's domain (rejected with a message; only evaluated at start-up)", []),
    (r"^index:Vec\|W::layer_stave_string_to_feeid\|", "splitting the --filter-its-stave option value (start-up, option well-formedness)", []),
    (r"^expect\|fp::config::custom_checks::CustomChecksOpt::custom_checks_from_path\|de::from_str", "malformed custom-checks TOML: configuration-file well-formedness is outside the property's input domain", []),
    (r"^unwrap\|fp::write::writer::BufferedWriter::<T>::new\|Path::to_str", "non-UTF-8 output path: option value / environment", []),
    # ---- statistics
    (r"^panic:panic!\|fp::stats::stats_collector::rdh_stats::RdhStats::record_(data_format|run_trigger_type|system_id)\|", "recorded once: the scanner sends these only for the RDH loaded at tracker position 0 (initial_collect_stats), the forwarder maps each to one StatType", [{"kind": "guarded_field_zero", "fn": "ScanCDP>::load_rdh_cru", "callee": "initial_collect_stats"}]),
    (r"^panic:panic!\|fp::stats::stats_collector::rdh_stats::RdhStats::record_rdh_version\|", "recorded once: StatType::RdhVersion is sent only by init_processing, once per run", [{"kind": "only_senders", "variant": "RdhVersion", "fns": ["fastpasta::init_processing"]}]),
    (r"^expect\|fp::stats::stats_collector::rdh_stats::RdhStats::(data_format|rdh_version|run_trigger_type)\|", "report accessors: the report is only built when rdhs_seen > 0, i.e. after the first RDH delivered version, data format and run trigger type through the same ordered channel", []),
    (r"^unwrap\|fp::stats::stats_collector::error_stats::ErrorStats::fatal_err\|", "callers test any_fatal_err() first", []),
    (r"^unwrap\|fp::stats::stats_collector::error_stats::ErrorStats::staves_with_errors_as_slice\|", "after the is_none() early return in the same function", []),
    (r"^unwrap\|fp::stats::stats_collector::StatsCollector::collect\|::as_mut\(arg1\.alpide_stats\)", "AlpideStats are only sent in its-stave mode, where the Controller builds StatsCollector::with_alpide_stats() (same config predicate alpide_checks_enabled)", []),
    (r"^unwrap\|fp::stats::stats_collector::error_stats::extract_unique_error_codes::\{closure#1\}::\{closure#0\}\|::name", "named group `err_code` exists in the constant regex", []),
    (r"^index:Captures\|fp::stats::stats_collector::error_stats::ErrorStats::(check_errors_for_stave_id|sort_error_msgs_by_mem_pos)", "named group exists in the constant regex that produced the captures", []),
    (r"^unwrap\|fp::stats::stats_collector::error_stats::ErrorStats::check_errors_for_stave_id::\{closure#0\}\|::parse", "captured text is 1–5 digits printed from a u16 FEE ID by the tool's own `FEE ID:{feeid}` templates (≤ 65535)", []),
    (r"^expect\|fp::stats::stats_collector::error_stats::ErrorStats::check_errors_for_stave_id::\{closure#0\}\|::find", "an error naming a FEE ID is produced by a validator for a packet whose layer/stave the analysis thread recorded (LayerStaveSeen is sent for every analysed RDH before it is dispatched)", []),
    (r"^(expect|panic:panic!)\|fp::stats::stats_collector::error_stats::ErrorStats::sort_error_msgs_by_mem_pos::", "every message reaching add_err starts with `{pos:#X}: ` (rule R7.5 of C07 checks all Error templates), so the `^0x[0-9A-F]+` capture exists and is ≤ 16 hex digits", [{"kind": "error_templates_upper_hex"}]),
    (r"^panic:unreachable!\|fp::stats::collect_system_specific_stats\|", "system_id was assigned Some on the preceding lines of the same call (is_none branch) or earlier", []),
    # ---- scanner
    (r"^unwrap\|<AP::input_scanner::InputScanner<R> as AP::scan_cdp::ScanCDP>::load_rdh_cru\|::take\(arg1\.initial_rdh0\)", "inside `if self.initial_rdh0.is_some()`", []),
    # ---- validators: configuration invariants
    (r"^unwrap\|V::(link_validator::LinkValidator::<T, C>::(do_checks|with_chan_capacity)|rdh::RdhCruSanityValidator::<T>::new_from_config)\|ChecksOpt::check", "validators are only created by the dispatcher, which spawn_analysis uses only when config.check().is_some()", [{"kind": "guarded_by_call", "fn": "analyze::lib::spawn_analysis::{closure#0}", "callee": "dispatch_cdp_batch", "guard": "Option::<T>::is_some", "value": True}]),
    (r"^unwrap\|V::link_validator::LinkValidator::<T, C>::do_checks\|lib::do_payload_checks", "do_payload_checks only fails when the statistics channel is disconnected (same argument as D5)", []),
    (r"^unwrap\|V::rdh::Rdh0Validator::sanity_check\|arg1\.header_id", "header_id is assigned Some at the top of the function when it was None", []),
    (r"^unwrap\|V::rdh_running::RdhCruRunningChecker::<T>::check\|::as_ref\(arg1\.second_rdh_cru\)", "second_rdh_cru is assigned Some on the preceding line", []),
    (r"^unwrap\|V::validator_dispatcher::ValidatorDispatcher::<T, C>::dispatch_by_id\|::(get|last)\(", "process_channels and processors are pushed pairwise in init_validator (rule R6.3 of C06): the index found in `processors` is valid for `process_channels`, and `last()` follows a push", []),
    # ---- ITS payload validator: state invariants
    (r"^unwrap\|V::its::cdp_running::CdpRunningValidator::<T, C>::(check_tdh_continuation|check_tdh_no_continuation|check_tdh_by_was_tdt_packet_done_true)\|StatusWordContainer::tdh", "called from check() only after preprocess_status_word(Tdh) stored the current TDH", [{"kind": "dominates", "fn": "cdp_running::CdpRunningValidator::<T, C>::check", "first": "preprocess_status_word", "then": "check_tdh_"}]),
    (r"^expect\|V::its::cdp_running::CdpRunningValidator::<T, C>::check_tdh_trigger_interval\|StatusWordContainer::tdh", "called from check() only after preprocess_status_word(Tdh) stored the current TDH", [{"kind": "dominates", "fn": "cdp_running::CdpRunningValidator::<T, C>::check", "first": "preprocess_status_word", "then": "check_tdh_trigger_interval"}]),
    (r"^unwrap\|V::its::status_word::tdh::TdhValidator::check_after_tdt_packet_done_true\|StatusWordContainer::tdh", "called via check_tdh_by_was_tdt_packet_done_true after the TDH was stored (see above)", [{"kind": "dominates", "fn": "cdp_running::CdpRunningValidator::<T, C>::check", "first": "preprocess_status_word", "then": "check_tdh_by_was_tdt_packet_done_true"}]),
    (r"^unwrap\|V::its::cdp_running::CdpRunningValidator::<T, C>::check_tdh_by_was_tdt_packet_done_true\|StatusWordContainer::prv_tdh", "only evaluated when check_after_tdt_packet_done_true returned Err, which requires prv_tdh() to be Some", []),
    (r"^unwrap\|V::its::cdp_running::CdpRunningValidator::<T, C>::preprocess_tdh\|StatusWordContainer::tdh", "replace_tdh(tdh) precedes it in the same function", [{"kind": "dominates", "fn": "cdp_running::CdpRunningValidator::<T, C>::preprocess_tdh", "first": "replace_tdh", "then": "StatusWordContainer::tdh"}]),
    (r"^unwrap\|V::its::cdp_running::CdpRunningValidator::<T, C>::preprocess_tdt\|StatusWordContainer::tdt", "replace_tdt(tdt) precedes it in the same function", [{"kind": "dominates", "fn": "cdp_running::CdpRunningValidator::<T, C>::preprocess_tdt", "first": "replace_tdt", "then": "StatusWordContainer::tdt"}]),
    (r"^unwrap\|V::its::cdp_running::readout_frame::ItsReadoutFrameValidator::<C>::report_empty_alpide_frame_error\|StatusWordContainer::tdt", "the frame is processed from preprocess_tdt after the closing TDT was stored", [{"kind": "dominates", "fn": "cdp_running::CdpRunningValidator::<T, C>::preprocess_tdt", "first": "replace_tdt", "then": "process_readout_frame"}]),
    (r"^unwrap\|V::its::cdp_running::CdpRunningValidator::<T, C>::process_(ib|ob)_data_word\|StatusWordContainer::ihw", "the FSM hands the first word of a link to the IHW parser whatever its ID and every path to a data state passes an IHW (checked on the extracted FSM table), so ihw is Some before any data word", [{"kind": "fsm_precedes", "word": "DataWord", "needs": "IHW"}]),
    (r"^unwrap\|V::its::cdp_running::CdpRunningValidator::<T, C>::(preprocess_tdh|process_readout_frame|set_current_rdh)\|::as_mut\(arg1\.readout_frame_validator\)", "guarded by readout_frame_validator.is_some()/is_some_and(..) in the enclosing condition or in the caller (preprocess_tdt tests is_some() before process_readout_frame)", []),
    (r"^(unwrap|expect)\|V::its::cdp_running::rdh_validator::ItsRdhValidator::<T>::(check_at_ddw0|check_at_initial_ihw|rdh)\|::as_ref\(arg1\.rdh\)", "set_current_rdh installs ItsRdhValidator::new(rdh) before any word of the payload is checked", [{"kind": "dominates", "fn": "validators::its::lib::do_payload_checks", "first": "set_current_rdh", "then": "preprocess_payload"}]),
    (r"^unwrap\|V::its::cdp_running::readout_frame::ItsReadoutFrameValidator::<C>::process_frame\|::take\(arg1\.alpide_readout_frame\)", "process_frame is only called when try_close_frame returned Ok, i.e. alpide_readout_frame is Some", [{"kind": "guarded_by_call", "fn": "cdp_running::CdpRunningValidator::<T, C>::process_readout_frame", "callee": "process_frame", "guard": "Result::<T, E>::is_ok", "value": True}]),
    (r"^unwrap\|V::its::cdp_running::readout_frame::ItsReadoutFrameValidator::<C>::store_lane_data\|arg1\.from_stave", "from_stave is set by set_current_rdh for the first packet of the link before any word is processed", [{"kind": "dominates", "fn": "validators::its::lib::do_payload_checks", "first": "set_current_rdh", "then": "preprocess_payload"}]),
    (r"^expect\|V::its::alpide::alpide_readout_frame::AlpideReadoutFrame::from_layer\|", "from_layer is set by the first store_lane_data; from_layer() is only reached for non-empty frames (process_frame returns early on frame.is_empty())", []),
    (r"^unwrap\|V::its::alpide::alpide_readout_frame::validate_inner_lane_groupings\|::get_mut", "constant indices 0..=2 into a 3-element array", []),
    (r"^unwrap\|V::its::alpide::check_alpide_data_frame::\{closure#0\}\|::as_mut\(arg1\.4\)", "fatal_lanes assigned Some on the preceding lines when it was None", []),
    (r"^expect\|V::its::alpide::check_alpide_data_frame::\{closure#0\}\|::validated_bc", "a lane without errors and not fatal went through check_bunch_counters' Ok branch, which sets validated_bc from the first chip (chips always carry Some bunch counter)", []),
    (r"^unwrap\|V::its::alpide::lane_alpide_frame_analyzer::LaneAlpideFrameAnalyzer::<'a>::(decode|do_lane_alpide_checks)\|::(as_mut|take)\(arg1\.errors\)", "errors is Some(String::new()) from new() and only taken at the very end of do_lane_alpide_checks (one analysis per analyzer)", []),
    (r"^unwrap\|V::its::alpide::lane_alpide_frame_analyzer::LaneAlpideFrameAnalyzer::<'a>::analyze_alpide_frame\|arg1\.from_layer", "from_layer is Some(data_origin) from new()", []),
    (r"^unwrap\|V::its::alpide::lane_alpide_frame_analyzer::LaneAlpideFrameAnalyzer::<'a>::check_bunch_counters::\{closure#1\}::\{closure#0\}\|arg2\.bunch_counter", "chip_data entries are only pushed by store_bunch_counter after store_bc set Some", [{"kind": "only_pushers", "field": "chip_data", "fns": ["LaneAlpideFrameAnalyzer::<'a>::store_bunch_counter"]}]),
    (r"^index:Vec\|V::its::alpide::lane_alpide_frame_analyzer::LaneAlpideFrameAnalyzer::<'a>::check_chip_id_order\|", "inner-barrel arm: only reached when check_chip_count passed, i.e. exactly one chip", [{"kind": "guarded_by_call", "fn": "LaneAlpideFrameAnalyzer::<'a>::do_lane_alpide_checks", "callee": "check_chip_id_order", "guard": "LaneAlpideFrameAnalyzer::<'a>::check_chip_count", "value": "ok_arm"}]),
    (r"^unwrap\|W::alpide::AlpideFrameChipData::store_bc\|arg1\.bunch_counter", "inside `if self.bunch_counter.is_some()`", []),
    (r"^index\|V::lib::chunkify_payload\|arg1\|0", "payload[..len − ff_padding.len()]: ff_padding is a suffix of payload, so the end index is ≤ len", []),
    # ---- unsafe
    (r"^unsafe:unreachable_unchecked\|V::its::alpide::lane_alpide_frame_analyzer::LaneAlpideFrameAnalyzer::<'a>::decode\|", "AlpideWord::from_byte never yields Ape(Padding): byte 0x00 is classified DataLong first (decided on the 256-entry classification table, rule R13.1 of C13)", [{"kind": "alpide_no_padding_ape"}]),
    (r"^unsafe:unreachable_unchecked\|fp::analyze::view::its_readout_frame::generate_its_readout_frame_word_view\|", "ItsPayloadWord::from_id only returns IHW, TDH, TDT, DDW0, CDW, DataWord (rule R9.2 of C09 enumerates its arms); the composite variants matched by this arm are never produced", [{"kind": "from_id_variants"}]),
]


def main():
    p = subprocess.run([os.path.join(VERIF, "check"), "C04"], stdout=subprocess.PIPE, stderr=subprocess.STDOUT, text=True,
                       env=dict(os.environ, FPV_EVIDENCE_DIR="/tmp/c04_gen_ev"))
    try:
        rp = json.load(open("/tmp/c04_gen_ev/C04.replay.json"))
    except OSError:
        print("no violations; nothing to do")
        return
    jf = os.path.join(VERIF, "justified", "c04.json")
    cur = json.load(open(jf))
    have = {e["key"] for e in cur["sites"]}
    kf = json.load(open(os.path.join(VERIF, "known_findings.json")))
    known = {e["key"] for e in kf["findings"]}
    added, unmatched = 0, []
    for v in rp["violations"]:
        if v["rule"] != "R4.3":
            continue
        key = v["key"]
        if key in have or ("R4.3|" + key) in known:
            continue
        for rx, reason, req in CATS:
            if re.search(rx, key):
                e = {"key": key, "reason": reason}
                if req:
                    e["requires"] = req
                cur["sites"].append(e)
                added += 1
                break
        else:
            unmatched.append(key)
    cur["sites"].sort(key=lambda e: e["key"])
    cur["_doc"] = "C04 discharge table (DESIGN §C04 R4.3): one exact site key per entry with the reviewed reason; `requires` clauses are re-checked on every run. Keys carry no line numbers."
    json.dump(cur, open(jf, "w"), indent=1, ensure_ascii=False)
    print("added %d, unmatched %d" % (added, len(unmatched)))
    for u in unmatched:
        print("  UNMATCHED", u)


if __name__ == "__main__":
    main()
