#!/usr/bin/env python3
"""keys.py Cnn [repo] [substr] — all rule instances of one check (ok and bad) for debugging"""
import sys
sys.path.insert(0, '/verif')
from fpv.engine import Ctx
from fpv.report import Report
import importlib
pid = sys.argv[1]; repo = sys.argv[2] if len(sys.argv) > 2 else '/repo'; sub = sys.argv[3] if len(sys.argv) > 3 else ''
m = importlib.import_module('fpv.rules.' + pid.lower())
rep = Report(pid, 'quick', 'x', '')
m.run(Ctx(repo), rep)
for i in rep.instances:
    if sub in i['key']:
        print('ok ' if i['ok'] else 'BAD', i['key'], '|', i['where'])
