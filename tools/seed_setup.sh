#!/bin/bash
# usage: seed_setup.sh <Cnn> — scratch worktree /tmp/wt_<Cnn> of /repo with a copy of the build output, the property text and the round-2 prompt
pid=$1; wt=/tmp/wt_$pid
git -C /repo worktree add -q --detach $wt HEAD || exit 2
cp -a --reflink=auto /repo/target $wt/target
python3 - "$pid" "$wt" "${SEED_PROMPT:-seed_prompt_round2.txt}" <<'PY'
import json,sys
pid,wt,prompt=sys.argv[1:4]
for l in open('/verif/properties.jsonl'):
    p=json.loads(l)
    if p['id']==pid:
        json.dump(p,open(wt+'/PROPERTY.json','w'),indent=1); title=p['title']
t=open('/verif/tools/'+prompt).read().replace('C03',pid).replace('"Scanning follows the RDH chain exactly in every input mode"','"%s"'%title)
open('/tmp/p2_%s.txt'%pid,'w').write(t)
PY
echo "$wt ready"
