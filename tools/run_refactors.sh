#!/bin/bash
# applies every behaviour-preserving refactor patch to /repo in turn, runs ALL checks, reverts; any VIOLATION is a false alarm
cd /verif
PROPS=$(python3 -c "import json;print(' '.join(c['property_id'] for c in json.load(open('MANIFEST.json'))['checks']))")
for p in ${@:-selftest/refactors/*.diff}; do
  name=$(basename $p .diff)
  if ! git -C /repo apply --check "$PWD/$p" 2>/dev/null; then echo "$name PATCH-DOES-NOT-APPLY"; continue; fi
  git -C /repo apply "$PWD/$p"
  for c in $PROPS; do
    out=$(FPV_EVIDENCE_DIR=/tmp/refactor_ev ./check $c 2>&1)
    if echo "$out" | grep -q "^VIOLATION"; then echo "$name $c FALSE-ALARM $(echo "$out" | grep -o 'key=[^ ]*' | tr '\n' ' ')"; fi
  done
  git -C /repo checkout -- .
  echo "$name done"
done
