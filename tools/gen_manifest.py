#!/usr/bin/env python3
"""Regenerates /verif/MANIFEST.json from the table below."""
import json, os
VERIF = os.path.dirname(os.path.dirname(os.path.abspath(__file__)))

CHECKS = {
 # pid: (category, text, note, technique, design_ref)
 "C10": ("other", "Predicate-table equality: every branch condition of the RDH sanity validators, normalised to wire bits with accessors inlined and validator constants propagated from all construction sites, equals the documented rule table; the running checker's per-step transition function (guards, compared fields, state updates, update ordering) equals the documented one; reports carry the packet's own offset and the running check is guarded by the mode flag. Holds for all header values at once; does not decide long-history behaviour beyond the step function.",
         "Trusted: rustc nightly front end, /verif/driver, fpv.thir normal-form evaluator, oracles/rdh_rules.json (written from doc/checks_list.md).",
         "THIR predicate normal forms (bit-level dataflow over the typed syntax tree) compared with a frozen rule table; MIR dominance for ordering/guards", "DESIGN.md §3 C10"),
 "C11": ("proof", "For each of the four status-word validators the error predicate is extracted from the typed syntax tree, accessors and from_buf byte placement are inlined, and its normal form over the 80 wire bits is compared with the protocol table (identifier constant, reserved mask, word-specific rule): equality of normal forms holds for all 2^80 values at once. Data-word rules (valid ID set, IB/OB lane maps, lane-active bit, connector-input limit, barrel dispatch) are decided on the full u8 identifier domain by constant folding of the extracted expressions. Obligations = one per documented condition/field/placement; all must be discharged.",
         "Trusted: rustc nightly front end, /verif/driver, fpv.thir (bit-level normal forms), oracles/its_words.json and dw_ids.json. Assumes little-endian target (read from the compiler session) and that packed layout = wire layout, which the placement obligations establish.",
         "bit-level abstract evaluation of THIR predicates to a normal form; equality with protocol mask tables; finite-domain constant folding for identifier maps", "DESIGN.md §3 C11"),
 "C09": ("model_checking", "The implementation's transition table is extracted on every run from the typed syntax tree of ItsPayloadFsmContinuous::advance (state variants, identifier patterns under first-match semantics, guard bits, result word, successor state read from the typestate of the transition call) and explored exhaustively in product with the documented diagram (parsed from the .puml) over the full alphabet 256 identifiers x no_data x packet_done from the initial state: classification and successor must agree in every reachable product state, illegal identifiers must yield an error result in choice states. Also: sibling identifier sets (4 FSM arms, from_id) equal the documented set; the consumer table in CdpRunningValidator::check hands each result to the documented parser/error code. traces_validated_against_impl is 0 because the model IS the extracted implementation table (no hand-written model to validate).",
         "Trusted: rustc nightly front end, /verif/driver, the extractor in fpv/rules/c09.py, oracles/fsm.json (refinement map only; the transition relation comes from the .puml). Known deviations F8a/F8b are listed in known_findings.json by exact (state, word, flag, successor) key.",
         "table extraction from THIR match arms + exhaustive product exploration against the parsed state diagram", "DESIGN.md §3 C09"),
 "C03": ("other", "Path rules over the scanner's MIR (all CFG paths, filter and no-filter, skip and load): the offset handed out with a packet is a tracker read with no tracker-advancing call between it and the completion of the call that produced the returned RDH; the tracker is advanced exactly once per packet by that RDH's offset_to_next and the payload read uses its payload_size; the reader is moved only by the value the tracker was advanced with and input bytes are consumed only by the loaders; the offset range check dominates every use and every Ok result; the filter predicate and the 23-leaf header decode table equal the protocol layout (evaluated symbolically over the 512 wire bits); batch builders push the tuple unchanged with a strict `len < CAP` stop; both reader back-ends advance by exactly the argument. Decides the bookkeeping structure, not OS I/O or channel behaviour.",
         "Trusted: rustc nightly front end, /verif/driver, fpv (CFG dominance, provenance, call graph), oracles/rdh_layout.json.",
         "MIR dominance / must-pass-through / provenance rules + symbolic decode-table equality", "DESIGN.md §3 C03"),
 "C07": ("other", "Provenance rules on every path: each word error is reported at self.tracker.current_word_mem_pos() and quotes the checked word slice, shown by a parameter-flow fixpoint from CdpRunningValidator::check through all helper methods and closures (no other slice can reach report_error); the word counter is bumped exactly once per word and dominates every report; the offset formula's normal form is (count-1)*(10+pad)+rdh_pos+64 with pad = 6 iff data_format == 0; every formatted Error message starts with an upper-hex offset whose source is a word position, the packet's own offset parameter or the frame start; packet/offset association through CdpArray (push, both iterators) and LinkValidator::do_checks; the dump prints bytes 0..9 in order. The two scanner messages E100/E101 violate the rule and are recorded known findings (F9).",
         "Trusted: rustc nightly front end, /verif/driver, fpv provenance (single-definition MIR temporaries, reaching definitions for user variables), source text only for recovering format-string literals at resolved macro call sites.",
         "MIR provenance / parameter-flow fixpoint / dominance; THIR normal form of the offset formula", "DESIGN.md §3 C07"),
 "C08": ("proof", "Header codec bijection as proof obligations, all discharged on every run: RdhCru and all nested structs are repr(packed) with contiguous fields summing to 64 bytes (23 integer leaves), every leaf is decoded by a little-endian read of exactly its layout byte range with no masking (symbolic evaluation of from_buf over the 512 wire bits), to_byte_slice exposes (address of the value, size_of::<T>()) and is never resolved on a reference type, all ByteSlice implementors are padding-free: hence to_bytes(from_buf(b)) = b for all 2^512 headers on a little-endian target. Additional structural rules in the same evidence: payload Vec<u8> is never mutably borrowed between load_payload_raw and the writer; the writer pushes header/payload pairwise, flushes header-then-payload in insertion order with one write_all, clears after the write, flushes on drop; the skip_payload and writer-selection decision tables; the filter predicate normal form.",
         "Trusted: rustc nightly front end (layouts), /verif/driver, fpv.thir evaluator, oracles/rdh_layout.json. Assumes target_endian=little (read from the session). Not decided: OS write semantics, stdout vs file differences.",
         "layout/packing facts from the compiler + symbolic decode-table equality (proof obligations) + MIR ordering/borrow rules", "DESIGN.md §3 C08"),
 "C17": ("other", "Structural necessary conditions of an orderly stop, decided on every path: no owned channel endpoint is maybe-initialised at any JoinHandle::join (field-sensitive forward dataflow over MIR after drop elaboration; 5 join sites) and the dispatcher drops its senders before joining; every loop around a blocking recv/send leaves on the call's Err and the reader/analysis/writer loops also on the stop flag; every spawned thread's handle is joined on the normal paths of its owner; no reachable println!/print! and no unwrap/expect on a write/flush result (the two writer sites are recorded known findings F5b, the statistics println! was repaired); the writer tests the stop flag only between batches. Does not decide bounded time or liveness under all schedules.",
         "Trusted: rustc nightly front end (drop elaboration), /verif/driver, fpv.mir maybe_init dataflow, call graph.",
         "maybe-initialised dataflow at join sites; SCC/loop-exit control dependence; must-pass-through for joins; who-may-call for _print", "DESIGN.md §3 C17"),
 "C04": ("other", "Inventory + discharge: every panic-capable or UB-capable construct (unwrap/expect, panic!/unreachable!, bounds checks, range/Vec/Captures indexing, division, unsafe calls, println!) on a path reachable from main in the RELEASE configuration is listed from MIR (about 370 sites) and must be discharged by a checked local rule (infallible String formatting; flume statistics sends; environment/start-up resources; constant regexes; fixed-size loads and constant indices under inferred slice min-length contracts that are verified at every call site incl. chunks_exact sizes; set_len after read_exact with the same n; non-zero constant divisors), or be individually justified in justified/c04.json (one exact site key, one reason, optional machine-checked `requires` clause such as a dominance fact, a guarded-by fact, an FSM precedence fact or a classification-table fact), or be a recorded known finding (F5b, F6a-d). Any new site, or a site whose rule/requires clause stops holding, is reported. Also the scanner's range-check/loop-progress conditions for termination. This is a reviewed discharge table, not a proof of panic freedom; time bound and memory exhaustion are not decided.",
         "Trusted: rustc nightly front end, /verif/driver (release-flag extraction), fpv call graph (CHA; generated derive/clap code excluded), the reviewed reasons in justified/c04.json.",
         "MIR inventory over the release call graph + per-site discharge rules (slice length contracts, dominance, provenance) + reviewed exception table", "DESIGN.md §3 C04"),
 "C05": ("other", "Order-insensitivity of every multi-producer result field: StatType variants are attributed to thread roles through the call graph (validators are multi-instance); the set of multi-producer variants must be exactly {Error, Fatal, AlpideStats}; AlpideStats is accumulated by field-wise sums only (checked on the typed syntax tree of sum()), Error goes to an order-sensitive Vec which finalize_stats sorts on every path, with a stable sort, before derived containers are computed, before printing, writing or comparing; links are sorted in finalize; finalisation is skipped only in view/stdout-output mode; all observations are dominated by the end of the Controller's receive loop. Fatal is exempt (the property excludes fatal runs).",
         "Trusted: rustc nightly front end, /verif/driver, fpv call graph/thread roles, the reviewed list of stable sort functions of std.",
         "call-graph producer attribution + THIR accumulator shape + MIR dominance/must-pass-through for normalisation", "DESIGN.md §3 C05"),
 "C15": ("other", "Comparison completeness of the statistics file (structural half): for each of the 7 structs in the serialisable closure of StatsCollector every field is either compared in validate_fields (same field on both sides) and copied from other.<field> into the rebuilt literal, or delegated to the sub-struct's validate_other with matching fields (is_finalized is the one exempt leaf); all closure types derive Serialize and Deserialize without skip/default/rename attributes; write_stats serialises the root that Controller::run deserialises; a mismatch stores the any-errors flag on all paths; the compared data is normalised (shares R5.3 of C05). Does not decide the behaviour of serde_json/toml.",
         "Trusted: rustc nightly front end, /verif/driver (attributes, impl table), fpv THIR walkers.",
         "type-closure scan + THIR field-pair extraction + MIR must-pass-through for the flag store", "DESIGN.md §3 C15"),
 "C16": ("other", "Structural part of the exit-status contract: the normal form of util::lib::exit's conditions (code 0 AND any-errors code configured AND flag => N; SUCCESS; else the code) and that run() feeds it only 0/1; the any-errors flag store after the receive loop is control dependent on both the error total and the fatal error (F3 repaired) and the statistics-mismatch branch stores it too; validate_args()? dominates the configuration side effects and init_config dominates everything in run(); validate_args rejects each documented invalid combination; mute/error-code-filter/cap accessors are read only on display paths and every StatType::Error emission is inevitable on both outcomes of a display-option test; total_errors is written only together with a stored message. Does not decide -w string matching or -e counts.",
         "Trusted: rustc nightly front end, /verif/driver, fpv (THIR condition normal forms, MIR control dependence, who-may-call).",
         "THIR decision-table normal forms + MIR control dependence / dominance + who-may-call tables", "DESIGN.md §3 C16"),
 "C18": ("other", "Input-layer error discipline on every path: each call that reads from the input reader and returns io::Result (RDH/sub-word loaders, payload loader, seeks, load_cdp, batch builder, init_reader, init_processing, process) has its result propagated, matched or returned - never unwrapped/expected/ignored (in-memory re-decodes from byte slices are distinguished by the reader type); the batch builder breaks on UnexpectedEof/InvalidData keeping the partial batch and only an empty batch is an error; the reader sends the short last batch before stopping; a payload cut short is reported and the RDH still delivered; a skip past the end is reported and processing continues. Does not decide equality of findings on the intact prefix.",
         "Trusted: rustc nightly front end, /verif/driver, fpv provenance.",
         "error-discipline dataflow over MIR call results + THIR match-arm tables", "DESIGN.md §3 C18"),
 "C06": ("other", "Non-interference obligations, discharged on every run: the transitive field-type closure of LinkValidator<T,C> (about 15 local types) contains no Arc/Rc/Mutex/RwLock/RefCell/Cell/atomic/raw pointer/non-static borrow - only the statistics Sender, its own input Receiver, &'static configuration and allow-listed owned std types; every static is an immutable OnceLock and validator-role functions reference only the two configuration cells; the dispatch id is the packet's own fee_id()/link_id(), the channel index is the id's position in `processors`, both vectors are pushed pairwise on all paths and have no other writers, the dispatch kind is FEE ID exactly for its-stave; every packet is sent exactly once, unchanged, and the validator consumes its queue in FIFO order; layer/stave extractors and both layer-stave match predicates use the documented masks. Given Rust's ownership rules this is close to a proof of the property; external crate types are allow-listed by reading, not analysed.",
         "Trusted: rustc type checker (ownership/Send rules), /verif/driver ADT tables, fpv; the allow-list of external types in fpv/rules/c06.py.",
         "type-closure scan over ADT tables + who-may-write / provenance rules on MIR + THIR normal forms for the masks", "DESIGN.md §3 C06"),
 "C12": ("other", "Constants and structure of the payload cutter and agreement of its consumers: the 0xFF run is counted from the end, byte-exact, error iff longer than 15; the format probe inspects bytes 10..16 for all-zero (6 bytes) giving 16-byte slots, else 10-byte words; the padding is cut iff longer than 9 with length len-padding; chunk sizes 16/10 are the chunks_exact arguments per format arm; preprocess_payload runs padding check, probe, chunking in order on the same payload; each of the 3 consumers takes [..10] of every chunk and applies no skipping/reordering iterator adaptor; on the padding error exactly one Error is sent at the RDH offset, the FSM is reset on every normal path and no word is checked. Does not decide payloads whose layout disagrees with the header's data format.",
         "Trusted: rustc nightly front end, /verif/driver, fpv; oracles/payload_cut.json.",
         "THIR/MIR constant-in-role extraction + adaptor who-may-call + path rules on the error arm", "DESIGN.md §3 C12"),
 "C20": ("other", "Key-to-check table and period formula, decided on the typed syntax tree with accessors inlined: each of the five custom keys is consumed at exactly one place by an `observed != configured` test under `if let Some(key)` whose branch carries the documented code (cdps/E9001, triggers_pht/E9002, chip_count_ob/E9004 on non-inner layers, chip_orders_ob/E9005 only when the count check passed and on the unmodified arrival-order id list, rdh_version as the RDH0 header-id reference); the Cfg accessors return None unless a checks file was given and otherwise the same-named field, all fields are Options with derived Default/PartialEq, custom_checks_enabled is `!= default`, forwarding impls forward to the same method and the accessors have no other consumers; the detected trigger period has the linear normal form cur - prev (+3564 iff cur < prev), Ok iff equal to P, computed from the 12-bit trigger_bc of the current TDH and of the last TDH with the internal-trigger bit, only when the current TDH has the bit and a period is configured, only on the TDH/TDH_after_packet_done arms under running checks after the word was stored, and the reference is written only by TdhBuffer::replace under the bit test. Does not decide TOML parsing or arithmetic outside the 0..3563 BC range.",
         "Trusted: rustc nightly front end, /verif/driver, fpv.thir evaluator and the linear-form parser in fpv/rules/c20.py.",
         "THIR predicate normal forms + linear arithmetic normal form of the period expression + who-may-call tables + MIR borrow scan", "DESIGN.md §3 C20"),
}

NOT_APPLICABLE = {
 "C01": "Absence of any error on every grammar-derivable stream is the joint run-time behaviour of all stateful validators; every clause visible in the code's shape is already decided under C09/C10/C11/C16, the rest needs execution or symbolic exploration (a different technique family).",
}
PENDING = "static rules for this property are designed in DESIGN.md but not yet implemented in this revision of /verif"

def main():
    props = [json.loads(l)["id"] for l in open(os.path.join(VERIF, "properties.jsonl"))]
    checks = []
    for pid in props:
        if pid in CHECKS:
            cat, text, note, tech, ref = CHECKS[pid]
            checks.append({
                "property_id": pid,
                "quick_cmd": "./check %s --tier quick" % pid,
                "thorough_cmd": "./check %s --tier thorough" % pid,
                "evidence_file": "/verif/evidence/%s.json" % pid,
                "replay_cmd_template": "./check %s --replay {path}" % pid,
                "engine": "fpv",
                "level_claimed": {"category": cat, "text": text, "design_ref": ref},
                "level_note": note,
                "technique": tech,
            })
    na = []
    for pid in props:
        if pid in CHECKS:
            continue
        na.append({"property_id": pid, "reason": NOT_APPLICABLE.get(pid, PENDING)})
    man = {
        "version": 1,
        "setup_cmd": "cd /verif/driver && CARGO_NET_OFFLINE=true cargo build --offline -q && cd /verif && ./check --warm",
        "hooks": {
            "guard": "crambl_fastpasta_verif",
            "enable": "none needed: the checks analyse the unmodified tree through a rustc wrapper (RUSTC_WORKSPACE_WRAPPER=/verif/driver/target/debug/fpfacts cargo +nightly check)",
            "baseline_off_cmd": "cd /repo && cargo test --workspace --no-fail-fast --offline",
            "source_commits": [],
            "add_only": True,
        },
        "engines": [
            {"name": "fpfacts", "path": "/verif/driver", "serves_properties": sorted(CHECKS), "kind_free_text": "rustc_private driver: dumps resolved MIR, THIR, ADT layouts, impl tables of /repo's working tree (nothing is executed)"},
            {"name": "fpv", "path": "/verif/fpv", "serves_properties": sorted(CHECKS), "kind_free_text": "Python rule library: call graph, CFG dominance/must-pass-through, provenance, THIR predicate normal forms, table equivalence against frozen oracles"},
        ],
        "checks": checks,
        "not_applicable": na,
        "notes": "Static analysis only: no registered command runs fastPASTA. Known genuine defects are listed in /verif/known_findings.json (exact keys) and printed as KNOWN-FINDING lines.",
    }
    with open(os.path.join(VERIF, "MANIFEST.json"), "w") as fh:
        json.dump(man, fh, indent=1)
    print("MANIFEST.json: %d checks, %d not_applicable" % (len(checks), len(na)))

if __name__ == "__main__":
    main()
