//! Minimal JSON value + writer (no dependencies).
use std::fmt::Write;

#[derive(Clone, Debug)]
pub enum J {
    Null,
    B(bool),
    I(i128),
    S(String),
    A(Vec<J>),
    O(Vec<(&'static str, J)>),
    /// object with dynamic keys
    M(Vec<(String, J)>),
}

impl J {
    pub fn s<T: Into<String>>(t: T) -> J {
        J::S(t.into())
    }
    pub fn opt(o: Option<J>) -> J {
        o.unwrap_or(J::Null)
    }
    pub fn write(&self, out: &mut String) {
        match self {
            J::Null => out.push_str("null"),
            J::B(b) => out.push_str(if *b { "true" } else { "false" }),
            J::I(i) => {
                // JSON numbers beyond 2^53 lose precision in some parsers; python is exact.
                let _ = write!(out, "{}", i);
            }
            J::S(s) => esc(s, out),
            J::A(v) => {
                out.push('[');
                for (i, x) in v.iter().enumerate() {
                    if i > 0 {
                        out.push(',');
                    }
                    x.write(out);
                }
                out.push(']');
            }
            J::O(v) => {
                out.push('{');
                let mut first = true;
                for (k, x) in v.iter() {
                    if matches!(x, J::Null) {
                        continue;
                    }
                    if !first {
                        out.push(',');
                    }
                    first = false;
                    esc(k, out);
                    out.push(':');
                    x.write(out);
                }
                out.push('}');
            }
            J::M(v) => {
                out.push('{');
                for (i, (k, x)) in v.iter().enumerate() {
                    if i > 0 {
                        out.push(',');
                    }
                    esc(k, out);
                    out.push(':');
                    x.write(out);
                }
                out.push('}');
            }
        }
    }
}

fn esc(s: &str, out: &mut String) {
    out.push('"');
    for c in s.chars() {
        match c {
            '"' => out.push_str("\\\""),
            '\\' => out.push_str("\\\\"),
            '\n' => out.push_str("\\n"),
            '\r' => out.push_str("\\r"),
            '\t' => out.push_str("\\t"),
            c if (c as u32) < 0x20 => {
                let _ = write!(out, "\\u{:04x}", c as u32);
            }
            c => out.push(c),
        }
    }
    out.push('"');
}

#[macro_export]
macro_rules! obj {
    ($($k:literal => $v:expr),* $(,)?) => {
        $crate::json::J::O(vec![$(($k, $v)),*])
    };
}
