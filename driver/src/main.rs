//! fpfacts — rustc_private fact extractor for the fastPASTA static checks.
//!
//! Used as RUSTC_WORKSPACE_WRAPPER under `cargo +nightly check`: compiles the
//! crate normally and, after analysis, writes one JSON fact file per crate
//! process into $FPFACTS_OUT (resolved MIR, THIR, ADT layouts, impl table,
//! constants, statics).  Nothing is executed or interpreted here.
#![feature(rustc_private)]
#![allow(clippy::all)]

extern crate rustc_abi;
extern crate rustc_ast;
extern crate rustc_data_structures;
extern crate rustc_driver;
extern crate rustc_hir;
extern crate rustc_index;
extern crate rustc_interface;
extern crate rustc_middle;
extern crate rustc_span;

mod json;
mod mirdump;
mod thirdump;

use json::J;
use rustc_driver::Compilation;
use rustc_hir::def::DefKind;
use rustc_hir::def_id::{DefId, LOCAL_CRATE};
use rustc_middle::ty::{self, Ty, TyCtxt};
use rustc_span::Span;

pub struct Cx<'tcx> {
    pub tcx: TyCtxt<'tcx>,
}

impl<'tcx> Cx<'tcx> {
    pub fn path(&self, did: DefId) -> String {
        self.tcx.def_path_str(did)
    }

    pub fn span(&self, sp: Span) -> J {
        let sm = self.tcx.sess.source_map();
        let root = sp.source_callsite();
        let lo = sm.lookup_char_pos(root.lo());
        let hi = sm.lookup_char_pos(root.hi());
        let file = match &lo.file.name {
            rustc_span::FileName::Real(r) => match r.local_path() {
                Some(p) => p.to_string_lossy().to_string(),
                None => format!("{:?}", r),
            },
            other => format!("{:?}", other),
        };
        let mut v = vec![
            ("f", J::s(file)),
            ("l", J::I(lo.line as i128)),
            ("c", J::I(lo.col.0 as i128 + 1)),
            ("l2", J::I(hi.line as i128)),
        ];
        if sp.from_expansion() {
            let mut macs = Vec::new();
            let mut cur = sp;
            let mut guard = 0;
            while cur.from_expansion() && guard < 32 {
                let data = cur.ctxt().outer_expn_data();
                macs.push(J::s(data.kind.descr()));
                cur = data.call_site;
                guard += 1;
            }
            v.push(("mac", J::A(macs)));
        }
        J::O(v)
    }

    pub fn snippet(&self, sp: Span) -> J {
        match self.tcx.sess.source_map().span_to_snippet(sp.source_callsite()) {
            Ok(s) => J::s(s),
            Err(_) => J::Null,
        }
    }

    pub fn ty_str(&self, ty: Ty<'tcx>) -> String {
        format!("{}", ty)
    }

    /// Structured description of a type: printable string, head ADT (after
    /// peeling references/pointers), closure def, all ADTs mentioned.
    pub fn ty(&self, ty: Ty<'tcx>) -> J {
        let mut v = vec![("s", J::s(self.ty_str(ty)))];
        let mut peeled = ty;
        let mut refs = 0;
        loop {
            match peeled.kind() {
                ty::Ref(_, inner, _) => {
                    peeled = *inner;
                    refs += 1;
                }
                ty::RawPtr(inner, _) => {
                    peeled = *inner;
                    refs += 1;
                }
                _ => break,
            }
        }
        if refs > 0 {
            v.push(("refs", J::I(refs)));
        }
        match peeled.kind() {
            ty::Adt(def, args) => {
                v.push(("adt", J::s(self.path(def.did()))));
                let ga: Vec<J> = args.iter().map(|a| self.garg_short(a)).collect();
                if !ga.is_empty() {
                    v.push(("ga", J::A(ga)));
                }
            }
            ty::Closure(did, _) => v.push(("closure", J::s(self.path(*did)))),
            ty::FnDef(did, _) => v.push(("fndef", J::s(self.path(*did)))),
            ty::Param(p) => v.push(("param", J::s(p.name.to_string()))),
            ty::Dynamic(..) => v.push(("dyn", J::B(true))),
            ty::Slice(_) => v.push(("slice", J::B(true))),
            ty::Array(_, n) => {
                v.push(("array", J::s(format!("{}", n))));
            }
            ty::Tuple(_) => v.push(("tuple", J::B(true))),
            _ => {}
        }
        let mut adts: Vec<String> = Vec::new();
        for ga in ty.walk() {
            if let Some(t) = ga.as_type() {
                match t.kind() {
                    ty::Adt(def, _) => {
                        let p = self.path(def.did());
                        if !adts.contains(&p) {
                            adts.push(p);
                        }
                    }
                    ty::Closure(did, _) => {
                        let p = self.path(*did);
                        if !adts.contains(&p) {
                            adts.push(p);
                        }
                    }
                    _ => {}
                }
            }
        }
        if !adts.is_empty() {
            v.push(("adts", J::A(adts.into_iter().map(J::S).collect())));
        }
        J::O(v)
    }

    pub fn garg_short(&self, a: ty::GenericArg<'tcx>) -> J {
        if let Some(t) = a.as_type() {
            let mut v = vec![("s", J::s(self.ty_str(t)))];
            match t.kind() {
                ty::Adt(def, _) => v.push(("adt", J::s(self.path(def.did())))),
                ty::Closure(did, _) => v.push(("closure", J::s(self.path(*did)))),
                ty::FnDef(did, _) => v.push(("fndef", J::s(self.path(*did)))),
                ty::Param(p) => v.push(("param", J::s(p.name.to_string()))),
                _ => {}
            }
            J::O(v)
        } else if let Some(c) = a.as_const() {
            obj! {"const" => J::s(format!("{}", c))}
        } else {
            obj! {"region" => J::B(true)}
        }
    }

    pub fn gargs(&self, args: ty::GenericArgsRef<'tcx>) -> J {
        J::A(args.iter().filter(|a| a.as_region().is_none()).map(|a| self.garg_short(a)).collect())
    }

    /// Description of a function item reference `FnDef(did, args)` seen from
    /// body `owner`: path, generic args, trait (if trait method), resolved
    /// instance (if resolvable in the owner's environment).
    pub fn fnref(&self, owner: DefId, did: DefId, args: ty::GenericArgsRef<'tcx>) -> Vec<(&'static str, J)> {
        let tcx = self.tcx;
        let mut v = vec![("fn", J::s(self.path(did))), ("ga", self.gargs(args))];
        if let Some(tr) = tcx.trait_of_assoc(did) {
            v.push(("trait", J::s(self.path(tr))));
            v.push(("name", J::s(tcx.item_name(did).to_string())));
        }
        if let Some(im) = tcx.impl_of_assoc(did) {
            let self_ty = tcx.type_of(im).instantiate_identity().skip_normalization();
            v.push(("impl_self", J::s(self.ty_str(self_ty))));
        }
        let env = ty::TypingEnv::post_analysis(tcx, owner);
        if let Ok(Some(inst)) = ty::Instance::try_resolve(tcx, env, did, args) {
            let rid = inst.def_id();
            let kind = match inst.def {
                ty::InstanceKind::Item(_) => "item",
                ty::InstanceKind::Virtual(..) => "virtual",
                ty::InstanceKind::Intrinsic(_) => "intrinsic",
                ty::InstanceKind::ClosureOnceShim { .. } => "closure_once_shim",
                ty::InstanceKind::FnPtrShim(..) => "fnptr_shim",
                ty::InstanceKind::DropGlue(..) => "drop_glue",
                ty::InstanceKind::CloneShim(..) => "clone_shim",
                ty::InstanceKind::ReifyShim(..) => "reify_shim",
                _ => "other",
            };
            v.push(("res", J::s(self.path(rid))));
            v.push(("res_kind", J::s(kind)));
            if let ty::InstanceKind::DropGlue(_, Some(t)) = inst.def {
                v.push(("drop_ty", self.ty(t)));
            }
        }
        v
    }

    pub fn field_name(&self, base: Ty<'tcx>, variant: Option<rustc_abi::VariantIdx>, idx: rustc_abi::FieldIdx) -> Option<String> {
        match base.kind() {
            ty::Adt(def, _) => {
                let v = match variant {
                    Some(v) => def.variant(v),
                    None => {
                        if def.is_enum() {
                            return None;
                        }
                        def.non_enum_variant()
                    }
                };
                v.fields.get(idx).map(|f| f.name.to_string())
            }
            _ => None,
        }
    }
}

struct Cb;

impl rustc_driver::Callbacks for Cb {
    fn after_analysis<'tcx>(&mut self, _c: &rustc_interface::interface::Compiler, tcx: TyCtxt<'tcx>) -> Compilation {
        let out_dir = match std::env::var("FPFACTS_OUT") {
            Ok(d) => d,
            Err(_) => return Compilation::Continue,
        };
        let krate = tcx.crate_name(LOCAL_CRATE).to_string();
        let only: Vec<String> = std::env::var("FPFACTS_CRATES")
            .unwrap_or_else(|_| "fastpasta,alice_protocol_reader".into())
            .split(',')
            .map(|s| s.to_string())
            .collect();
        if !only.contains(&krate) {
            return Compilation::Continue;
        }
        let j = ty::print::with_no_visible_paths!(ty::print::with_resolve_crate_name!(ty::print::with_no_trimmed_paths!(dump(tcx, &krate))));
        let mut s = String::with_capacity(1 << 24);
        j.write(&mut s);
        let p = format!("{}/{}-{}.json", out_dir, krate, std::process::id());
        let tmp = format!("{}.tmp", p);
        std::fs::write(&tmp, s.as_bytes()).expect("write facts");
        std::fs::rename(&tmp, &p).expect("rename facts");
        Compilation::Continue
    }
}

fn dump<'tcx>(tcx: TyCtxt<'tcx>, krate: &str) -> J {
    let cx = Cx { tcx };
    let crate_types: Vec<J> = tcx.crate_types().iter().map(|t| J::s(format!("{:?}", t))).collect();
    let mut fns: Vec<(String, J)> = Vec::new();
    let mut consts: Vec<(String, J)> = Vec::new();

    for ldid in tcx.hir_body_owners() {
        let did = ldid.to_def_id();
        let kind = tcx.def_kind(did);
        let path = cx.path(did);
        match kind {
            DefKind::Fn | DefKind::AssocFn | DefKind::Closure => {
                let mut v: Vec<(&'static str, J)> = Vec::new();
                v.push(("kind", J::s(format!("{:?}", kind))));
                v.push(("span", cx.span(tcx.def_span(did))));
                let full = tcx.hir_span_with_body(tcx.local_def_id_to_hir_id(ldid));
                v.push(("body_span", cx.span(full)));
                if matches!(kind, DefKind::Fn | DefKind::AssocFn) {
                    v.push(("vis", J::s(format!("{:?}", tcx.visibility(did)))));
                    v.push(("name", J::s(tcx.item_name(did).to_string())));
                }
                if let Some(parent) = tcx.opt_parent(did) {
                    v.push(("parent", J::s(cx.path(parent))));
                }
                if let Some(im) = tcx.impl_of_assoc(did) {
                    let self_ty = tcx.type_of(im).instantiate_identity().skip_normalization();
                    v.push(("impl_self", cx.ty(self_ty)));
                    if let Some(tr) = tcx.impl_opt_trait_ref(im) {
                        let tr = tr.instantiate_identity().skip_normalization();
                        v.push(("impl_trait", J::s(cx.path(tr.def_id))));
                        v.push(("impl_trait_ref", J::s(format!("{}", tr))));
                    }
                    if tcx.is_automatically_derived(im) {
                        v.push(("derived", J::B(true)));
                    }
                }
                if let Some(tr) = tcx.trait_of_assoc(did) {
                    v.push(("trait_default", J::s(cx.path(tr))));
                }
                if tcx.def_span(did).from_expansion() {
                    v.push(("from_expansion", J::B(true)));
                }
                v.push(("generics", J::I(tcx.generics_of(did).count() as i128)));
                v.push(("mir", mirdump::mir_body(&cx, did)));
                v.push(("thir", thirdump::thir_body(&cx, ldid)));
                fns.push((path, J::O(v)));
            }
            DefKind::Const { .. } | DefKind::AssocConst { .. } | DefKind::Static { .. } => {
                let mut v: Vec<(&'static str, J)> = Vec::new();
                v.push(("kind", J::s(format!("{:?}", kind))));
                v.push(("span", cx.span(tcx.def_span(did))));
                let t = tcx.type_of(did).instantiate_identity().skip_normalization();
                v.push(("ty", cx.ty(t)));
                if let Some(parent) = tcx.opt_parent(did) {
                    v.push(("parent", J::s(cx.path(parent))));
                }
                if let Some(im) = tcx.impl_of_assoc(did) {
                    let self_ty = tcx.type_of(im).instantiate_identity().skip_normalization();
                    v.push(("impl_self", cx.ty(self_ty)));
                }
                // evaluated value when it is a scalar and not generic
                if tcx.generics_of(did).count() == 0 && !matches!(kind, DefKind::Static { .. }) {
                    if let Ok(val) = tcx.const_eval_poly(did) {
                        if let Some(si) = val.try_to_scalar_int() {
                            v.push(("int", J::I(si.to_bits(si.size()) as i128)));
                        } else if let ty::Array(elem, _) = t.kind() {
                            // a constant table (the compiler's own evaluation of the initialiser): element size and the
                            // raw little-endian value of every element, when the memory holds no pointers
                            let env = ty::TypingEnv::fully_monomorphized();
                            if let (Ok(el), Ok(al)) = (tcx.layout_of(env.as_query_input(*elem)), tcx.layout_of(env.as_query_input(t))) {
                                let esz = el.size.bytes() as usize;
                                let total = al.size.bytes() as usize;
                                if let rustc_middle::mir::ConstValue::Indirect { alloc_id, offset } = val {
                                    if esz > 0 && esz <= 16 && total <= 65536 {
                                        if let rustc_middle::mir::interpret::GlobalAlloc::Memory(a) = tcx.global_alloc(alloc_id) {
                                            let inner = a.inner();
                                            let start = offset.bytes() as usize;
                                            if inner.provenance().ptrs().is_empty() && start + total <= inner.len() {
                                                let bytes = inner.inspect_with_uninit_and_ptr_outside_interpreter(start..start + total);
                                                let mut elems = Vec::new();
                                                for ch in bytes.chunks(esz) {
                                                    let mut x: u128 = 0;
                                                    for (i, b) in ch.iter().enumerate() {
                                                        x |= (*b as u128) << (8 * i);
                                                    }
                                                    elems.push(J::I(x as i128));
                                                }
                                                v.push(("elem_size", J::I(esz as i128)));
                                                v.push(("elem_ty", cx.ty(*elem)));
                                                v.push(("elems", J::A(elems)));
                                            }
                                        }
                                    }
                                }
                            }
                        }
                    }
                }
                if let DefKind::Static { mutability, .. } = kind {
                    v.push(("mutable", J::B(mutability.is_mut())));
                    // an immutable static table without interior mutability: its initial value is its value
                    if !mutability.is_mut() && tcx.generics_of(did).count() == 0 {
                        if let ty::Array(elem, _) = t.kind() {
                            let env = ty::TypingEnv::fully_monomorphized();
                            if t.is_freeze(tcx, env) {
                                if let (Ok(el), Ok(al), Ok(a)) = (tcx.layout_of(env.as_query_input(*elem)), tcx.layout_of(env.as_query_input(t)), tcx.eval_static_initializer(did)) {
                                    let esz = el.size.bytes() as usize;
                                    let total = al.size.bytes() as usize;
                                    let inner = a.inner();
                                    if esz > 0 && esz <= 16 && total <= 65536 && inner.provenance().ptrs().is_empty() && total <= inner.len() {
                                        let bytes = inner.inspect_with_uninit_and_ptr_outside_interpreter(0..total);
                                        let mut elems = Vec::new();
                                        for ch in bytes.chunks(esz) {
                                            let mut x: u128 = 0;
                                            for (i, b) in ch.iter().enumerate() {
                                                x |= (*b as u128) << (8 * i);
                                            }
                                            elems.push(J::I(x as i128));
                                        }
                                        v.push(("elem_size", J::I(esz as i128)));
                                        v.push(("elem_ty", cx.ty(*elem)));
                                        v.push(("elems", J::A(elems)));
                                    }
                                }
                            }
                        }
                    }
                }
                v.push(("thir", thirdump::thir_body(&cx, ldid)));
                consts.push((path, J::O(v)));
            }
            _ => {}
        }
    }

    // ADTs, impls, traits
    let mut adts: Vec<(String, J)> = Vec::new();
    let mut impls: Vec<J> = Vec::new();
    let mut traits: Vec<(String, J)> = Vec::new();
    for ldid in tcx.hir_crate_items(()).definitions() {
        let did = ldid.to_def_id();
        match tcx.def_kind(did) {
            DefKind::Struct | DefKind::Enum | DefKind::Union => {
                adts.push((cx.path(did), adt_info(&cx, did)));
            }
            DefKind::Impl { .. } => {
                impls.push(impl_info(&cx, did));
            }
            DefKind::Trait => {
                let items: Vec<J> = tcx
                    .associated_items(did)
                    .in_definition_order()
                    .map(|it| {
                        obj! {
                            "name" => J::s(it.name().to_string()),
                            "def" => J::s(cx.path(it.def_id)),
                            "kind" => J::s(format!("{:?}", it.kind).split('{').next().unwrap_or("").trim().to_string()),
                            "has_default" => J::B(it.defaultness(tcx).has_value())
                        }
                    })
                    .collect();
                traits.push((cx.path(did), obj! {"items" => J::A(items), "span" => cx.span(tcx.def_span(did))}));
            }
            _ => {}
        }
    }

    obj! {
        "crate" => J::s(krate),
        "crate_types" => J::A(crate_types),
        "nonce" => J::s(std::env::var("FPFACTS_NONCE").unwrap_or_default()),
        "endian" => J::s(format!("{:?}", tcx.data_layout.endian)),
        "pointer_bytes" => J::I(tcx.data_layout.pointer_size().bytes() as i128),
        "overflow_checks" => J::B(tcx.sess.overflow_checks()),
        "debug_assertions" => J::B(tcx.sess.opts.debug_assertions),
        "fns" => J::M(fns),
        "consts" => J::M(consts),
        "adts" => J::M(adts),
        "impls" => J::A(impls),
        "traits" => J::M(traits)
    }
}

fn attrs_of<'tcx>(cx: &Cx<'tcx>, did: DefId) -> J {
    let tcx = cx.tcx;
    let Some(ldid) = did.as_local() else { return J::Null };
    let hir_id = tcx.local_def_id_to_hir_id(ldid);
    let sm = tcx.sess.source_map();
    let mut v = Vec::new();
    for a in tcx.hir_attrs(hir_id) {
        match a {
            rustc_hir::Attribute::Unparsed(item) => {
                match sm.span_to_snippet(item.span) {
                    Ok(s) => v.push(J::s(s)),
                    Err(_) => v.push(J::s(format!("unparsed:{:?}", item.path))),
                }
            }
            rustc_hir::Attribute::Parsed(k) => {
                let s = format!("{:?}", k);
                if !s.starts_with("DocComment") {
                    v.push(J::s(format!("parsed:{}", s.chars().take(120).collect::<String>())));
                }
            }
        }
    }
    if v.is_empty() { J::Null } else { J::A(v) }
}

fn adt_info<'tcx>(cx: &Cx<'tcx>, did: DefId) -> J {
    let tcx = cx.tcx;
    let def = tcx.adt_def(did);
    let repr = def.repr();
    let mut v: Vec<(&'static str, J)> = Vec::new();
    v.push(("kind", J::s(if def.is_enum() { "enum" } else if def.is_union() { "union" } else { "struct" })));
    v.push(("span", cx.span(tcx.def_span(did))));
    v.push(("repr", J::s(format!("{:?}", repr))));
    v.push(("packed", J::B(repr.packed())));
    v.push(("repr_c", J::B(repr.c())));
    v.push(("attrs", attrs_of(cx, did)));
    v.push(("generics", J::I(tcx.generics_of(did).count() as i128)));
    let mut variants = Vec::new();
    for (vi, var) in def.variants().iter_enumerated() {
        let mut fields = Vec::new();
        for f in var.fields.iter() {
            let fty = tcx.type_of(f.did).instantiate_identity().skip_normalization();
            fields.push(obj! {
                "name" => J::s(f.name.to_string()),
                "ty" => cx.ty(fty),
                "vis" => J::s(format!("{:?}", f.vis)),
                "attrs" => attrs_of(cx, f.did)
            });
        }
        let discr: i128 = if def.is_enum() { def.discriminant_for_variant(tcx, vi).val as i128 } else { 0 };
        variants.push(obj! {
            "name" => J::s(var.name.to_string()),
            "idx" => J::I(vi.as_u32() as i128),
            "discr" => J::I(discr),
            "fields" => J::A(fields),
            "attrs" => attrs_of(cx, var.def_id)
        });
    }
    v.push(("variants", J::A(variants)));
    // layout (monomorphic ADTs only)
    if tcx.generics_of(did).count() == 0 {
        let ty = tcx.type_of(did).instantiate_identity().skip_normalization();
        let env = ty::TypingEnv::fully_monomorphized();
        if let Ok(l) = tcx.layout_of(env.as_query_input(ty)) {
            v.push(("size", J::I(l.size.bytes() as i128)));
            v.push(("align", J::I(l.align.abi.bytes() as i128)));
            if !def.is_enum() {
                if let rustc_abi::FieldsShape::Arbitrary { offsets, .. } = &l.fields {
                    let offs: Vec<J> = offsets.iter().map(|o| J::I(o.bytes() as i128)).collect();
                    v.push(("offsets", J::A(offs)));
                }
                let mut sizes = Vec::new();
                for (i, _f) in def.non_enum_variant().fields.iter().enumerate() {
                    let fl = l.field(&ty::layout::LayoutCx::new(tcx, env), i);
                    sizes.push(J::I(fl.size.bytes() as i128));
                }
                v.push(("field_sizes", J::A(sizes)));
            }
        }
    }
    J::O(v)
}

fn impl_info<'tcx>(cx: &Cx<'tcx>, did: DefId) -> J {
    let tcx = cx.tcx;
    let self_ty = tcx.type_of(did).instantiate_identity().skip_normalization();
    let mut v: Vec<(&'static str, J)> = Vec::new();
    v.push(("def", J::s(cx.path(did))));
    v.push(("self", cx.ty(self_ty)));
    v.push(("span", cx.span(tcx.def_span(did))));
    if let Some(tr) = tcx.impl_opt_trait_ref(did) {
        let tr = tr.instantiate_identity().skip_normalization();
        v.push(("trait", J::s(cx.path(tr.def_id))));
        v.push(("trait_ref", J::s(format!("{}", tr))));
    }
    if tcx.is_automatically_derived(did) {
        v.push(("derived", J::B(true)));
    }
    if tcx.def_span(did).from_expansion() {
        v.push(("from_expansion", J::B(true)));
    }
    v.push(("generics", J::I(tcx.generics_of(did).count() as i128)));
    let items: Vec<J> = tcx
        .associated_items(did)
        .in_definition_order()
        .map(|it| {
            obj! {
                "name" => J::s(it.name().to_string()),
                "def" => J::s(cx.path(it.def_id)),
                "trait_item" => J::opt(it.trait_item_def_id().map(|d| J::s(cx.path(d))))
            }
        })
        .collect();
    v.push(("items", J::A(items)));
    J::O(v)
}

fn main() {
    let mut args: Vec<String> = std::env::args().collect();
    // RUSTC_WORKSPACE_WRAPPER: argv[1] is the real rustc path
    if args.len() > 1 && (args[1].ends_with("rustc") || args[1].contains("/rustc")) {
        args.remove(1);
    }
    let mut cb = Cb;
    rustc_driver::run_compiler(&args, &mut cb);
}
