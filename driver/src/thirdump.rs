//! Structured dump of THIR bodies (typed expression trees, match arms with
//! evaluated patterns).
use crate::json::J;
use crate::{obj, Cx};
use rustc_hir::def_id::LocalDefId;
use rustc_hir::RangeEnd;
use rustc_middle::thir::{self, AdtExprBase, ExprId, ExprKind, Pat, PatKind, PatRangeBoundary, StmtKind, Thir};
use rustc_middle::ty::{self, Ty};

pub fn thir_body<'tcx>(cx: &Cx<'tcx>, ldid: LocalDefId) -> J {
    let tcx = cx.tcx;
    let Ok((thir, root)) = tcx.thir_body(ldid) else { return J::Null };
    let thir = thir.borrow();
    let t = T { cx, owner: ldid, thir: &thir };
    let exprs: Vec<J> = thir.exprs.iter_enumerated().map(|(id, _)| t.expr(id)).collect();
    let arms: Vec<J> = thir
        .arms
        .iter()
        .map(|a| {
            obj! {
                "pat" => t.pat(&a.pattern),
                "guard" => J::opt(a.guard.map(eid)),
                "body" => eid(a.body),
                "sp" => cx.span(a.span)
            }
        })
        .collect();
    let blocks: Vec<J> = thir
        .blocks
        .iter()
        .map(|b| {
            obj! {
                "stmts" => J::A(b.stmts.iter().map(|s| J::I(s.as_u32() as i128)).collect()),
                "expr" => J::opt(b.expr.map(eid)),
                "unsafe" => match b.safety_mode { thir::BlockSafety::ExplicitUnsafe(_) => J::B(true), _ => J::Null }
            }
        })
        .collect();
    let stmts: Vec<J> = thir
        .stmts
        .iter()
        .map(|s| match &s.kind {
            StmtKind::Expr { expr, .. } => obj! {"k" => J::s("expr"), "e" => eid(*expr)},
            StmtKind::Let { pattern, initializer, else_block, span, .. } => obj! {
                "k" => J::s("let"), "pat" => t.pat(pattern),
                "init" => J::opt(initializer.map(eid)),
                "else" => J::opt(else_block.map(|b| J::I(b.as_u32() as i128))),
                "sp" => cx.span(*span)
            },
        })
        .collect();
    let params: Vec<J> = thir
        .params
        .iter()
        .map(|p| {
            obj! {
                "pat" => match &p.pat { Some(p) => t.pat(p), None => J::Null },
                "ty" => J::s(cx.ty_str(p.ty)),
                "self" => if p.self_kind.is_some() { J::B(true) } else { J::Null }
            }
        })
        .collect();
    obj! {
        "root" => eid(root),
        "exprs" => J::A(exprs),
        "arms" => J::A(arms),
        "blocks" => J::A(blocks),
        "stmts" => J::A(stmts),
        "params" => J::A(params)
    }
}

fn eid(e: ExprId) -> J {
    J::I(e.as_u32() as i128)
}

struct T<'a, 'tcx> {
    cx: &'a Cx<'tcx>,
    owner: LocalDefId,
    thir: &'a Thir<'tcx>,
}

impl<'a, 'tcx> T<'a, 'tcx> {
    fn var(&self, id: thir::LocalVarId) -> (String, i128) {
        let name = self.cx.tcx.hir_name(id.0).to_string();
        (name, id.0.local_id.as_u32() as i128)
    }

    fn peel(&self, mut t: Ty<'tcx>) -> Ty<'tcx> {
        while let ty::Ref(_, inner, _) = t.kind() {
            t = *inner;
        }
        t
    }

    fn expr(&self, id: ExprId) -> J {
        let cx = self.cx;
        let tcx = cx.tcx;
        let e = &self.thir[id];
        let mut v: Vec<(&'static str, J)> = Vec::new();
        let kind: &'static str;
        match &e.kind {
            ExprKind::Scope { value, .. } => {
                kind = "Scope";
                v.push(("e", eid(*value)));
            }
            ExprKind::If { cond, then, else_opt, .. } => {
                kind = "If";
                v.push(("cond", eid(*cond)));
                v.push(("then", eid(*then)));
                v.push(("else", J::opt(else_opt.map(eid))));
            }
            ExprKind::Call { fun, args, from_hir_call, ty: fty, .. } => {
                kind = "Call";
                v.push(("fun", eid(*fun)));
                v.push(("args", J::A(args.iter().map(|a| eid(*a)).collect())));
                if !*from_hir_call {
                    v.push(("overloaded", J::B(true)));
                }
                if let ty::FnDef(did, ga) = fty.kind() {
                    v.extend(cx.fnref(self.owner.to_def_id(), *did, ga));
                }
            }
            ExprKind::ByUse { expr, .. } => {
                kind = "Use";
                v.push(("e", eid(*expr)));
            }
            ExprKind::Deref { arg } => {
                kind = "Deref";
                v.push(("e", eid(*arg)));
            }
            ExprKind::Binary { op, lhs, rhs } => {
                kind = "Binary";
                v.push(("op", J::s(format!("{:?}", op))));
                v.push(("l", eid(*lhs)));
                v.push(("r", eid(*rhs)));
            }
            ExprKind::LogicalOp { op, lhs, rhs } => {
                kind = "Logical";
                v.push(("op", J::s(format!("{:?}", op))));
                v.push(("l", eid(*lhs)));
                v.push(("r", eid(*rhs)));
            }
            ExprKind::Unary { op, arg } => {
                kind = "Unary";
                v.push(("op", J::s(format!("{:?}", op))));
                v.push(("e", eid(*arg)));
            }
            ExprKind::Cast { source } => {
                kind = "Cast";
                v.push(("e", eid(*source)));
            }
            ExprKind::Use { source } => {
                kind = "Use";
                v.push(("e", eid(*source)));
            }
            ExprKind::NeverToAny { source } => {
                kind = "NeverToAny";
                v.push(("e", eid(*source)));
            }
            ExprKind::PointerCoercion { source, cast, .. } => {
                kind = "PtrCoerce";
                v.push(("e", eid(*source)));
                v.push(("cast", J::s(format!("{:?}", cast))));
            }
            ExprKind::Loop { body } => {
                kind = "Loop";
                v.push(("e", eid(*body)));
            }
            ExprKind::Let { expr, pat } => {
                kind = "Let";
                v.push(("e", eid(*expr)));
                v.push(("pat", self.pat(pat)));
            }
            ExprKind::Match { scrutinee, arms, match_source } => {
                kind = "Match";
                v.push(("scrut", eid(*scrutinee)));
                v.push(("arms", J::A(arms.iter().map(|a| J::I(a.as_u32() as i128)).collect())));
                v.push(("src", J::s(format!("{:?}", match_source))));
            }
            ExprKind::Block { block } => {
                kind = "Block";
                v.push(("b", J::I(block.as_u32() as i128)));
            }
            ExprKind::Assign { lhs, rhs } => {
                kind = "Assign";
                v.push(("l", eid(*lhs)));
                v.push(("r", eid(*rhs)));
            }
            ExprKind::AssignOp { op, lhs, rhs } => {
                kind = "AssignOp";
                v.push(("op", J::s(format!("{:?}", op))));
                v.push(("l", eid(*lhs)));
                v.push(("r", eid(*rhs)));
            }
            ExprKind::Field { lhs, variant_index, name } => {
                kind = "Field";
                v.push(("e", eid(*lhs)));
                v.push(("idx", J::I(name.as_u32() as i128)));
                let lty = self.peel(self.thir[*lhs].ty);
                let vi = if let ty::Adt(def, _) = lty.kind() {
                    if def.is_enum() { Some(*variant_index) } else { None }
                } else {
                    None
                };
                if let Some(n) = cx.field_name(lty, vi, *name) {
                    v.push(("name", J::S(n)));
                }
                if let ty::Adt(def, _) = lty.kind() {
                    v.push(("adt", J::s(cx.path(def.did()))));
                }
            }
            ExprKind::Index { lhs, index } => {
                kind = "Index";
                v.push(("e", eid(*lhs)));
                v.push(("i", eid(*index)));
            }
            ExprKind::VarRef { id } => {
                kind = "Var";
                let (n, i) = self.var(*id);
                v.push(("name", J::S(n)));
                v.push(("id", J::I(i)));
            }
            ExprKind::UpvarRef { var_hir_id, .. } => {
                kind = "Upvar";
                let (n, i) = self.var(*var_hir_id);
                v.push(("name", J::S(n)));
                v.push(("id", J::I(i)));
            }
            ExprKind::Borrow { borrow_kind, arg } => {
                kind = "Borrow";
                v.push(("e", eid(*arg)));
                if matches!(borrow_kind, rustc_middle::mir::BorrowKind::Mut { .. }) {
                    v.push(("mut", J::B(true)));
                }
            }
            ExprKind::RawBorrow { arg, mutability } => {
                kind = "RawBorrow";
                v.push(("e", eid(*arg)));
                if mutability.is_mut() {
                    v.push(("mut", J::B(true)));
                }
            }
            ExprKind::Break { value, .. } => {
                kind = "Break";
                v.push(("e", J::opt(value.map(eid))));
            }
            ExprKind::Continue { .. } => {
                kind = "Continue";
            }
            ExprKind::Return { value } => {
                kind = "Return";
                v.push(("e", J::opt(value.map(eid))));
            }
            ExprKind::Repeat { value, count } => {
                kind = "Repeat";
                v.push(("e", eid(*value)));
                v.push(("n", J::s(format!("{}", count))));
            }
            ExprKind::Array { fields } => {
                kind = "Array";
                v.push(("es", J::A(fields.iter().map(|a| eid(*a)).collect())));
            }
            ExprKind::Tuple { fields } => {
                kind = "Tuple";
                v.push(("es", J::A(fields.iter().map(|a| eid(*a)).collect())));
            }
            ExprKind::Adt(adt) => {
                kind = "Adt";
                let var = adt.adt_def.variant(adt.variant_index);
                v.push(("adt", J::s(cx.path(adt.adt_def.did()))));
                v.push(("var", J::I(adt.variant_index.as_u32() as i128)));
                v.push(("vname", J::s(var.name.to_string())));
                let fields: Vec<J> = adt
                    .fields
                    .iter()
                    .map(|f| {
                        let n = var.fields.get(f.name).map(|x| x.name.to_string()).unwrap_or_default();
                        obj! {"f" => J::S(n), "idx" => J::I(f.name.as_u32() as i128), "e" => eid(f.expr)}
                    })
                    .collect();
                v.push(("fields", J::A(fields)));
                if let AdtExprBase::Base(fru) = &adt.base {
                    v.push(("base", eid(fru.base)));
                }
            }
            ExprKind::PlaceTypeAscription { source, .. } | ExprKind::ValueTypeAscription { source, .. } => {
                kind = "Use";
                v.push(("e", eid(*source)));
            }
            ExprKind::Closure(c) => {
                kind = "Closure";
                v.push(("def", J::s(cx.path(c.closure_id.to_def_id()))));
                v.push(("upvars", J::A(c.upvars.iter().map(|a| eid(*a)).collect())));
            }
            ExprKind::Literal { lit, neg } => {
                kind = "Lit";
                use rustc_ast::LitKind;
                match &lit.node {
                    LitKind::Int(n, _) => {
                        let mut val = n.get() as i128;
                        if *neg {
                            val = -val;
                        }
                        v.push(("int", J::I(val)));
                    }
                    LitKind::Bool(b) => v.push(("bool", J::B(*b))),
                    LitKind::Str(s, _) => v.push(("str", J::s(s.to_string()))),
                    LitKind::Byte(b) => v.push(("int", J::I(*b as i128))),
                    LitKind::Char(c) => v.push(("char", J::s(c.to_string()))),
                    LitKind::ByteStr(b, _) => v.push(("bytes", J::s(String::from_utf8_lossy(b.as_byte_str()).to_string()))),
                    other => v.push(("dbg", J::s(format!("{:?}", other)))),
                }
            }
            ExprKind::NonHirLiteral { lit, .. } => {
                kind = "Lit";
                v.push(("int", J::I(lit.to_bits(lit.size()) as i128)));
            }
            ExprKind::ZstLiteral { .. } => {
                kind = "Zst";
                match e.ty.kind() {
                    ty::FnDef(did, ga) => v.extend(cx.fnref(self.owner.to_def_id(), *did, ga)),
                    _ => {}
                }
            }
            ExprKind::NamedConst { def_id, args, .. } => {
                kind = "NamedConst";
                v.push(("def", J::s(cx.path(*def_id))));
                let env = ty::TypingEnv::post_analysis(tcx, self.owner.to_def_id());
                let uv = rustc_middle::mir::UnevaluatedConst { def: *def_id, args, promoted: None };
                if e.ty.is_integral() || e.ty.is_bool() || e.ty.is_char() {
                    if let Ok(val) = tcx.const_eval_resolve(env, uv, e.span) {
                        if let Some(si) = val.try_to_scalar_int() {
                            v.push(("int", J::I(si.to_bits(si.size()) as i128)));
                        }
                    }
                }
            }
            ExprKind::ConstParam { def_id, .. } => {
                kind = "ConstParam";
                v.push(("def", J::s(cx.path(*def_id))));
            }
            ExprKind::StaticRef { def_id, .. } => {
                kind = "StaticRef";
                v.push(("def", J::s(cx.path(*def_id))));
            }
            ExprKind::ConstBlock { did, .. } => {
                kind = "ConstBlock";
                v.push(("def", J::s(cx.path(*did))));
            }
            other => {
                kind = "Other";
                let s = format!("{:?}", other);
                v.push(("dbg", J::s(s.chars().take(200).collect::<String>())));
            }
        }
        let mut out: Vec<(&'static str, J)> = vec![("k", J::s(kind))];
        out.extend(v);
        out.push(("ty", J::s(cx.ty_str(e.ty))));
        if !matches!(e.kind, ExprKind::Scope { .. }) {
            out.push(("sp", cx.span(e.span)));
        }
        J::O(out)
    }

    fn valtree_int(&self, vt: ty::ValTree<'tcx>) -> Option<i128> {
        vt.try_to_leaf().map(|si| si.to_bits(si.size()) as i128)
    }

    pub fn pat(&self, p: &Pat<'tcx>) -> J {
        let cx = self.cx;
        let mut v: Vec<(&'static str, J)> = Vec::new();
        let kind: &'static str;
        match &p.kind {
            PatKind::Wild => kind = "Wild",
            PatKind::Missing => kind = "Missing",
            PatKind::Never => kind = "Never",
            PatKind::Binding { name, var, subpattern, mode, .. } => {
                kind = "Bind";
                v.push(("name", J::s(name.to_string())));
                v.push(("id", J::I(var.0.local_id.as_u32() as i128)));
                if !matches!(mode.0, rustc_hir::ByRef::No) {
                    v.push(("byref", J::B(true)));
                }
                if let Some(sp) = subpattern {
                    v.push(("sub", self.pat(sp)));
                }
            }
            PatKind::Variant { adt_def, args, variant_index, subpatterns } => {
                kind = "Variant";
                let var = adt_def.variant(*variant_index);
                v.push(("adt", J::s(cx.path(adt_def.did()))));
                v.push(("var", J::I(variant_index.as_u32() as i128)));
                v.push(("vname", J::s(var.name.to_string())));
                v.push(("ga", cx.gargs(args)));
                let subs: Vec<J> = subpatterns
                    .iter()
                    .map(|fp| {
                        let n = var.fields.get(fp.field).map(|x| x.name.to_string()).unwrap_or_default();
                        obj! {"f" => J::S(n), "idx" => J::I(fp.field.as_u32() as i128), "p" => self.pat(&fp.pattern)}
                    })
                    .collect();
                v.push(("subs", J::A(subs)));
            }
            PatKind::Leaf { subpatterns } => {
                kind = "Leaf";
                let pty = self.peel(p.ty);
                let subs: Vec<J> = subpatterns
                    .iter()
                    .map(|fp| {
                        let n = cx.field_name(pty, None, fp.field).unwrap_or_default();
                        obj! {"f" => J::S(n), "idx" => J::I(fp.field.as_u32() as i128), "p" => self.pat(&fp.pattern)}
                    })
                    .collect();
                if let ty::Adt(def, _) = pty.kind() {
                    v.push(("adt", J::s(cx.path(def.did()))));
                }
                v.push(("subs", J::A(subs)));
            }
            PatKind::Deref { subpattern, .. } => {
                kind = "Deref";
                v.push(("sub", self.pat(subpattern)));
            }
            PatKind::DerefPattern { subpattern, .. } => {
                kind = "Deref";
                v.push(("sub", self.pat(subpattern)));
            }
            PatKind::Constant { value } => {
                kind = "Const";
                if let Some(i) = self.valtree_int(value.valtree) {
                    v.push(("int", J::I(i)));
                } else {
                    v.push(("dbg", J::s(format!("{}", value))));
                }
            }
            PatKind::Range(r) => {
                kind = "Range";
                let b = |x: &PatRangeBoundary<'tcx>| match x {
                    PatRangeBoundary::Finite(vt) => J::opt(self.valtree_int(*vt).map(J::I)),
                    PatRangeBoundary::NegInfinity => J::s("-inf"),
                    PatRangeBoundary::PosInfinity => J::s("+inf"),
                };
                v.push(("lo", b(&r.lo)));
                v.push(("hi", b(&r.hi)));
                v.push(("incl", J::B(matches!(r.end, RangeEnd::Included))));
            }
            PatKind::Or { pats } => {
                kind = "Or";
                v.push(("pats", J::A(pats.iter().map(|x| self.pat(x)).collect())));
            }
            PatKind::Slice { prefix, slice, suffix } | PatKind::Array { prefix, slice, suffix } => {
                kind = "Slice";
                v.push(("prefix", J::A(prefix.iter().map(|x| self.pat(x)).collect())));
                v.push(("slice", match slice { Some(s) => self.pat(s), None => J::Null }));
                v.push(("suffix", J::A(suffix.iter().map(|x| self.pat(x)).collect())));
            }
            PatKind::Guard { subpattern, condition } => {
                kind = "Guard";
                v.push(("sub", self.pat(subpattern)));
                v.push(("cond", eid(*condition)));
            }
            PatKind::Error(_) => kind = "Error",
        }
        let mut out: Vec<(&'static str, J)> = vec![("k", J::s(kind))];
        out.extend(v);
        out.push(("ty", J::s(cx.ty_str(p.ty))));
        if let Some(extra) = &p.extra {
            if let Some(d) = extra.expanded_const {
                out.push(("from_const", J::s(cx.path(d))));
            }
        }
        J::O(out)
    }
}
