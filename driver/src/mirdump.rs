//! Structured dump of optimized MIR (mir-opt-level=0) with resolved callees.
use crate::json::J;
use crate::{obj, Cx};
use rustc_hir::def_id::DefId;
use rustc_middle::mir::{
    self, AggregateKind, BorrowKind, Const, ConstValue, Operand, Place, PlaceElem, Rvalue, StatementKind,
    TerminatorKind, UnwindAction,
};
use rustc_middle::mir::PlaceTy;
use rustc_middle::ty::{self, Ty};

pub fn mir_body<'tcx>(cx: &Cx<'tcx>, did: DefId) -> J {
    let tcx = cx.tcx;
    if !tcx.is_mir_available(did) {
        return J::Null;
    }
    let body = tcx.optimized_mir(did);
    let d = D { cx, owner: did, body };
    let mut locals = Vec::new();
    for (_l, decl) in body.local_decls.iter_enumerated() {
        locals.push(obj! {
            "ty" => cx.ty(decl.ty),
            "mutbl" => if decl.mutability.is_mut() { J::B(true) } else { J::Null }
        });
    }
    let mut dbg = Vec::new();
    for vdi in body.var_debug_info.iter() {
        let val = match &vdi.value {
            mir::VarDebugInfoContents::Place(p) => d.place(*p),
            mir::VarDebugInfoContents::Const(c) => d.constant(&c.const_),
        };
        dbg.push(obj! {"name" => J::s(vdi.name.to_string()), "v" => val, "arg" => J::opt(vdi.argument_index.map(|a| J::I(a as i128)))});
    }
    let mut blocks = Vec::new();
    for (_bb, data) in body.basic_blocks.iter_enumerated() {
        let mut stmts = Vec::new();
        for st in data.statements.iter() {
            if let Some(j) = d.stmt(st) {
                stmts.push(j);
            }
        }
        let term = match &data.terminator {
            Some(t) => d.term(t),
            None => J::Null,
        };
        blocks.push(obj! {
            "s" => J::A(stmts),
            "t" => term,
            "cleanup" => if data.is_cleanup { J::B(true) } else { J::Null }
        });
    }
    obj! {
        "argc" => J::I(body.arg_count as i128),
        "locals" => J::A(locals),
        "dbg" => J::A(dbg),
        "blocks" => J::A(blocks)
    }
}

struct D<'a, 'tcx> {
    cx: &'a Cx<'tcx>,
    owner: DefId,
    body: &'a mir::Body<'tcx>,
}

impl<'a, 'tcx> D<'a, 'tcx> {
    fn place(&self, p: Place<'tcx>) -> J {
        let tcx = self.cx.tcx;
        let mut v = vec![("l", J::I(p.local.as_u32() as i128))];
        if !p.projection.is_empty() {
            let mut pt = PlaceTy::from_ty(self.body.local_decls[p.local].ty);
            let mut proj = Vec::new();
            for elem in p.projection.iter() {
                let j = match elem {
                    PlaceElem::Deref => J::s("*"),
                    PlaceElem::Field(idx, _fty) => {
                        let name = self.cx.field_name(pt.ty, pt.variant_index, idx);
                        J::A(vec![J::s("f"), J::I(idx.as_u32() as i128), J::opt(name.map(J::S))])
                    }
                    PlaceElem::Index(l) => J::A(vec![J::s("i"), J::I(l.as_u32() as i128)]),
                    PlaceElem::ConstantIndex { offset, min_length, from_end } => {
                        J::A(vec![J::s("ci"), J::I(offset as i128), J::I(min_length as i128), J::B(from_end)])
                    }
                    PlaceElem::Subslice { from, to, from_end } => {
                        J::A(vec![J::s("ss"), J::I(from as i128), J::I(to as i128), J::B(from_end)])
                    }
                    PlaceElem::Downcast(name, vi) => {
                        J::A(vec![J::s("dc"), J::I(vi.as_u32() as i128), J::opt(name.map(|n| J::s(n.to_string())))])
                    }
                    _ => J::A(vec![J::s("other")]),
                };
                proj.push(j);
                pt = pt.projection_ty(tcx, elem);
            }
            v.push(("p", J::A(proj)));
            v.push(("ty", J::s(self.cx.ty_str(pt.ty))));
        }
        J::O(v)
    }

    fn constant(&self, c: &Const<'tcx>) -> J {
        let tcx = self.cx.tcx;
        let ty: Ty<'tcx> = c.ty();
        let mut v: Vec<(&'static str, J)> = vec![("ty", J::s(self.cx.ty_str(ty)))];
        match ty.kind() {
            ty::FnDef(did, args) => {
                v.extend(self.cx.fnref(self.owner, *did, args));
                return J::O(v);
            }
            ty::Closure(did, _) => {
                v.push(("closure", J::s(self.cx.path(*did))));
            }
            _ => {}
        }
        if let Const::Ty(_, tc) = c {
            v.push(("cty", J::s(format!("{}", tc))));
        }
        if let Const::Unevaluated(u, _) = c {
            v.push(("unevaluated", J::s(self.cx.path(u.def))));
            if u.promoted.is_some() {
                v.push(("promoted", J::B(true)));
            }
        }
        let env = ty::TypingEnv::post_analysis(tcx, self.owner);
        let is_scalar_ty = ty.is_integral() || ty.is_bool() || ty.is_char();
        if is_scalar_ty {
            if let Some(si) = c.try_eval_scalar_int(tcx, env) {
                v.push(("int", J::I(si.to_bits(si.size()) as i128)));
            }
        } else if let Const::Val(ConstValue::Slice { .. }, _) = c {
            if let Const::Val(val, _) = c {
                if let Some(bytes) = val.try_get_slice_bytes_for_diagnostics(tcx) {
                    v.push(("str", J::s(String::from_utf8_lossy(bytes).to_string())));
                }
            }
        } else if let Const::Val(ConstValue::ZeroSized, _) = c {
            v.push(("zst", J::B(true)));
        } else if let Const::Val(ConstValue::Indirect { .. }, _) | Const::Val(ConstValue::Scalar(_), _) = c {
            // &'static [u8; N] / &[&str] etc: keep a printable form for literal recovery
            let s = format!("{}", c);
            if s.len() < 4096 {
                v.push(("disp", J::s(s)));
            }
        }
        J::O(v)
    }

    fn operand(&self, o: &Operand<'tcx>) -> J {
        match o {
            Operand::Copy(p) => obj! {"cp" => self.place(*p)},
            Operand::Move(p) => obj! {"mv" => self.place(*p)},
            Operand::Constant(c) => obj! {"c" => self.constant(&c.const_)},
            other => obj! {"other" => J::s(format!("{:?}", other))},
        }
    }

    fn rvalue(&self, rv: &Rvalue<'tcx>) -> J {
        match rv {
            Rvalue::Use(op, _) => obj! {"k" => J::s("use"), "op" => self.operand(op)},
            Rvalue::Ref(_, bk, p) => {
                let k = match bk {
                    BorrowKind::Shared => "shared",
                    BorrowKind::Fake(_) => "fake",
                    BorrowKind::Mut { .. } => "mut",
                };
                obj! {"k" => J::s("ref"), "bk" => J::s(k), "pl" => self.place(*p)}
            }
            Rvalue::RawPtr(kind, p) => {
                obj! {"k" => J::s("rawptr"), "bk" => J::s(format!("{:?}", kind)), "pl" => self.place(*p)}
            }
            Rvalue::Cast(ck, op, ty) => {
                let cks = format!("{:?}", ck);
                let cks = cks.split('(').next().unwrap_or("").to_string();
                obj! {"k" => J::s("cast"), "ck" => J::s(cks), "op" => self.operand(op), "ty" => J::s(self.cx.ty_str(*ty))}
            }
            Rvalue::BinaryOp(op, ab) => {
                obj! {"k" => J::s("bin"), "op" => J::s(format!("{:?}", op)), "a" => self.operand(&ab.0), "b" => self.operand(&ab.1)}
            }
            Rvalue::UnaryOp(op, a) => {
                obj! {"k" => J::s("un"), "op" => J::s(format!("{:?}", op)), "a" => self.operand(a)}
            }
            Rvalue::Discriminant(p) => obj! {"k" => J::s("disc"), "pl" => self.place(*p)},
            Rvalue::Aggregate(kind, ops) => {
                let opsj: Vec<J> = ops.iter().map(|o| self.operand(o)).collect();
                match &**kind {
                    AggregateKind::Array(t) => {
                        obj! {"k" => J::s("agg"), "ak" => J::s("array"), "ety" => J::s(self.cx.ty_str(*t)), "ops" => J::A(opsj)}
                    }
                    AggregateKind::Tuple => obj! {"k" => J::s("agg"), "ak" => J::s("tuple"), "ops" => J::A(opsj)},
                    AggregateKind::Adt(did, vi, args, _, _) => {
                        let def = self.cx.tcx.adt_def(*did);
                        let var = def.variant(*vi);
                        let fnames: Vec<J> = var.fields.iter().map(|f| J::s(f.name.to_string())).collect();
                        obj! {
                            "k" => J::s("agg"), "ak" => J::s("adt"),
                            "adt" => J::s(self.cx.path(*did)),
                            "var" => J::I(vi.as_u32() as i128),
                            "vname" => J::s(var.name.to_string()),
                            "fnames" => J::A(fnames),
                            "ga" => self.cx.gargs(args),
                            "ops" => J::A(opsj)
                        }
                    }
                    AggregateKind::Closure(did, _) => {
                        obj! {"k" => J::s("agg"), "ak" => J::s("closure"), "closure" => J::s(self.cx.path(*did)), "ops" => J::A(opsj)}
                    }
                    AggregateKind::RawPtr(..) => obj! {"k" => J::s("agg"), "ak" => J::s("rawptr"), "ops" => J::A(opsj)},
                    other => obj! {"k" => J::s("agg"), "ak" => J::s("other"), "dbg" => J::s(format!("{:?}", other)), "ops" => J::A(opsj)},
                }
            }
            Rvalue::CopyForDeref(p) => obj! {"k" => J::s("use"), "op" => obj!{"cp" => self.place(*p)}, "cfd" => J::B(true)},
            Rvalue::Repeat(op, n) => obj! {"k" => J::s("repeat"), "op" => self.operand(op), "n" => J::s(format!("{}", n))},
            Rvalue::ThreadLocalRef(did) => obj! {"k" => J::s("tls"), "def" => J::s(self.cx.path(*did))},
            other => obj! {"k" => J::s("other"), "dbg" => J::s(format!("{:?}", other))},
        }
    }

    fn stmt(&self, st: &mir::Statement<'tcx>) -> Option<J> {
        let sp = self.cx.span(st.source_info.span);
        match &st.kind {
            StatementKind::Assign(b) => {
                let (p, rv) = &**b;
                Some(obj! {"k" => J::s("assign"), "lhs" => self.place(*p), "rv" => self.rvalue(rv), "sp" => sp})
            }
            StatementKind::SetDiscriminant { place, variant_index } => Some(obj! {
                "k" => J::s("setdisc"), "lhs" => self.place(**place), "var" => J::I(variant_index.as_u32() as i128), "sp" => sp
            }),
            StatementKind::StorageLive(l) => Some(obj! {"k" => J::s("live"), "l" => J::I(l.as_u32() as i128)}),
            StatementKind::StorageDead(l) => Some(obj! {"k" => J::s("dead"), "l" => J::I(l.as_u32() as i128)}),
            StatementKind::Intrinsic(i) => Some(obj! {"k" => J::s("intrinsic"), "dbg" => J::s(format!("{:?}", i)), "sp" => sp}),
            _ => None,
        }
    }

    fn unwind(&self, u: &UnwindAction) -> J {
        match u {
            UnwindAction::Cleanup(bb) => J::I(bb.as_u32() as i128),
            UnwindAction::Continue => J::s("continue"),
            UnwindAction::Unreachable => J::s("unreachable"),
            UnwindAction::Terminate(_) => J::s("terminate"),
        }
    }

    fn term(&self, t: &mir::Terminator<'tcx>) -> J {
        let sp = self.cx.span(t.source_info.span);
        match &t.kind {
            TerminatorKind::Goto { target } => obj! {"k" => J::s("goto"), "t" => J::I(target.as_u32() as i128)},
            TerminatorKind::SwitchInt { discr, targets } => {
                let vals: Vec<J> = targets.iter().map(|(v, bb)| J::A(vec![J::I(v as i128), J::I(bb.as_u32() as i128)])).collect();
                obj! {
                    "k" => J::s("switch"), "d" => self.operand(discr), "vals" => J::A(vals),
                    "else" => J::I(targets.otherwise().as_u32() as i128), "sp" => sp
                }
            }
            TerminatorKind::Return => obj! {"k" => J::s("ret"), "sp" => sp},
            TerminatorKind::Unreachable => obj! {"k" => J::s("unreach")},
            TerminatorKind::UnwindResume => obj! {"k" => J::s("resume")},
            TerminatorKind::UnwindTerminate(_) => obj! {"k" => J::s("abort")},
            TerminatorKind::Drop { place, target, unwind, .. } => obj! {
                "k" => J::s("drop"), "pl" => self.place(*place),
                "pty" => self.cx.ty(place.ty(self.body, self.cx.tcx).ty),
                "t" => J::I(target.as_u32() as i128), "uw" => self.unwind(unwind), "sp" => sp
            },
            TerminatorKind::Call { func, args, destination, target, unwind, fn_span, .. } => {
                let argsj: Vec<J> = args.iter().map(|a| self.operand(&a.node)).collect();
                obj! {
                    "k" => J::s("call"), "f" => self.operand(func), "args" => J::A(argsj),
                    "dest" => self.place(*destination),
                    "t" => J::opt(target.map(|b| J::I(b.as_u32() as i128))),
                    "uw" => self.unwind(unwind), "sp" => sp, "fsp" => self.cx.span(*fn_span)
                }
            }
            TerminatorKind::TailCall { func, args, .. } => {
                let argsj: Vec<J> = args.iter().map(|a| self.operand(&a.node)).collect();
                obj! {"k" => J::s("tailcall"), "f" => self.operand(func), "args" => J::A(argsj), "sp" => sp}
            }
            TerminatorKind::Assert { cond, expected, msg, target, unwind } => {
                let m = format!("{:?}", msg);
                let kind = m.split(|c: char| c == '(' || c == '{' || c == ' ').next().unwrap_or("").to_string();
                obj! {
                    "k" => J::s("assert"), "cond" => self.operand(cond), "exp" => J::B(*expected),
                    "msg" => J::s(kind), "t" => J::I(target.as_u32() as i128), "uw" => self.unwind(unwind), "sp" => sp
                }
            }
            TerminatorKind::FalseEdge { real_target, .. } => obj! {"k" => J::s("goto"), "t" => J::I(real_target.as_u32() as i128)},
            TerminatorKind::FalseUnwind { real_target, .. } => obj! {"k" => J::s("goto"), "t" => J::I(real_target.as_u32() as i128)},
            other => obj! {"k" => J::s("other"), "dbg" => J::s(format!("{:?}", other)), "sp" => sp},
        }
    }
}
